"""Binds the stand-in modules (cbor2, cryptography, filelock) to published vectors.  Run by ./check --selftest and at
the start of every OSCORE check; any failure is a fault of the machinery (exit 2), never a property violation."""

import os
import sys
import unittest


def h(s):
    return bytes.fromhex(s.replace(" ", "").replace(":", ""))


def run(repo="/repo"):
    from cryptography.hazmat.primitives.ciphers.aead import AESCCM, AESGCM, ChaCha20Poly1305
    from cryptography.hazmat.primitives.kdf.hkdf import HKDF
    from cryptography.hazmat.primitives import hashes
    from cryptography.exceptions import InvalidTag
    import cbor2

    # RFC 3610 packet vector #1 (AES-CCM, M=8, L=2)
    key = h("C0C1C2C3C4C5C6C7C8C9CACBCCCDCECF")
    nonce = h("00000003020100A0A1A2A3A4A5")
    aad = h("0001020304050607")
    pt = h("08090A0B0C0D0E0F101112131415161718191A1B1C1D1E")
    want = h("588C979A61C663D2F066D0C2C0F989806D5F6B61DAC38417E8D12CFDF926E0")
    c = AESCCM(key, tag_length=8)
    assert c.encrypt(nonce, pt, aad) == want, "RFC 3610 vector 1"
    assert c.decrypt(nonce, want, aad) == pt
    for i in range(len(want)):
        bad = bytearray(want)
        bad[i] ^= 1
        try:
            c.decrypt(nonce, bytes(bad), aad)
        except InvalidTag:
            continue
        raise AssertionError("CCM accepted a modified ciphertext")
    # AES-GCM, NIST test case 2
    g = AESGCM(bytes(16))
    assert g.encrypt(bytes(12), bytes(16), b"") == h("0388dace60b6a392f328c2b971b2fe78ab6e47d42cec13bdf53a67b21257bddf")
    # ChaCha20-Poly1305, RFC 8439 2.8.2
    k = bytes(range(0x80, 0xA0))
    n = h("070000004041424344454647")
    a = h("50515253c0c1c2c3c4c5c6c7")
    p = b"Ladies and Gentlemen of the class of '99: If I could offer you only one tip for the future, sunscreen would be it."
    ct = ChaCha20Poly1305(k).encrypt(n, p, a)
    assert ct[-16:] == h("1ae10b594f09e26a7e902ecbd0600691") and ct[:4] == h("d31a8d34"), "RFC 8439 vector"
    assert ChaCha20Poly1305(k).decrypt(n, ct, a) == p
    # HKDF, RFC 5869 test case 1
    okm = HKDF(algorithm=hashes.SHA256(), length=42, salt=h("000102030405060708090a0b0c"), info=h("f0f1f2f3f4f5f6f7f8f9")).derive(bytes([0x0b]) * 22)
    assert okm == h("3cb25f25faacd57a90434f64d0362f2a2d2d0a90cf1a5a4c5db02d56ecc4c5bf34007208d5b887185865"), "RFC 5869 vector"
    # CBOR, RFC 8949 appendix A
    for obj, enc in ((0, "00"), (23, "17"), (24, "1818"), (1000, "1903e8"), (-1, "20"), (-100, "3863"), (b"\x01\x02\x03\x04", "4401020304"),
                     ("a", "6161"), ([1, 2, 3], "83010203"), ({1: 2, 3: 4}, "a201020304"), (False, "f4"), (True, "f5"), (None, "f6"),
                     (b"", "40"), ([], "80"), (1000000, "1a000f4240")):
        assert cbor2.dumps(obj) == h(enc), ("cbor", obj)
        assert cbor2.loads(h(enc)) == obj
    return True


def run_vectors(repo=None):
    """RFC 8613 appendix C through the repository's own vector tests, against the tree under test.  The stand-ins were
    validated on their own by run(); a failure here is a disagreement between aiocoap and the published bytes.
    Returns a list of (test id, message)."""
    repo = repo or os.environ.get("VERIF_REPO", "/repo")
    if repo not in sys.path:
        sys.path.insert(0, repo)
    import aiocoap.defaults  # noqa: F401  (tests/test_oscore.py expects it to be imported)
    cwd = os.getcwd()
    os.chdir(repo)
    try:
        import importlib
        mod = importlib.import_module("tests.test_oscore")
        suite = unittest.defaultTestLoader.loadTestsFromTestCase(mod.TestOSCOAPStatic)
        res = unittest.TextTestRunner(stream=open(os.devnull, "w"), verbosity=0).run(suite)
        assert res.testsRun >= 8 and not res.skipped, "RFC 8613 vector tests did not run: %r" % (res.skipped,)
        return [(t.id(), tb.strip().splitlines()[-1][:200]) for t, tb in res.failures + res.errors]
    finally:
        os.chdir(cwd)
