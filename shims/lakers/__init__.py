"""Stand-in for the `lakers` package: aiocoap.edhoc only has to be importable (aiocoap.oscore_sitewrapper and
aiocoap.transports.oscore import it); EDHOC itself is not exercised by any check, and every entry point refuses to work."""


class _Unavailable:
    def __init__(self, *a, **k):
        raise NotImplementedError("the lakers stand-in of /verif/shims does not implement EDHOC")


class EADItem(_Unavailable):
    pass


class EdhocInitiator(_Unavailable):
    pass


class EdhocResponder(_Unavailable):
    pass


class CredentialTransfer:
    ByReference = "by-reference"
    ByValue = "by-value"
