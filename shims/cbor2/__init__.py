"""Minimal deterministic CBOR (RFC 8949) for the types aiocoap.oscore uses."""
import struct
class CBORDecodeError(ValueError): pass
class CBOREncodeError(ValueError): pass
def _head(major, n):
    if n < 24: return bytes([major << 5 | n])
    if n < 1 << 8: return bytes([major << 5 | 24, n])
    if n < 1 << 16: return bytes([major << 5 | 25]) + struct.pack("!H", n)
    if n < 1 << 32: return bytes([major << 5 | 26]) + struct.pack("!I", n)
    if n < 1 << 64: return bytes([major << 5 | 27]) + struct.pack("!Q", n)
    raise CBOREncodeError("integer too large")
def dumps(obj):
    if obj is False: return b"\xf4"
    if obj is True: return b"\xf5"
    if obj is None: return b"\xf6"
    if isinstance(obj, int):
        return _head(0, obj) if obj >= 0 else _head(1, -1 - obj)
    if isinstance(obj, (bytes, bytearray)): return _head(2, len(obj)) + bytes(obj)
    if isinstance(obj, str):
        e = obj.encode("utf-8"); return _head(3, len(e)) + e
    if isinstance(obj, (list, tuple)): return _head(4, len(obj)) + b"".join(dumps(x) for x in obj)
    if isinstance(obj, dict): return _head(5, len(obj)) + b"".join(dumps(k) + dumps(v) for k, v in obj.items())
    raise CBOREncodeError("cannot serialize type %s" % type(obj).__name__)
def _load(b, p):
    if p >= len(b): raise CBORDecodeError("premature end")
    ib = b[p]; major = ib >> 5; ai = ib & 31; p += 1
    if ai < 24: n = ai
    elif ai in (24, 25, 26, 27):
        l = 1 << (ai - 24)
        if p + l > len(b): raise CBORDecodeError("premature end")
        n = int.from_bytes(b[p:p + l], "big"); p += l
    else:
        if major == 7 and ai == 31: raise CBORDecodeError("break")
        raise CBORDecodeError("indefinite/reserved not supported")
    if major == 0: return n, p
    if major == 1: return -1 - n, p
    if major in (2, 3):
        if p + n > len(b): raise CBORDecodeError("premature end")
        d = bytes(b[p:p + n]); p += n
        if major == 3:
            try: d = d.decode("utf-8")
            except UnicodeDecodeError as e: raise CBORDecodeError(str(e))
        return d, p
    if major == 4:
        out = []
        for _ in range(n):
            v, p = _load(b, p); out.append(v)
        return out, p
    if major == 5:
        out = {}
        for _ in range(n):
            k, p = _load(b, p); v, p = _load(b, p)
            try: out[k] = v
            except TypeError: out[repr(k)] = v
        return out, p
    if major == 6: return _load(b, p)  # tags ignored
    if ib == 0xf4: return False, p
    if ib == 0xf5: return True, p
    if ib in (0xf6, 0xf7): return None, p
    raise CBORDecodeError("unsupported simple/float")
def loads(b):
    v, p = _load(bytes(b), 0)
    return v
