class Encoding: Raw = "raw"
class PrivateFormat: Raw = "raw"
class PublicFormat: Raw = "raw"
class NoEncryption: pass
