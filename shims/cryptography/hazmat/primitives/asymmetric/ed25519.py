class _Unsupported:
    def __init__(self, *a, **k): raise NotImplementedError("asymmetric crypto is not provided by the verification shim")
    @classmethod
    def from_private_bytes(cls, b): raise NotImplementedError
    @classmethod
    def from_public_bytes(cls, b): raise NotImplementedError
    @classmethod
    def generate(cls): raise NotImplementedError
class Ed25519PrivateKey(_Unsupported): pass
class Ed25519PublicKey(_Unsupported): pass
class X25519PrivateKey(_Unsupported): pass
class X25519PublicKey(_Unsupported): pass
class EllipticCurvePublicNumbers(_Unsupported): pass
class EllipticCurvePrivateNumbers(_Unsupported): pass
class SECP256R1(_Unsupported): pass
class ECDSA(_Unsupported): pass
class ECDH(_Unsupported): pass
def generate_private_key(*a, **k): raise NotImplementedError
