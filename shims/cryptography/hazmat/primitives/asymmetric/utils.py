def decode_dss_signature(sig): raise NotImplementedError
def encode_dss_signature(r, s): raise NotImplementedError
