import hashlib
class HashAlgorithm:
    name = None
    @property
    def digest_size(self): return hashlib.new(self.name).digest_size
class SHA256(HashAlgorithm): name = "sha256"
class SHA384(HashAlgorithm): name = "sha384"
class SHA512(HashAlgorithm): name = "sha512"
class Hash:
    def __init__(self, algorithm, backend=None): self._h = hashlib.new(algorithm.name)
    def update(self, d): self._h.update(d)
    def finalize(self): return self._h.digest()
