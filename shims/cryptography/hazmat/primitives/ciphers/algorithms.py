class AES:
    def __init__(self, key): self.key = key
