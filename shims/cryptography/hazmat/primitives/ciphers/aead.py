"""AEADs backed by the system libcrypto via ctypes."""
import ctypes, ctypes.util
from cryptography.exceptions import InvalidTag
_lib = ctypes.CDLL(ctypes.util.find_library("crypto") or "libcrypto.so.3")
_lib.EVP_CIPHER_CTX_new.restype = ctypes.c_void_p
for _n in ("EVP_aes_128_ccm", "EVP_aes_256_ccm", "EVP_aes_128_gcm", "EVP_aes_192_gcm", "EVP_aes_256_gcm", "EVP_chacha20_poly1305"):
    getattr(_lib, _n).restype = ctypes.c_void_p
_SET_IVLEN, _GET_TAG, _SET_TAG = 0x9, 0x10, 0x11
def _run(cipher, enc, key, nonce, data, aad, taglen, tag=None, ccm=False):
    ctx = ctypes.c_void_p(_lib.EVP_CIPHER_CTX_new()); outl = ctypes.c_int(0)
    try:
        init = _lib.EVP_EncryptInit_ex if enc else _lib.EVP_DecryptInit_ex
        upd = _lib.EVP_EncryptUpdate if enc else _lib.EVP_DecryptUpdate
        assert init(ctx, ctypes.c_void_p(cipher), None, None, None) == 1
        assert _lib.EVP_CIPHER_CTX_ctrl(ctx, _SET_IVLEN, len(nonce), None) == 1
        if ccm or not enc:
            assert _lib.EVP_CIPHER_CTX_ctrl(ctx, _SET_TAG, taglen, tag if not enc else None) == 1
        assert init(ctx, None, None, key, nonce) == 1
        if ccm:
            assert upd(ctx, None, ctypes.byref(outl), None, len(data)) == 1
        if aad:
            assert upd(ctx, None, ctypes.byref(outl), aad, len(aad)) == 1
        out = ctypes.create_string_buffer(len(data) + 16)
        n = 0
        if data or ccm:
            r = upd(ctx, out, ctypes.byref(outl), data, len(data))
            if r != 1:
                if not enc: raise InvalidTag()
                raise RuntimeError("encrypt failed")
            n = outl.value
        if not ccm:
            fin = _lib.EVP_EncryptFinal_ex if enc else _lib.EVP_DecryptFinal_ex
            if fin(ctx, ctypes.byref(out, n), ctypes.byref(outl)) != 1:
                if not enc: raise InvalidTag()
                raise RuntimeError("final failed")
            n += outl.value
        if enc:
            if ccm: _lib.EVP_EncryptFinal_ex(ctx, ctypes.byref(out, n), ctypes.byref(outl))
            t = ctypes.create_string_buffer(taglen)
            assert _lib.EVP_CIPHER_CTX_ctrl(ctx, _GET_TAG, taglen, t) == 1
            return out.raw[:n] + t.raw
        return out.raw[:n]
    finally:
        _lib.EVP_CIPHER_CTX_free(ctx)
class AESCCM:
    def __init__(self, key, tag_length=16):
        if len(key) not in (16, 32): raise ValueError("key size")
        self._k = bytes(key); self._t = tag_length
        self._c = _lib.EVP_aes_128_ccm() if len(key) == 16 else _lib.EVP_aes_256_ccm()
    def encrypt(self, nonce, data, aad):
        return _run(self._c, True, self._k, bytes(nonce), bytes(data), bytes(aad or b""), self._t, ccm=True)
    def decrypt(self, nonce, data, aad):
        if len(data) < self._t: raise InvalidTag()
        ct, tag = bytes(data[:-self._t]), bytes(data[-self._t:])
        return _run(self._c, False, self._k, bytes(nonce), ct, bytes(aad or b""), self._t, tag=tag, ccm=True)
class AESGCM:
    def __init__(self, key):
        self._k = bytes(key)
        self._c = {16: _lib.EVP_aes_128_gcm, 24: _lib.EVP_aes_192_gcm, 32: _lib.EVP_aes_256_gcm}[len(key)]()
    def encrypt(self, nonce, data, aad): return _run(self._c, True, self._k, bytes(nonce), bytes(data), bytes(aad or b""), 16)
    def decrypt(self, nonce, data, aad):
        if len(data) < 16: raise InvalidTag()
        return _run(self._c, False, self._k, bytes(nonce), bytes(data[:-16]), bytes(aad or b""), 16, tag=bytes(data[-16:]))
class ChaCha20Poly1305:
    def __init__(self, key): self._k = bytes(key); self._c = _lib.EVP_chacha20_poly1305()
    def encrypt(self, nonce, data, aad): return _run(self._c, True, self._k, bytes(nonce), bytes(data), bytes(aad or b""), 16)
    def decrypt(self, nonce, data, aad):
        if len(data) < 16: raise InvalidTag()
        return _run(self._c, False, self._k, bytes(nonce), bytes(data[:-16]), bytes(aad or b""), 16, tag=bytes(data[-16:]))
