from . import aead, base, algorithms, modes
