class Cipher:
    def __init__(self, *a, **k): raise NotImplementedError("CBC is not provided by the verification shim")
