class CBC:
    def __init__(self, iv): self.iv = iv
