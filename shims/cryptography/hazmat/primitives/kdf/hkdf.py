import hmac, hashlib
class HKDF:
    def __init__(self, algorithm, length, salt, info, backend=None):
        self._a = algorithm.name; self._l = length; self._salt = salt; self._info = info or b""
    def derive(self, ikm):
        dl = hashlib.new(self._a).digest_size
        salt = self._salt if self._salt else b"\0" * dl
        prk = hmac.new(salt, ikm, self._a).digest()
        okm = b""; t = b""; i = 1
        while len(okm) < self._l:
            t = hmac.new(prk, t + self._info + bytes([i]), self._a).digest(); okm += t; i += 1
        return okm[: self._l]
