__version__ = "0-verif-shim"
