import os
class Timeout(TimeoutError): pass
_held = {}            # path -> inode of the lock file that is locked (a lock is on the file, not on the name)
_while_waiting = []   # callables: what the holder of a lock does while somebody waits for it (run once, when a lock is found held)
def _is_held(p):
    try:
        return p in _held and os.stat(p).st_ino == _held[p]
    except OSError:
        return False
class FileLock:
    def __init__(self, lock_file, timeout=-1):
        self.lock_file = str(lock_file); self.is_locked = False
    def acquire(self, timeout=None, **kw):
        p = os.path.abspath(self.lock_file)
        if _is_held(p) and _while_waiting and (timeout is None or timeout != 0):
            fns = list(_while_waiting); del _while_waiting[:]
            for fn in fns: fn()
        if _is_held(p): raise Timeout(self.lock_file)
        open(p, "a").close(); _held[p] = os.stat(p).st_ino; self._ino = _held[p]; self.is_locked = True
        return self
    def release(self, force=False):
        p = os.path.abspath(self.lock_file)
        if self.is_locked and _held.get(p) == self._ino:
            del _held[p]
        self.is_locked = False
def _process_died():
    _held.clear()
    del _while_waiting[:]
