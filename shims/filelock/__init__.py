import os
class Timeout(TimeoutError): pass
_held = set()
class FileLock:
    def __init__(self, lock_file, timeout=-1):
        self.lock_file = str(lock_file); self.is_locked = False
    def acquire(self, timeout=None, **kw):
        p = os.path.abspath(self.lock_file)
        if p in _held: raise Timeout(self.lock_file)
        open(p, "a").close(); _held.add(p); self.is_locked = True
        return self
    def release(self, force=False):
        _held.discard(os.path.abspath(self.lock_file)); self.is_locked = False
def _process_died():
    _held.clear()
