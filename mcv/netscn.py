"""Generic closed network scenario for E2: canonical enabled-event menu over the datagram pool, an application
script, the timer queue and scenario-specific faults."""

from . import core, refcodec as rc
from .explore import Scenario
from .world import World, Peer


class St:
    pass


class NetScenario(Scenario):
    """Subclasses: build(st) creates st.world/nodes and st.script = [(label, fn(st))...];
    faults(st) -> [(label, cost)], apply_fault(st, label); on_step(st, label, kind) for monitors."""
    menu = ("drop", "dup", "reorder", "delay", "early")
    horizon = 400.0
    max_steps = 300
    deliver_variants = {}    # peer name -> [variant labels] (cost 1 each) for deliveries to that peer

    def start(self):
        st = St()
        st.violations = []
        st.horizon_hit = False
        st.script_pos = 0
        st.script = []
        st.events = 0
        self.build(st)
        st.world.loop.settle()
        return st

    def build(self, st):
        raise NotImplementedError

    def faults(self, st):
        return []

    def apply_fault(self, st, label):
        raise NotImplementedError

    def on_step(self, st, label):
        pass

    def _dgdesc(self, dg):
        d = dg.data
        if len(d) >= 4:
            return "%s%s%d.%02d" % (self.names.get(dg.dst, "?"), "<" + "CNAR"[(d[0] >> 4) & 3], d[1] >> 5, d[1] & 31)
        return "raw"

    names = {}

    def enabled(self, st):
        w = st.world
        pool = w.pool
        tn = w.loop.next_timer()
        timer_ok = tn is not None and tn <= self.horizon
        en = []
        if pool:
            en.append(("deliver#0:" + self._dgdesc(pool[0]), 0))
        elif st.script_pos < len(st.script):
            en.append(("step:" + st.script[st.script_pos][0], 0))
        elif timer_ok:
            en.append(("timer", 0))
        else:
            return []
        m = self.menu
        for i, dg in enumerate(pool):
            if i > 0 and "reorder" in m:
                en.append(("deliver#%d:%s" % (i, self._dgdesc(dg)), 1))
            peer = w.nodes.get(dg.dst)
            for var in self.deliver_variants.get(getattr(peer, "name", None), ()):
                if peer.wants_variant(dg, var):
                    en.append(("deliver#%d/%s:%s" % (i, var, self._dgdesc(dg)), 1))
            if "drop" in m:
                en.append(("drop#%d:%s" % (i, self._dgdesc(dg)), 1))
            if "dup" in m and not dg.copy:
                en.append(("dup#%d:%s" % (i, self._dgdesc(dg)), 1))
        if pool and timer_ok and "delay" in m:
            en.append(("timer", 1))
        if pool and st.script_pos < len(st.script) and "early" in m:
            en.append(("step:" + st.script[st.script_pos][0], 1))
        en += self.faults(st)
        return en

    def apply(self, st, i, label):
        w = st.world
        st.events += 1
        st._nfired = len(w.fault_fired)
        self._apply(st, i, label)
        self.on_step(st, label)

    def fired(self, st):
        """send faults consumed during the current step: [(node name, dst)]"""
        return st.world.fault_fired[st._nfired:]

    def _apply(self, st, i, label):
        w = st.world
        head = label.split(":")[0]
        if head.startswith("deliver#"):
            idx, _, var = head[8:].partition("/")
            dg = w.pool[int(idx)]
            peer = w.nodes.get(dg.dst)
            if var:
                peer.variant = var
            self.before_deliver(st, dg)
            w.deliver(dg)
            if var:
                peer.variant = None
            self.after_deliver(st, dg)
        elif head.startswith("drop#"):
            w.drop(w.pool[int(head[5:])])
        elif head.startswith("dup#"):
            dg = w.pool[int(head[4:])]
            w._id += 1
            from .world import Dgram
            cp = Dgram(w._id, dg.src, dg.dst, dg.data, dg.t, copy=True)
            dg.copy = True
            w.log("duplicate " + repr(dg))
            self.before_deliver(st, cp)
            w.pool.insert(0, cp)
            w.deliver(cp)
            self.after_deliver(st, cp)
        elif head == "timer":
            w.log("fire timer @%.6f" % w.loop.next_timer())
            self.before_timer(st)
            w.loop.fire_next_timer()
            self.after_timer(st)
        elif head == "step":
            lab, fn = st.script[st.script_pos]
            st.script_pos += 1
            w.log("app step " + lab)
            fn(st)
            w.loop.settle()
        else:
            w.log("fault " + label)
            self.apply_fault(st, label)
            w.loop.settle()

    def before_deliver(self, st, dg):
        pass

    def after_deliver(self, st, dg):
        pass

    def before_timer(self, st):
        pass

    def after_timer(self, st):
        pass


class RefServer(Peer):
    """Scripted RFC 7252 server.  Reply mode per request: piggyback (default) | sepcon | sepnon | respfirst | silent.
    The response payload names the request it answers: b'<name>|<first Uri-Path>|<token hex>'.
    Duplicate requests (same source and mid) are answered by repeating the first reply."""

    def __init__(self, name, ip, port=5683):
        super().__init__(name, ip, port)
        self.variant = None
        self.seen = {}
        self.acks = []    # (src, type, mid) of ACK/RST received
        self.served = []  # (src, token, path, mode)

    def wants_variant(self, dg, var):
        d = dg.data
        if len(d) >= 4 and d[1] >= 64 and (d[0] >> 4) & 3 == rc.CON:
            return var == "silent"      # a CON response from the node: ACKed by default, optionally ignored
        if len(d) < 4 or not (1 <= d[1] < 32):
            return False
        if (dg.src, (d[2] << 8) | d[3]) in self.seen:
            return False
        if var in ("sepcon", "silent", "sepnon", "respfirst"):
            return True
        return False

    def answer_payload(self, src, msg):
        path = rc.opt(msg[4], 11, b"")
        return self.name.encode() + b"|" + path + b"|" + msg[3].hex().encode()

    def on_message(self, src, msg, dg):
        mtype, code, mid, token, options, payload = msg
        if mtype in (rc.ACK, rc.RST):
            self.acks.append((src, mtype, mid))
            return
        if mtype == rc.CON and code >= 64:
            if (self.variant or "") != "silent":
                self.send(src, (rc.ACK, 0, mid, b"", [], b""))
            return
        if not (1 <= code < 32):
            return
        key = (src, mid)
        if key in self.seen:
            for m in self.seen[key]:
                self.send(src, m)
            return
        mode = self.variant or "piggyback"
        body = self.answer_payload(src, msg)
        self.served.append((src, token, rc.opt(options, 11, b""), mode))
        first = []
        if mode == "silent":
            self.seen[key] = []
            return
        if mtype == rc.NON:
            self.send(src, (rc.NON, 69, self.mid(), token, [], body))
            self.seen[key] = []
            return
        if mode == "piggyback":
            first = [(rc.ACK, 69, mid, token, [], body)]
            for m in first:
                self.send(src, m)
        elif mode == "respfirst":
            # the separate response overtakes the empty ACK (RFC 7252 section 5.2.2: it then also confirms the request)
            first = [(rc.ACK, 0, mid, b"", [], b"")]
            self.send(src, (rc.CON, 69, self.mid(), token, [], body))
            self.send(src, first[0])
        else:
            first = [(rc.ACK, 0, mid, b"", [], b"")]
            self.send(src, first[0])
            self.send(src, (rc.CON if mode == "sepcon" else rc.NON, 69, self.mid(), token, [], body))
        self.seen[key] = first

    def state(self):
        return (self.name, len(self.received), self.next_mid, len(self.seen), len(self.acks))
