"""Closed worlds for schedule exploration: real aiocoap contexts over fake sockets, scripted peers,
an explicit pool of in-flight datagrams, and seams for every ambient source of nondeterminism."""

import gc
import logging
import socket
import struct

from . import refcodec as rc
from .vloop import VLoop, HarnessFault, task_positions

import aiocoap
import aiocoap.messagemanager as _mm
import aiocoap.tokenmanager as _tm
import aiocoap.protocol as _proto
from aiocoap import Context
from aiocoap.tokenmanager import TokenManager
from aiocoap.messagemanager import MessageManager
from aiocoap.transports.udp6 import MessageInterfaceUDP6, UDP6EndpointAddress, _in6_pktinfo, SockExtendedErr
from aiocoap.util.asyncio.recvmsg import RecvmsgSelectorDatagramTransport
from aiocoap.util import socknumbers

EPOCH = 1_700_000_000.0


class RandomSeam:
    """Stands in for the `random` module inside messagemanager / tokenmanager."""

    def __init__(self, ints, uniform="lo"):
        self.ints = list(ints)      # successive answers of randint (last one repeats)
        self.uniform_mode = uniform
        self.uniform_calls = []

    def randint(self, a, b):
        v = self.ints.pop(0) if len(self.ints) > 1 else self.ints[0]
        return max(a, min(b, v))

    def uniform(self, a, b):
        v = {"lo": a, "mid": (a + b) / 2, "hi": b}[self.uniform_mode] if isinstance(self.uniform_mode, str) else a + (b - a) * self.uniform_mode
        self.uniform_calls.append((a, b, v))
        return v


class ClockSeam:
    """Stands in for the `time` module inside aiocoap.protocol (observe freshness)."""

    def __init__(self, loop, epoch=EPOCH):
        self.loop = loop
        self.epoch = epoch

    def time(self):
        return self.epoch + self.loop.time()


class LogCollector(logging.Handler):
    def __init__(self):
        super().__init__(level=logging.WARNING)
        self.records = []

    def emit(self, record):
        self.records.append(record)


class FakeSocket:
    """What RecvmsgSelectorDatagramTransport and MessageInterfaceUDP6 touch of a socket."""
    _next_fd = 1000

    def __init__(self, world, node):
        FakeSocket._next_fd += 1
        self.fd = FakeSocket._next_fd
        self.world = world
        self.node = node
        self.rx = []
        self.errq = []
        self.closed = False
        self.sends_after_close = 0

    def fileno(self):
        return self.fd

    def setblocking(self, b):
        pass

    def bind(self, addr):
        pass

    def getsockname(self):
        return ("::", self.node.port, 0, 0)

    def recvmsg(self, bufsize, ancbufsize=0, flags=0):
        if self.closed:
            raise OSError(9, "Bad file descriptor")
        q = self.errq if flags & socknumbers.MSG_ERRQUEUE else self.rx
        if not q:
            raise BlockingIOError()
        data, anc, fl, addr = q.pop(0)
        if len(data) > bufsize:
            # what the kernel does with a datagram that does not fit the buffer it was given: cut it, say so in the flags
            data, fl = data[:bufsize], fl | socket.MSG_TRUNC
        return data, anc, fl, addr

    def sendmsg(self, buffers, ancdata=(), flags=0, address=None):
        if self.closed:
            self.sends_after_close += 1
            raise OSError(9, "Bad file descriptor")
        data = b"".join(buffers)
        dst = (address[0], address[1])
        err = self.world.send_fault(self.node, dst, data)
        if err is not None:
            raise OSError(err, "injected send error")
        self.world.emit(self.node, dst, data)

    def close(self):
        self.closed = True


class Dgram:
    __slots__ = ("id", "src", "dst", "data", "t", "copy")

    def __init__(self, id, src, dst, data, t, copy=False):
        self.id, self.src, self.dst, self.data, self.t, self.copy = id, src, dst, data, t, copy

    def key(self):
        return (self.src, self.dst, self.data)

    def __repr__(self):
        try:
            d = rc.describe(rc.decode(self.data, check_formats=False))
        except rc.FormatError:
            d = self.data.hex()
        return "#%d %s->%s %s" % (self.id, self.src[0][-2:] + ":%d" % self.src[1], self.dst[0][-2:] + ":%d" % self.dst[1], d)


class RealNode:
    """A real aiocoap Context over the udp6 stack with a fake socket beneath the real transport."""
    real = True

    def __init__(self, world, name, ip, port, site=None):
        self.world, self.name, self.ip, self.port = world, name, ip, port
        loop = world.loop
        self.ctx = Context(loop=loop, serversite=site, loggername="coap-" + name)
        self.tman = TokenManager(self.ctx)
        self.mman = MessageManager(self.tman)
        self.sock = FakeSocket(world, self)
        self.mint = MessageInterfaceUDP6(("::", port, 0, 0), self.ctx.log, loop)
        self.transport = RecvmsgSelectorDatagramTransport(loop, self.sock, self.mint, loop.create_future())
        loop.settle()
        self.mint._ctx = self.mman
        self.mman.message_interface = self.mint
        self.tman.token_interface = self.mman
        self.ctx.request_interfaces.append(self.tman)
        self.pktinfo = _in6_pktinfo.pack(socket.inet_pton(socket.AF_INET6, ip), 0)

    @property
    def addr(self):
        return (self.ip, self.port)

    def remote(self, addr):
        """Resolved remote address object for a request towards addr=(ip, port)."""
        return UDP6EndpointAddress((addr[0], addr[1], 0, 0), self.mint)

    def receive(self, dg, local_ip=None):
        # callbacks that are ready in the very loop pass in which this datagram is read (a timer of the application, say): they run
        # after the reader callback, before anything the reader callback has only scheduled
        self._same_pass = [fn for match, fn in self.world.same_pass if match(dg)]
        self.world.same_pass = [(match, fn) for match, fn in self.world.same_pass if not match(dg)]
        pk = _in6_pktinfo.pack(socket.inet_pton(socket.AF_INET6, local_ip or dg.dst[0]), 0)
        self.sock.rx.append((dg.data, [(socket.IPPROTO_IPV6, socket.IPV6_PKTINFO, pk)], 0, (dg.src[0], dg.src[1], 0, 0)))
        self._kick()

    def receive_error(self, remote, errno_value):
        ee = SockExtendedErr._struct.pack(errno_value, 2, 1, 4, 0, 0, 0)
        self.sock.errq.append((b"", [(socket.IPPROTO_IPV6, socknumbers.IPV6_RECVERR, ee)], socknumbers.MSG_ERRQUEUE,
                               (remote[0], remote[1], 0, 0)))
        self._kick()

    def _kick(self):
        loop = self.world.loop
        r = loop.readers.get(self.sock.fd)
        if r is None:
            # closed transport: the kernel would drop it
            self.sock.rx.clear()
            self.sock.errq.clear()
            return
        cb, args = r

        def readable():
            # as with a real selector loop: removing the reader (closing the transport) in the meantime cancels this call; what
            # was readable is dropped with the socket
            if loop.readers.get(self.sock.fd) is r:
                cb(*args)
            else:
                self.sock.rx.clear()
                self.sock.errq.clear()
        loop.call_soon(readable)    # through Handle._run, so escaping exceptions reach the loop's handler
        for fn in getattr(self, "_same_pass", ()):
            loop.call_soon(fn)
        self._same_pass = []
        loop.settle()

    def state(self):
        mm, tm = self.mman, self.tman

        def rk(r):
            return r.sockaddr[:2]
        return (
            sorted((rk(r), mid, None if v is None else bytes(v.encode() if v.direction.name == "OUTGOING" else b"?"))
                   for (r, mid), v in (mm._recent_messages or {}).items()),
            sorted((rk(r), mid) for (r, mid) in (mm._active_exchanges or {})),
            sorted((rk(r), len(v)) for r, v in mm._backlogs.items()),
            sorted((rk(r), tok, mid) for (r, tok), (mid, h) in mm._piggyback_opportunities.items()),
            mm.message_id, tm._token,
            None if tm.outgoing_requests is None else sorted((tok, rk(r) if r is not None else None) for (tok, r) in tm.outgoing_requests),
            None if tm.incoming_requests is None else sorted((tok, rk(r)) for (tok, r) in tm.incoming_requests),
            self.sock.closed,
        )


class World:
    def __init__(self, mid0=0x1000, tok0=0x2000, uniform="lo", t0=0.0, quiet=True):
        gc.disable()
        self.loop = VLoop(t0)
        self.rnd_mm = RandomSeam([mid0], uniform)
        self.rnd_tm = RandomSeam([tok0], uniform)
        self._saved = (_mm.random, _tm.random, _proto.time)
        _mm.random = self.rnd_mm
        _tm.random = self.rnd_tm
        self.clock = _proto.time = ClockSeam(self.loop)
        self.pool = []          # in-flight datagrams, oldest first
        self.sent = []          # every datagram ever put on the wire: (t, src, dst, data, first?)
        self.nodes = {}         # (ip, port) -> node
        self.trace = []
        self._id = 0
        self.send_faults = {}   # (node name, dst) -> errno: next send raises
        self.fault_fired = []
        self.logs = LogCollector()
        self._loggers = []
        self.same_pass = []        # (match(dg), fn): fn runs in the loop pass in which a matching datagram is read by a real node
        self.on_emit = []       # monitors: f(dgram)
        self.disposed = False

    # -- construction
    def add_context(self, name, ip, port=5683, site=None):
        lg = logging.getLogger("coap-" + name)
        if self.logs not in lg.handlers:
            lg.addHandler(self.logs)
            lg.propagate = False
            self._loggers.append(lg)
        n = RealNode(self, name, ip, port, site)
        self.nodes[(ip, port)] = n
        return n

    def add_peer(self, peer):
        peer.world = self
        self.nodes[peer.addr] = peer
        return peer

    # -- the wire
    def log(self, s):
        self.trace.append("t=%.3f %s" % (self.loop.time(), s))

    def send_fault(self, node, dst, data):
        e = self.send_faults.pop((node.name, dst), None)
        if e is not None:
            self.fault_fired.append((node.name, dst))
            self.log("sendmsg to %s:%d raises OSError(%d)" % (dst[0][-2:], dst[1], e))
        return e

    def emit(self, node_or_addr, dst, data):
        src = node_or_addr.addr if hasattr(node_or_addr, "addr") else node_or_addr
        self._id += 1
        dg = Dgram(self._id, src, dst, bytes(data), self.loop.time())
        self.pool.append(dg)
        self.sent.append(dg)
        self.log("send " + repr(dg))
        for m in self.on_emit:
            m(dg)
        return dg

    def deliver(self, dg, keep=False):
        if not keep:
            self.pool.remove(dg)
        self.log("deliver " + repr(dg))
        node = self.nodes.get(dg.dst)
        if node is None:
            for n in self.nodes.values():   # multicast or unknown port: by ip
                if getattr(n, "accepts", lambda d: False)(dg):
                    node = n
                    break
        if node is None:
            self.log("  (no such node; lost)")
            return
        node.receive(dg)
        self.loop.settle()

    def drop(self, dg):
        self.pool.remove(dg)
        self.log("drop " + repr(dg))

    def inject(self, src, dst, data, local_ip=None):
        """A datagram that appears from outside the closed system and is delivered at once."""
        self._id += 1
        dg = Dgram(self._id, src, dst, bytes(data), self.loop.time())
        self.log("inject " + repr(dg))
        self.nodes[dst].receive(dg, local_ip) if local_ip is not None else self.nodes[dst].receive(dg)
        self.loop.settle()
        return dg

    # -- inspection
    def digest_state(self):
        return (round(self.loop.time(), 6), sorted(d.key() for d in self.pool),
                [n.state() for n in self.nodes.values() if getattr(n, "real", False)],
                [n.state() for n in self.nodes.values() if not getattr(n, "real", False)],
                self.loop.pending_timers(), task_positions(self.loop))

    def loop_exceptions(self):
        gc.collect()
        out = []
        for c in self.loop.exc:
            e = c.get("exception")
            out.append((c.get("message", ""), e))
        return out

    def error_logs(self):
        return [r for r in self.logs.records if r.levelno >= logging.ERROR]

    def dispose(self):
        if self.disposed:
            return
        self.disposed = True
        _mm.random, _tm.random, _proto.time = self._saved
        for lg in self._loggers:
            lg.removeHandler(self.logs)
        for t in list(__import__("asyncio").all_tasks(self.loop)):
            t._log_destroy_pending = False
        self.loop.dispose()
        self.nodes.clear()
        self.pool.clear()
        gc.enable()


class Peer:
    """Base of scripted (non-aiocoap) endpoints speaking refcodec tuples."""
    real = False

    def __init__(self, name, ip, port=5683):
        self.name, self.ip, self.port = name, ip, port
        self.addr = (ip, port)
        self.received = []
        self.world = None
        self.next_mid = 0x7000

    def receive(self, dg):
        try:
            msg = rc.decode(dg.data, check_formats=False)
        except rc.FormatError:
            self.received.append((dg.src, None, dg.data))
            return
        self.received.append((dg.src, msg, dg.data))
        self.on_message(dg.src, msg, dg)

    def on_message(self, src, msg, dg):
        pass

    def send(self, dst, msg):
        return self.world.emit(self.addr, dst, rc.encode(msg))

    def mid(self):
        self.next_mid = (self.next_mid + 1) & 0xFFFF
        return self.next_mid

    def state(self):
        return (self.name, len(self.received), self.next_mid)
