"""Independent codec written from RFC 7252 section 3 and RFC 8323 section 3.2.

It never imports aiocoap.  A message is the plain tuple
    (type, code, mid, token, options, payload)      options = [(number, value_bytes), ...] in wire order
and it is the oracle of C01/C15 and the wire language of every scripted peer.
"""

import struct

CON, NON, ACK, RST = 0, 1, 2, 3

# option formats by number: RFC 7252 table 4, RFC 7641, RFC 7959, RFC 7967, RFC 8613, RFC 8768, RFC 9175,
# RFC 9177, RFC 9668 (EDHOC), draft uri-path-abbrev (13, uint in aiocoap)
UINT, STRING, OPAQUE, EMPTY = "uint", "string", "opaque", "empty"
FORMATS = {
    1: OPAQUE, 3: STRING, 4: OPAQUE, 5: EMPTY, 6: UINT, 7: UINT, 8: STRING, 9: OPAQUE, 11: STRING, 12: UINT,
    13: UINT, 14: UINT, 15: STRING, 16: UINT, 17: UINT, 19: UINT, 20: STRING, 21: EMPTY, 23: UINT, 27: UINT,
    28: UINT, 31: UINT, 35: STRING, 39: STRING, 60: UINT, 252: OPAQUE, 258: UINT, 292: OPAQUE, 548: OPAQUE,
}


class FormatError(Exception):
    """The byte string is not a well-formed message under the RFC's message format."""


def fmt_of(number):
    return FORMATS.get(number, OPAQUE)


def _ext(x):
    if x < 13:
        return x, b""
    if x < 269:
        return 13, bytes([x - 13])
    if x <= 65535 + 269:
        return 14, struct.pack("!H", x - 269)
    raise ValueError("field too large for the format: %d" % x)


def encode_options(options):
    out = bytearray()
    last = 0
    for num, val in options:
        if num < last:
            raise ValueError("options must be given in non-decreasing number order")
        dn, de = _ext(num - last)
        ln, le = _ext(len(val))
        out.append((dn << 4) | ln)
        out += de + le + val
        last = num
    return bytes(out)


def encode(msg):
    mtype, code, mid, token, options, payload = msg
    assert 0 <= mtype <= 3 and 0 <= code <= 255 and 0 <= mid <= 0xFFFF and len(token) <= 8
    out = bytes([0x40 | (mtype << 4) | len(token), code]) + struct.pack("!H", mid) + token
    out += encode_options(options)
    if payload:
        out += b"\xff" + payload
    return out


def _read_ext(nibble, data, p):
    if nibble < 13:
        return nibble, p
    if nibble == 13:
        if p + 1 > len(data):
            raise FormatError("extended field truncated")
        return data[p] + 13, p + 1
    if nibble == 14:
        if p + 2 > len(data):
            raise FormatError("extended field truncated")
        return ((data[p] << 8) | data[p + 1]) + 269, p + 2
    raise FormatError("nibble 15 outside a payload marker")


def decode_options(data, p=0, check_formats=True):
    """Returns (options, payload).  Raises FormatError for message format errors."""
    num = 0
    options = []
    n = len(data)
    while p < n:
        b = data[p]
        if b == 0xFF:
            if p + 1 == n:
                raise FormatError("payload marker followed by zero-length payload")
            return options, bytes(data[p + 1:])
        p += 1
        delta, p = _read_ext(b >> 4, data, p)
        length, p = _read_ext(b & 15, data, p)
        num += delta
        if p + length > n:
            raise FormatError("option value runs past the end")
        val = bytes(data[p:p + length])
        p += length
        if check_formats and fmt_of(num) == STRING:
            try:
                val.decode("utf-8")
            except UnicodeDecodeError:
                raise FormatError("string option is not UTF-8")
        options.append((num, val))
    return options, b""


def decode(data, check_formats=True):
    data = bytes(data)
    if len(data) < 4:
        raise FormatError("shorter than the header")
    if data[0] >> 6 != 1:
        raise FormatError("version")
    mtype = (data[0] >> 4) & 3
    tkl = data[0] & 15
    if tkl > 8:
        raise FormatError("TKL 9-15 is reserved")
    code = data[1]
    mid = (data[2] << 8) | data[3]
    if 4 + tkl > len(data):
        raise FormatError("token truncated")
    token = data[4:4 + tkl]
    if code == 0 and len(data) != 4:
        raise FormatError("empty message with trailing bytes")
    options, payload = decode_options(data, 4 + tkl, check_formats)
    return (mtype, code, mid, token, options, payload)


def norm_value(number, val):
    """Semantic normal form of an option value (uint: minimal length)."""
    if fmt_of(number) == UINT:
        return val.lstrip(b"\0")
    return val


def uint(v):
    return v.to_bytes((v.bit_length() + 7) // 8, "big")


def block(num, more, szx):
    return uint((num << 4) | (int(bool(more)) << 3) | szx)


def unblock(val):
    i = int.from_bytes(val, "big")
    return (i >> 4, (i >> 3) & 1, i & 7)


def opt(options, number, default=None):
    for n, v in options:
        if n == number:
            return v
    return default


def opts(options, number):
    return [v for n, v in options if n == number]


def sorted_options(options):
    """Stable sort by number (what a sender has to do before encoding)."""
    return sorted(options, key=lambda o: o[0])


def code_str(code):
    return "%d.%02d" % (code >> 5, code & 31)


def describe(msg):
    mtype, code, mid, token, options, payload = msg
    return "%s %s mid=%d tok=%s opts=%s pl=%d" % (
        ("CON", "NON", "ACK", "RST")[mtype], code_str(code), mid, token.hex(),
        [(n, v.hex()) for n, v in options], len(payload))


# ---------------------------------------------------------------- RFC 8323 section 3.2 (CoAP over TCP)

def encode_tcp(code, token, options, payload):
    body = encode_options(options)
    if payload:
        body += b"\xff" + payload
    n = len(body)
    if n < 13:
        ln, ext = n, b""
    elif n < 269:
        ln, ext = 13, bytes([n - 13])
    elif n < 65805:
        ln, ext = 14, struct.pack("!H", n - 269)
    else:
        ln, ext = 15, struct.pack("!I", n - 65805)
    return bytes([(ln << 4) | len(token)]) + ext + bytes([code]) + token + body


def split_tcp(stream):
    """Cut a byte stream into raw frames: list of (len_nibble, tkl, length, code, token, body) and the rest.
    A frame whose header is complete but announces TKL > 8 is returned with token=None (fatal)."""
    frames = []
    p = 0
    n = len(stream)
    while p < n:
        ln = stream[p] >> 4
        tkl = stream[p] & 15
        extl = {13: 1, 14: 2, 15: 4}.get(ln, 0)
        if p + 1 + extl > n:
            break
        if ln < 13:
            length = ln
        else:
            length = int.from_bytes(stream[p + 1:p + 1 + extl], "big") + {13: 13, 14: 269, 15: 65805}[ln]
        total = 1 + extl + 1 + tkl + length
        frames.append((p, ln, tkl, length, total))
        if p + total > n:
            frames.pop()
            break
        p += total
    return frames, stream[p:]


def selftest():
    # RFC 7252 style examples and boundary checks
    m = (CON, 1, 0x7D34, b"", [(11, b"temperature")], b"")
    assert encode(m) == bytes.fromhex("40017d34bb74656d7065726174757265"), encode(m).hex()
    assert decode(encode(m)) == m
    m = (ACK, 69, 0x7D34, b"\x20", [], b"22.3 C")
    assert encode(m) == bytes.fromhex("61457d3420ff32322e332043")
    assert decode(encode(m)) == m
    for d in (0, 12, 13, 268, 269, 65803, 65804):
        for l in (0, 12, 13, 268, 269):
            mm = (NON, 2, 1, b"ab", [(60000, b"q"), (60000 + d, b"\x01" * l)], b"x")
            assert decode(encode(mm), check_formats=False) == mm, mm
    assert _ext(12) == (12, b"") and _ext(13) == (13, b"\0") and _ext(268) == (13, b"\xff")
    assert _ext(269) == (14, b"\0\0") and _ext(65804) == (14, b"\xff\xff")
    for bad in (b"", b"\x40", b"\x40\x01\x00", b"\x00\x01\x00\x00", b"\x49\x01\x00\x00" + b"x" * 9,
                b"\x40\x01\x00\x00\xff", b"\x40\x01\x00\x00\xf0", b"\x40\x01\x00\x00\x0f",
                b"\x40\x01\x00\x00\xd0", b"\x40\x01\x00\x00\x11", b"\x40\x00\x00\x00\x00",
                b"\x40\x01\x00\x00\xb1\xff"):
        try:
            decode(bad)
        except FormatError:
            continue
        raise AssertionError("accepted %r" % bad)
    # RFC 8323: lengths at the 13/269/65805 boundaries
    for n in (0, 12, 13, 268, 269, 65804, 65805, 70000):
        pl = b"p" * (n - 1) if n else b""
        f = encode_tcp(0x45, b"tk", [], pl)
        fr, rest = split_tcp(f)
        assert rest == b"" and len(fr) == 1 and fr[0][3] == n and fr[0][4] == len(f), (n, fr)
    assert encode_tcp(0xE1, b"", [], b"") == b"\x00\xe1"
    assert encode_tcp(0x01, b"\x01", [(11, b"a" * 12)], b"") == b"\xd1\x00\x01\x01\xbc" + b"a" * 12
    return True
