"""Virtual asyncio event loop: the controlled scheduler of the model checker.

The real BaseEventLoop._run_once() does all scheduling; a fake selector never reports I/O and,
when asked to wait, moves the virtual clock exactly to the earliest live timer.  The harness
decides when time passes (fire_next_timer / advance_to) and when I/O "arrives" (it calls the
reader callbacks stored by add_reader)."""

import asyncio
import threading
from asyncio import base_events, events


class HarnessFault(Exception):
    """A fault of the verification machinery (never a property violation): exit 2."""


class _VSelector:
    def __init__(self, loop):
        self.loop = loop

    def select(self, timeout):
        if timeout is None:
            raise HarnessFault("virtual loop asked to block forever (nothing to do)")
        if timeout > 0:
            live = [h._when for h in self.loop._scheduled if not h._cancelled]
            if live:
                self.loop._vtime = max(self.loop._vtime, min(live))
        return []

    def close(self):
        pass


class VLoop(base_events.BaseEventLoop):
    SETTLE_CAP = 100000

    def __init__(self, t0=0.0):
        super().__init__()
        self._vtime = float(t0)
        self._selector = _VSelector(self)
        self.readers = {}
        self.exc = []  # contexts passed to the loop's exception handler
        self.set_exception_handler(lambda loop, ctx: self.exc.append(ctx))
        self._thread_id = threading.get_ident()
        self._prev_running = events._get_running_loop()
        events._set_running_loop(None)
        events._set_running_loop(self)

    # -- what BaseEventLoop leaves to subclasses
    def time(self):
        return self._vtime

    def _process_events(self, event_list):
        pass

    def _write_to_self(self):
        pass

    def run_in_executor(self, executor, func, *args):
        """Executor jobs are one more kind of callback under the scheduler's control: the job runs in a later loop pass of
        its own (never in a real thread, whose completion time nobody would own), its result arrives through the future."""
        fut = self.create_future()

        def job():
            if fut.cancelled():
                return
            try:
                r = func(*args)
            except BaseException as e:     # noqa - handed to the awaiting coroutine, as an executor would
                fut.set_exception(e)
            else:
                fut.set_result(r)
        self.call_soon(job)
        return fut

    def add_reader(self, fd, callback, *args):
        self.readers[fd] = (callback, args)

    def remove_reader(self, fd):
        return self.readers.pop(fd, None) is not None

    # -- harness primitives
    def settle(self):
        """Run ready callbacks/tasks to quiescence without advancing time."""
        n = 0
        while self._ready:
            self._run_once()
            n += 1
            if n > self.SETTLE_CAP:
                raise HarnessFault("livelock: ready queue never drains")

    def next_timer(self):
        live = [h._when for h in self._scheduled if not h._cancelled]
        return min(live) if live else None

    def fire_next_timer(self):
        """Advance to the earliest live timer, run everything due, settle. False if none."""
        self.settle()
        if self.next_timer() is None:
            return False
        self._run_once()
        self.settle()
        return True

    def advance_to(self, t):
        """Fire every timer due up to and including t, then set the clock to t."""
        self.settle()
        while True:
            n = self.next_timer()
            if n is None or n > t:
                break
            self.fire_next_timer()
        if t > self._vtime:
            self._vtime = t
        self.settle()

    def advance(self, dt):
        self.advance_to(self._vtime + dt)

    def pending_timers(self):
        """(offset, callback name) of live timers, sorted: part of canonical state digests."""
        out = []
        for h in self._scheduled:
            if h._cancelled:
                continue
            cb = h._callback
            name = getattr(cb, "__qualname__", None) or getattr(getattr(cb, "func", None), "__qualname__", None) or type(cb).__name__
            out.append((round(h._when - self._vtime, 6), name))
        return sorted(out)

    def run_coro(self, coro, horizon=None):
        """Drive a coroutine to completion under virtual time (used for small sequential harnesses)."""
        task = self.create_task(coro)
        self.settle()
        while not task.done():
            n = self.next_timer()
            if n is None or (horizon is not None and n > horizon):
                break
            self.fire_next_timer()
        return task

    def dispose(self):
        """Detach from the thread; the loop object is simply dropped afterwards."""
        events._set_running_loop(None)
        if self._prev_running is not None:
            events._set_running_loop(self._prev_running)
        self._ready.clear()
        self._scheduled.clear()
        self.readers.clear()


def task_positions(loop):
    """Suspended-task positions for state digests: (name, f_lasti of innermost awaited coroutine)."""
    out = []
    for t in asyncio.all_tasks(loop):
        co = t.get_coro()
        pos = []
        seen = 0
        while co is not None and seen < 20:
            fr = getattr(co, "cr_frame", None) or getattr(co, "gi_frame", None) or getattr(co, "ag_frame", None)
            if fr is None:
                break
            pos.append((getattr(co, "__qualname__", "?"), fr.f_lasti))
            co = getattr(co, "cr_await", None) or getattr(co, "gi_yieldfrom", None) or getattr(co, "ag_await", None)
            seen += 1
        out.append(tuple(pos))
    return sorted(out)
