"""C01 - datagram codec: bounded-exhaustive input enumeration (E1) against the independent refcodec."""

import itertools
import logging

from .. import core, refcodec as rc
from ..core import Result, Violation

from aiocoap import Message, error
from aiocoap.message import Direction
from aiocoap.numbers.optionnumbers import OptionNumber

PROP = "C01"
LEVEL = "exploration"
EXHAUSTIVE = True
RULE = ("E1: complete product of small alphabets (types x codes x mids x token lengths x option lists x payloads) "
        "for encode/decode, and complete sets of byte strings (short strings over a structural byte alphabet; every "
        "truncation / single-byte substitution / insertion / deletion of seed datagrams) for decode; whole datagrams of 64..4096 bytes "
        "through the real recvmsg transport over a fake socket that cuts what does not fit the buffer it is handed; an ordinary datagram parsed again after 3000 datagrams with unregistered option numbers. "
        "A case is non-trivial+distinct by its signature (direction, outcome class, option-format multiset, "
        "extended-field classes hit, length class).")
ASSUMPTIONS = [
    "oracle is mcv/refcodec.py, an independent reading of RFC 7252 section 3 (self-tested on RFC examples)",
    "values outside the alphabets (e.g. payloads > 300 bytes, option values > 65804 bytes) are not explored",
    "string options carrying invalid UTF-8 count as not well-formed (library may reject or round-trip)",
]

# ------------------------------------------------------------------------------------------ alphabets

U, S, O, B = "uint", "string", "opaque", "block"


def option_alphabet(tier):
    A = []
    for n, vals in ((7, (0, 1, 255, 256, 65535)), (14, (0, 60, 2**32 - 1)), (6, (0, 2**24 - 1)), (60, (0, 1124)),
                    (12, (0, 40, 65535)), (17, (0, 60)), (258, (0, 26)), (16, (1,)), (28, (70000,))):
        A += [(n, U, v) for v in vals]
    A += [(3, S, "a"), (3, S, "xn--example.com"), (8, S, "loc"), (15, S, "a=b"), (15, S, ""), (20, S, "q"),
          (35, S, "coap://h/" + "p" * 259), (39, S, "coap")]
    A += [(11, S, v) for v in ("", "a", "é", "€" * 4, "m" * 12, "n" * 13, "o" * 268, "p" * 269)]
    # legal UTF-8 that is not in a Unicode normal form: must go over the wire exactly as given
    A += [(11, S, "e\u0301"), (3, S, "\u212b.example"), (15, S, "\u1100\u1161=\u2126")]
    A += [(4, O, b""), (4, O, b"\x00"), (4, O, b"\xff" * 8), (1, O, b""), (1, O, b"ab"), (9, O, b"\x09\x01"),
          (252, O, b"e" * 12), (292, O, b""), (292, O, b"\xff"), (548, O, b"h" * 13), (5, O, b""), (21, O, b"")]
    blocks = [(0, False, 0), (1, True, 6), (15, False, 2), (16, True, 0), (2**20 - 1, True, 7)]
    A += [(23, B, v) for v in blocks] + [(27, B, v) for v in blocks[:3]]
    A += [(2049, O, b""), (2049, O, b"u" * 12), (2049, O, b"v" * 13), (2061, O, b"x"), (2062, O, b"x"),
          (2317, O, b"x"), (2318, O, b"x"), (65000, O, b"y" * 268), (65000, O, b"z" * 269), (65535, O, b""),
          (65803, O, b"w"), (65804, O, b"w"), (65805, O, b"")]
    if tier == "thorough":
        A += [(2049, O, b"L" * 65803), (2049, O, b"L" * 65804)]
    return A


def wire_value(kind, v):
    if kind == U:
        return rc.uint(v)
    if kind == S:
        return v.encode("utf-8")
    if kind == B:
        return rc.block(*v)
    return v


def build(mtype, code, mid, token, optitems, payload):
    m = Message(code=code, _mtype=mtype, _mid=mid, _token=token, payload=payload)
    for n, kind, v in optitems:
        m.opt.add_option(OptionNumber(n).create_option(value=v))
    return m


def fields(m):
    return (int(m.mtype), int(m.code), m.mid, bytes(m.token),
            [(int(o.number), bytes(o.encode())) for o in m.opt.option_list()], bytes(m.payload))


def _extclass(x):
    return 0 if x < 13 else 1 if x < 269 else 2


def sig_of_options(wire_opts):
    last = 0
    s = set()
    for n, v in wire_opts:
        s.add((rc.fmt_of(n), _extclass(n - last), n - last in (0, 12, 13, 268, 269, 65803, 65804), _extclass(len(v)),
               len(v) in (0, 12, 13, 268, 269, 65803, 65804)))
        last = n
    return tuple(sorted(s))


# ------------------------------------------------------------------------------------------ direction A

def check_encode(res, mtype, code, mid, token, optitems, payload):
    res.evaluations += 1
    case = {"dir": "A", "msg": [mtype, code, mid, token, [[n, k, v] for n, k, v in optitems], payload]}
    wire_opts = rc.sorted_options([(n, wire_value(k, v)) for n, k, v in optitems])
    try:
        expected = rc.encode((mtype, code, mid, token, wire_opts, payload))
    except ValueError:
        return  # not representable on the wire at all
    try:
        m = build(mtype, code, mid, token, optitems, payload)
        got = m.encode()
    except Exception as e:
        res.violate(Violation("encode-raises", "RFC 7252 bytes " + expected[:24].hex(), core.exc_desc(e), core.site_of(e), case, key=type(e).__name__))
        return
    if got != expected:
        res.violate(Violation("encode-bytes", expected[:64].hex(), got[:64].hex(), "message.py:encode", case, key="bytes"))
        return
    try:
        m2 = Message.decode(got)
        f2 = fields(m2)
    except Exception as e:
        res.violate(Violation("decode-of-own-encoding-raises", "message", core.exc_desc(e), core.site_of(e), case, key=type(e).__name__))
        return
    want = (mtype, code, mid, token, wire_opts, payload)
    if f2 != want:
        res.violate(Violation("roundtrip-fields", core.jsonable(want)[:5], core.jsonable(f2)[:5], "message.py:decode", case, key="fields"))
        return
    # semantic values survive too
    vals = [(int(o.number), tuple(o.value) if isinstance(o.value, tuple) else (int(o.value) if rc.fmt_of(int(o.number)) == rc.UINT else o.value))
            for o in m2.opt.option_list()]
    wantvals = [(n, tuple(v) if k == B else v) for n, k, v in sorted(optitems, key=lambda o: o[0])]
    if vals != wantvals:
        res.violate(Violation("roundtrip-values", wantvals, vals, "optiontypes.py", case, key="values"))
        return
    res.signatures.add(("A", mtype, code >> 5, len(token), sig_of_options(wire_opts), bool(payload)))
    res.outcomes.add(("A-ok", len(optitems)))
    res.traces += 1


CODES_Q = (0, 1, 2, 31, 32, 64, 69, 95, 132, 160, 191, 192, 225, 255)
MIDS = (0, 1, 0x1234, 0xFFFF)
PAYLOADS = (b"", b"p", b"\xff\xfe", b"0123456789abc")


def job_A_headers(arg):
    tier, seed = arg
    res = Result()
    codes = range(256) if tier == "thorough" else CODES_Q
    fill = bytes((seed * 7 + i * 13 + 1) & 0xFF for i in range(8))
    optsets = ([], [(11, S, "a")], [(2318, O, b"x"), (4, O, b"\x00")])
    for mtype in range(4):
        for code in codes:
            for mid in MIDS:
                for tkl in range(9):
                    for oi, optitems in enumerate(optsets):
                        check_encode(res, mtype, code, mid, fill[:tkl], optitems, PAYLOADS[oi])
    res.sample({"dir": "A", "msg": [3, 255, 0xFFFF, fill, optsets[2], PAYLOADS[2]]})
    return res


def job_A_options(arg):
    tier, seed, first = arg
    res = Result()
    A = option_alphabet(tier)
    big = [i for i, it in enumerate(A) if len(wire_value(it[1], it[2])) > 300]
    maxlen = 3
    small = [it for it in A if len(wire_value(it[1], it[2])) <= 300]
    tok = bytes([(seed + 1) & 0xFF, 0x5A])
    head = (0, 1, 0x1234, tok)
    # length 0..3 lists whose first element is `first` (the work split); empty list handled by first == None
    if first is None:
        for pl in PAYLOADS:
            check_encode(res, *head, [], pl)
        return res
    f = A[first]
    for L in range(1, maxlen + 1):
        pool = small if len(wire_value(f[1], f[2])) <= 300 else small[:12]
        for rest in itertools.product(pool, repeat=L - 1):
            items = [f] + list(rest)
            for pl in (PAYLOADS if L < 3 else PAYLOADS[:2]):
                check_encode(res, *head, items, pl)
    if tier == "thorough":
        # length 4 over the structurally distinct half of the alphabet
        core4 = [it for it in small if it[0] in (1, 3, 4, 6, 11, 12, 23, 2049, 2061, 2062, 2317, 2318, 65000, 65535)][::2]
        if f in core4:
            for rest in itertools.product(core4, repeat=3):
                check_encode(res, 1, 69, 1, b"", [f] + list(rest), b"")
    res.sample({"dir": "A", "options": [[n, k, v if len(repr(v)) < 40 else repr(v)[:40]] for n, k, v in [f]]})
    return res


# ------------------------------------------------------------------------------------------ direction B

class _RecCtx:
    def __init__(self):
        self.n = 0

    def dispatch_message(self, m):
        self.n += 1


_paths = None


def _receive_paths():
    """The two transport receive paths that sit on Message.decode, with a recording manager."""
    global _paths
    if _paths is None:
        from aiocoap.transports.udp6 import MessageInterfaceUDP6
        from aiocoap.transports.generic_udp import GenericMessageInterface
        from ..vloop import VLoop
        lp = VLoop()
        log = logging.getLogger("coap.c01")
        rec = _RecCtx()
        u = MessageInterfaceUDP6(("::", 5683, 0, 0), log, lp)
        u._ctx = rec
        G = type("G", (GenericMessageInterface,), {"recognize_remote": lambda self, r: False})
        g = G(rec, log, lp)
        _paths = (u, g, rec)
    return _paths


def check_decode(res, data, via_paths=False):
    res.evaluations += 1
    case = {"dir": "B", "bytes": data}
    try:
        ref = rc.decode(data)
        wf = True
    except rc.FormatError:
        ref = None
        wf = False
    try:
        m = Message.decode(data)
    except error.UnparsableMessage:
        if wf:
            res.violate(Violation("wellformed-rejected", rc.describe(ref), "UnparsableMessage", "message.py:decode", case))
        else:
            res.outcomes.add("B-rejected")
            res.signatures.add(("B", "rej", min(len(data), 5), data[0] >> 4 if data else -1))
        m = None
    except Exception as e:
        res.violate(Violation("parser-raises-other", "UnparsableMessage or a message", type(e).__name__, core.site_of(e), case,
                              trace=[core.exc_desc(e)]))
        m = None
        if via_paths:
            _check_paths(res, data, case)
        return
    if m is not None:
        try:
            f = fields(m)
        except Exception as e:
            res.violate(Violation("parsed-message-unusable", "fields", type(e).__name__, core.site_of(e), case))
            return
        if wf:
            want = ref[:4] + ([(n, rc.norm_value(n, v)) for n, v in ref[4]], ref[5])
            same = f[:4] == ref[:4] and f[5] == ref[5] and len(f[4]) == len(ref[4]) and all(
                a == b or a == (b[0], rc.norm_value(*b)) for a, b in zip(f[4], ref[4]))
            if not same:
                res.violate(Violation("wellformed-misparsed", core.jsonable(want), core.jsonable(f), "message.py:decode", case, key="fields"))
                return
        # whatever was parsed must round-trip
        try:
            m.direction = Direction.OUTGOING
            e = m.encode()
            f2 = fields(Message.decode(e))
        except Exception as ex:
            res.violate(Violation("parsed-message-does-not-reencode", "round trip", type(ex).__name__, core.site_of(ex), case,
                                  trace=[core.exc_desc(ex)]))
            return
        if f2 != f:
            res.violate(Violation("parsed-message-roundtrip-differs", core.jsonable(f), core.jsonable(f2), "message.py", case, key="fields"))
            return
        res.traces += 1
        res.outcomes.add("B-wf" if wf else "B-lenient")
        res.signatures.add(("B", wf, sig_of_options(f[4]), len(f[3]), bool(f[5]), f[1] >> 5))
    if via_paths:
        _check_paths(res, data, case)


def _check_paths(res, data, case):
    u, g, rec = _receive_paths()
    for name, call in (("udp6", lambda: u.datagram_msg_received(data, [], 0, ("2001:db8::1", 5683, 0, 0))),
                       ("generic_udp", lambda: g._received_datagram("addr", data))):
        try:
            call()
        except Exception as e:
            res.violate(Violation("receive-path-raises", "datagram ignored or dispatched", type(e).__name__,
                                  name + "<-" + core.site_of(e), case))


def through_socket(res):
    """Whole datagrams up to a datagram's usual size, through the real recvmsg transport over the fake socket (which cuts what does not
    fit the buffer the transport hands it, as the kernel does): the server's handler sees exactly the payload that was sent."""
    from ..world import World
    from aiocoap import resource, Message as M
    seen = []

    class Sink(resource.Resource):
        async def render_put(self, request):
            seen.append(bytes(request.payload))
            return M(payload=b"")
    site = resource.Site()
    site.add_resource(["s"], Sink())
    w = World()
    try:
        srv = ("2001:db8::5", 5683)
        peer = ("2001:db8::1", 40000)
        w.add_context("srv", *srv, site=site)
        for total in (64, 1152, 1280, 1500, 2048, 3071, 3072, 3073, 3500, 4000, 4095, 4096):
            head = rc.encode((rc.NON, 3, 0x3000 + (total & 0xFFF), b"\x55", [(11, b"s")], b""))
            pl = bytes((i * 5 + total) & 0xFF for i in range(total - len(head) - 1))
            data = rc.encode((rc.NON, 3, 0x3000 + (total & 0xFFF), b"\x55", [(11, b"s")], pl))
            n = len(seen)
            w.inject(peer, srv, data)
            w.loop.settle()
            res.evaluations += 1
            case = {"dir": "socket", "datagram_bytes": len(data)}
            if seen[n:] != [pl]:
                res.violate(Violation("datagram-through-transport", "handler sees the %d payload bytes that were sent" % len(pl),
                                      [len(x) for x in seen[n:]], "util/asyncio/recvmsg.py:_read_ready", case, key="socket:" + ("short" if seen[n:] else "lost")))
            res.signatures.add(("socket", total))
            res.traces += 1
        res.outcomes.add("socket")
    finally:
        w.dispose()


TAIL = (0x00, 0x01, 0x0C, 0x0D, 0x0E, 0x0F, 0x10, 0x41, 0x80, 0xB1, 0xC0, 0xD0, 0xD1, 0xE0, 0xE1, 0xF0, 0xF1, 0xFE, 0xFF)
FIRST = (0x40, 0x41, 0x48, 0x49, 0x4F, 0x50, 0x60, 0x70, 0x00, 0x80, 0xC0)


def long_history(res):
    """Parsing does not depend on what the process has parsed before: 3000 datagrams, each with another option number nobody has
    registered, and then an ordinary one - whose options still come out with their values and types."""
    known = rc.encode((0, 1, 0x0102, b"t", [(3, b"h.example"), (4, b"e"), (6, b"\x05"), (11, b"p"), (12, b"\x28"), (15, b"q=1")], b"pl"))

    def view():
        m = Message.decode(known)
        return (m.opt.uri_host, tuple(m.opt.etags), m.opt.observe, tuple(m.opt.uri_path), m.opt.content_format, tuple(m.opt.uri_query), bytes(m.payload))
    want = ("h.example", (b"e",), 5, ("p",), 40, ("q=1",), b"pl")
    case = {"dir": "history", "bytes": known}
    res.evaluations += 1
    for round_ in range(2):
        got = view()
        if got != want or any(type(a) is not type(b) and not (isinstance(a, int) and isinstance(b, int)) for a, b in zip(got, want)):
            res.violate(Violation("wellformed-misparsed", core.jsonable(want), core.jsonable([repr(x) for x in got]), "util/__init__.py:ExtensibleIntEnum._missing_",
                                  dict(case, after_unknown_numbers=3000 * round_), key="history"))
            return
        for n in range(3000):
            num = 2050 + 2 * n        # elective, unregistered
            try:
                Message.decode(rc.encode((1, 1, n & 0xFFFF, b"", [(num, b"x")], b"")))
            except error.UnparsableMessage:
                pass
    res.outcomes.add("history")
    res.signatures.add(("history",))
    res.traces += 1


def job_B_short(arg):
    tier, seed, part = arg
    res = Result()
    if part == "tiny":
        through_socket(res)
        long_history(res)
        check_decode(res, b"", True)
        for a in range(256):
            check_decode(res, bytes([a]), True)
            for b in (0, 1, 69, 255):
                check_decode(res, bytes([a, b]), True)
                check_decode(res, bytes([a, b, 0]), True)
                for t in itertools.chain([()], itertools.product(TAIL, repeat=1), itertools.product(TAIL, repeat=2)):
                    check_decode(res, bytes([a, b, 0x12, 0x34]) + bytes(t), True)
        res.sample({"dir": "B", "bytes": bytes([0x40, 1, 0x12, 0x34, 0xE0, 0xFF])})
        return res
    first, code = part
    maxtail = 5 if tier == "thorough" else 4
    for L in range(0, maxtail + 1):
        for t in itertools.product(TAIL, repeat=L):
            check_decode(res, bytes([first, code, 0, 7]) + bytes(t))
    return res


def seeds(tier, seed):
    """Valid datagrams (<= 48 bytes) covering every option format and extended-field shape."""
    out = []
    tok = bytes([(seed * 3 + 5) & 0xFF, 0xA5, 0x5A])
    base = [
        (0, 1, 1, b"", [], b""), (2, 69, 2, tok[:1], [], b"hi"), (1, 2, 3, tok, [(11, b"a"), (11, b"bc")], b"\xff"),
        (0, 3, 4, tok[:2], [(3, b"h"), (7, b"\x16\x33"), (11, b"\xc3\xa9"), (12, b""), (15, b"a=1")], b"x"),
        (2, 95, 5, tok, [(27, b"\x0e")], b""), (2, 69, 6, b"", [(4, b"et"), (6, b"\x05"), (23, b"\x1a"), (28, b"\x01\x00")], b"0123456789abcdef"),
        (0, 1, 7, tok, [(2049, b"u" * 13)], b""), (1, 5, 8, b"", [(258, b"\x1a")], b"q"), (0, 1, 9, tok, [(292, b"")], b""),
        (0, 1, 10, b"", [(5, b""), (2318, b"x")], b""), (3, 0, 11, b"", [], b""), (2, 0, 12, b"", [], b""),
        (0, 1, 13, tok[:1], [(9, b"\x09\x01"), (12, b"\x28"), (14, b"\x3c"), (17, b"\x28"), (35, b"coap://x"), (39, b"coap"), (60, b"\x04\x64")], b""),
        (0, 2, 14, b"12345678", [(1, b"m"), (1, b""), (8, b"l"), (20, b"q")], b"pay"), (1, 132, 15, tok, [(252, b"e" * 12)], b"d"),
        (0, 1, 16, b"", [(65000, b"")], b"p"), (0, 1, 17, b"", [(11, b"m" * 12), (11, b"n" * 13)], b""),
    ]
    out += [rc.encode(m) for m in base]
    if tier == "thorough":
        extra = []
        for i, m in enumerate(base):
            t, c, mid, tk, o, p = m
            extra.append((t ^ 1, c, mid + 100, tk[::-1], o + [(65535, b"zz")], p + b"\x00"))
            extra.append(((t + 2) & 3, c, mid + 200, tk, [(1, b"\x01")] + o, b""))
        out += [rc.encode(m) for m in extra]
    return out


def mutations(d):
    n = len(d)
    for i in range(n):
        yield d[:i]                     # truncation
        yield d[:i] + d[i + 1:]         # deletion
        for v in range(256):
            if v != d[i]:
                yield d[:i] + bytes([v]) + d[i + 1:]   # substitution
    for i in range(n + 1):
        for v in range(256):
            yield d[:i] + bytes([v]) + d[i:]           # insertion


def job_B_mut(arg):
    tier, seed, d = arg
    res = Result()
    check_decode(res, d, True)
    for x in mutations(d):
        check_decode(res, x)
    res.sample({"dir": "B", "seed_datagram": d})
    return res


# ------------------------------------------------------------------------------------------ entry points

def run(tier, seed, jobs):
    logging.getLogger("coap.c01").addHandler(logging.NullHandler())
    logging.getLogger("coap.c01").propagate = False
    A = option_alphabet(tier)
    work = [("hdr", (tier, seed))]
    work += [("opt", (tier, seed, i)) for i in [None] + list(range(len(A)))]
    work += [("short", (tier, seed, "tiny"))]
    codesB = (1, 0, 69) if tier == "quick" else (1, 0, 69, 2, 95, 160, 255)
    work += [("short", (tier, seed, (f, c))) for f in FIRST for c in codesB]
    work += [("mut", (tier, seed, d)) for d in seeds(tier, seed)]

    res = core.prun(_dispatch, work, jobs)
    res.scenarios["alphabets"] = {"option_items": len(A), "seed_datagrams": len(seeds(tier, seed)),
                                  "tail_bytes": len(TAIL), "first_bytes": len(FIRST)}
    return res


def _dispatch(w):
    kind, arg = w
    return {"hdr": job_A_headers, "opt": job_A_options, "short": job_B_short, "mut": job_B_mut}[kind](arg)


def replay(case, scenario, seed):
    res = Result()
    if case["dir"] == "socket":
        through_socket(res)
    elif case["dir"] == "history":
        long_history(res)
    elif case["dir"] == "A":
        t, c, mid, tok, items, pl = case["msg"]
        check_encode(res, t, c, mid, tok, [tuple(tuple(x) if isinstance(x, list) else x for x in it) for it in items], pl)
    else:
        print("    input bytes:", case["bytes"].hex())
        check_decode(res, case["bytes"], True)
    return [v for v, n in res.violations.values()]
