"""C02 - a response reaches exactly the request it answers; every request completes once.

E2 over a UDP client world: 1-3 concurrent requests to two scripted RFC 7252 servers; every datagram's fate
(deliver / drop / duplicate / reorder / delay), the server's reply mode, forged responses, RST, ICMP errors,
sendmsg errors and shutdown are choice points.  Monitor = reference rules evaluated on every step."""

import asyncio
import errno

from .. import core, refcodec as rc
from ..core import Violation
from ..explore import explore_schedules, replay_schedule
from ..netscn import NetScenario, RefServer

from aiocoap import Message, GET, NON, CON, error

PROP = "C02"
LEVEL = "model_checking"
RULE = ("E2: all schedules with <= K deviations from the default (deliver oldest / next app step / next timer) over the menu "
        "drop, duplicate, reorder, delay, early app step, server reply mode (piggyback/separate CON/separate NON/silent), "
        "forged responses (token+-1, sniffed token from other IP/port, replay of a retired response), RST, ICMP error, "
        "sendmsg OSError (two errno values each, one of which Python maps to a builtin exception class), a retry that re-sends the same Message object (after giving up, and while the first request is still outstanding), shutdown (also with a request submitted while it is under way), withdrawal of a request by the application (at once, held back, in flight); distinct = distinct schedule; states = distinct world digests at choice points")
ASSUMPTIONS = [
    "liveness is asserted as event => completion (RFC 7252 gives a NON or already-ACKed request no time-out)",
    "non-observe requests only (observe token life cycle is C07)",
    "servers are scripted refcodec peers; value alphabets are small (tokens/mids chosen by the implementation)",
]

CLI = ("2001:db8::c", 40000)
S1 = ("2001:db8::1", 5683)
S2 = ("2001:db8::2", 5683)
S1P = ("2001:db8::1", 5684)
EVIL = ("2001:db8::66", 5683)
SRV = {"S1": S1, "S2": S2}

SCENARIOS = {
    "S-REQ-1C": [("r0", "CON", "S1")],
    "S-REQ-1N": [("r0", "NON", "S1")],
    "S-REQ-2same": [("r0", "CON", "S1"), ("r1", "NON", "S1")],
    "S-REQ-2backlog": [("r0", "CON", "S1"), ("r1", "CON", "S1")],
    "S-REQ-2diff": [("r0", "CON", "S1"), ("r1", "CON", "S2")],
    "S-REQ-3": [("r0", "CON", "S1"), ("r1", "NON", "S1"), ("r2", "CON", "S2")],
    "S-REQ-half": [("r0", "CON", "S1"), None, ("r1", "NON", "S1")],   # None: r1 is a later app step
    # forced collision: before r1 is issued the token counter is moved to where its next value is r0's token followed by a
    # zero byte (counter values 256 apart must still give different tokens)
    "S-REQ-tokenwrap": [("r0", "NON", "S1"), "wrap", ("r1", "NON", "S1")],
    # the application loses interest in r0 in the very step in which it issued it (before anything has been sent): whatever the
    # server answers later on that token is a response to nothing
    "S-REQ-earlywithdraw": [("r0", "CON", "S1", "withdraw-now"), ("r1", "CON", "S2")],
    # an application-level retry: the application gives up on r0 and sends the very same Message object again (it still
    # carries the token and message ID the library put into it); an answer to the first attempt is an answer to nothing
    "S-REQ-retry": [("r0", "NON", "S1"), None, ("r1", "NON", "S1", "resend:r0")],
    # ... and sends the same Message object a second time while the first request is still outstanding (non-confirmable: each
    # submission is a request of its own, under its own token)
    "S-REQ-reuse": [("r0", "NON", "S1"), ("r1", "NON", "S1", "reuse:r0")],
    "S-REQ-reuse-later": [("r0", "NON", "S1"), None, ("r1", "NON", "S1", "reuse:r0")],
    # (non-confirmable only: a confirmable message object stays in the message layer's hands, which goes on retransmitting it,
    # until its exchange is over - handing it in a second time before that is not a request the property speaks of)
}


class MidServer(RefServer):
    """The payload also names the message ID of the request datagram it answers, so that an answer to an earlier attempt with
    the same path and token is told from the answer to the current one."""

    def answer_payload(self, src, msg):
        return super().answer_payload(src, msg) + b"|%04x" % msg[2]


class Req:
    def __init__(self, name, mtype, srv, flag=None):
        self.name, self.mtype, self.srv, self.flag = name, mtype, srv, flag
        self.path = flag.split(":")[1] if flag and flag.startswith(("resend:", "reuse:")) else name
        self.obj = None
        self.done_calls = 0
        self.token = None
        self.mid = None
        self.first_tx = None
        self.acked = False   # exchange closed by ACK/RST (model, from the wire)
        self.withdrawn = False   # the application itself cancelled it (fault menu)


class MatchScenario(NetScenario):
    names = {CLI: "cli", S1: "S1", S2: "S2"}
    deliver_variants = {"S1": ["sepcon", "sepnon", "respfirst", "silent"], "S2": ["sepcon", "silent"]}
    horizon = 120.0
    max_steps = 120

    def __init__(self, name, K, menu=None):
        self.name = name
        self.params = {"requests": [r if r != "wrap" else "move-token-counter" for r in SCENARIOS[name]]}
        self.K = K
        if menu is not None:
            self.menu = menu

    def build(self, st):
        from ..world import World
        w = st.world = World()
        st.cli = w.add_context("cli", *CLI)
        st.s1 = w.add_peer(MidServer("S1", *S1))
        st.s2 = w.add_peer(MidServer("S2", *S2))
        st.reqs = []
        st.faults_used = set()
        st.shutdown_task = None
        st.shut = False
        w.on_emit.append(lambda dg: self.on_wire(st, dg))
        groups = [[]]
        wrap_before = set()
        for r in SCENARIOS[self.name]:
            if r is None or r == "wrap":
                if r == "wrap":
                    wrap_before.add(len(groups))
                groups.append([])
            else:
                groups[-1].append(Req(*r))
        for gi, g in enumerate(groups):
            st.reqs += g
            if gi in wrap_before:
                st.script.append(("move token counter", lambda st: self.move_counter(st)))
            st.script.append(("issue " + "+".join(r.name for r in g), lambda st, g=g: self.issue_group(st, g)))

    def move_counter(self, st):
        t = st.reqs[0].token or b"\x01"
        st.cli.tman._token = (int.from_bytes(t, "big") << 8) - 1

    def issue_group(self, st, g):
        for r in g:
            self.issue(st, r)
        st.world.loop.settle()
        for r in g:
            if r.token is None or not (r.flag or "").startswith("reuse:") and not any((o.flag or "") == "reuse:" + r.name for o in st.reqs):
                r.token = r.msg.token   # the token is visible to the application on its message object (unless the object was used again)
        for r in g:
            for o in st.reqs:
                if o is not r and o.obj is not None and o.token == r.token and o.srv == r.srv and self.outstanding(o) and self.outstanding(r):
                    st.violations.append(Violation("token-reuse", "pairwise different tokens among outstanding requests to one endpoint",
                                                   [o.name, r.name, r.token.hex()], "tokenmanager.py:next_token", {}, key="reuse"))
        self.sendfault_check(st)

    def sendfault_check(self, st):
        """If an armed sendmsg error fired in this step, a transport error was reported for that remote: every
        request outstanding towards it must have ended; nothing else is judged for this step."""
        f = self.fired(st)
        for node, dst in f:
            for r in st.reqs:
                if r.obj is not None and SRV[r.srv] == dst:
                    r.acked = True
                    if not r.obj.response.done():
                        st.violations.append(Violation("send-error-does-not-complete", "request to that remote failed", "pending",
                                                       "tokenmanager.py:dispatch_error", {}, key="senderr"))
        return bool(f)

    def issue(self, st, r):
        if r.flag == "withdraw-now" and not getattr(st, "slow_resolution", False):
            # finding the remote takes a turn of the loop (as name resolution does), so the application's change of mind is
            # processed before the request reaches the token manager
            st.slow_resolution = True
            real = st.cli.ctx.find_remote_and_interface

            async def slow(message):
                await asyncio.sleep(0)
                return await real(message)
            st.cli.ctx.find_remote_and_interface = slow
        if r.flag and r.flag.startswith("reuse:"):
            m = [o for o in st.reqs if o.name == r.path][0].msg
        elif r.flag and r.flag.startswith("resend:"):
            first = [o for o in st.reqs if o.name == r.path][0]
            if not first.obj.response.done():
                first.withdrawn = True
                first.obj.response.cancel()
                st.world.loop.settle()
            first.acked = True       # nobody waits for it any more
            m = first.msg
        else:
            m = Message(code=GET, uri_path=[r.name], _mtype=CON if r.mtype == "CON" else NON)
            m.remote = st.cli.remote(SRV[r.srv])
        r.msg = m
        r.obj = st.cli.ctx.request(m, handle_blockwise=False)
        r.obj.response.add_done_callback(lambda f, r=r: setattr(r, "done_calls", r.done_calls + 1))
        r.issued_at = st.world.loop.time()
        if r.flag == "withdraw-now":
            r.withdrawn = True
            r.obj.response.cancel()

    # -- the wire as the model sees it
    def on_wire(self, st, dg):
        if dg.src != CLI:
            return
        try:
            m = rc.decode(dg.data, check_formats=False)
        except rc.FormatError:
            return
        if 1 <= m[1] < 32:
            path = rc.opt(m[4], 11, b"").decode()
            if any(r.path == path and r.mid == m[2] and r.first_tx is not None for r in st.reqs):
                return      # a retransmission
            for r in st.reqs:
                if r.path == path and r.first_tx is None and r.obj is not None:
                    r.first_tx = dg.t
                    r.token = m[3]
                    r.mid = m[2]
                    # tokens of simultaneously outstanding requests to one endpoint differ
                    for o in st.reqs:
                        if o is not r and o.token == r.token and o.srv == r.srv and o.obj is not None and not o.obj.response.done():
                            st.violations.append(Violation("token-reuse", "pairwise different tokens", r.token.hex(),
                                                           "tokenmanager.py:next_token", {}, key="reuse"))
                    break       # one datagram is the first transmission of one request

    def outstanding(self, r):
        return r.obj is not None and not r.obj.response.done()

    # -- fault menu
    def faults(self, st):
        if st.shut:
            return []
        out = []
        live = [r for r in st.reqs if self.outstanding(r) and r.token is not None]
        done = [r for r in st.reqs if r.obj is not None and r.obj.response.done() and r.token is not None]
        if live:
            r = live[0]
            # (CON0: a confirmable forgery under message ID 0, the one value of the ID space that is falsy)
            for kind in ("tok+1:CON", "tok+1:NON", "tok-1:CON", "tok+1:CON0", "ip:CON", "ip:NON", "ip:ACK", "port:CON", "port:NON", "port:ACK"):
                out.append(("forge:%s:%s" % (r.name, kind), 1))
            if r.mtype == "CON" and r.mid is not None:   # a held-back request has no message ID to reset yet
                out.append(("rst:%s" % r.name, 1))
                out.append(("rst@port:%s" % r.name, 1))
        if "withdraw" not in st.faults_used:
            # the application loses interest in a request (held back or in flight): the others must not notice
            for r in live:
                out.append(("withdraw:%s" % r.name, 1))
            # ... and does so in the very loop pass in which a Reset / a transport error for it is read (the application's step
            # comes first, its future's own clean-up callback has not run yet when the error is dispatched)
            for r in live:
                if r.mtype == "CON" and r.mid is not None and not r.acked and r.first_tx is not None:
                    out.append(("cancel+rst:%s" % r.name, 1))
                if r.first_tx is not None:
                    out.append(("cancel+icmp:%s" % r.name, 1))
        if done and "replay" not in st.faults_used:
            out.append(("replay:%s" % done[0].name, 1))
        # a Reset for the message of a request that is over already (answered by a separate response, or withdrawn) while its
        # exchange is still open: it closes the exchange and nothing else; what waits behind it goes out
        for r in done:
            if r.mtype == "CON" and r.mid is not None and not r.acked and r.first_tx is not None and "rstdone" not in st.faults_used:
                out.append(("rstdone:%s" % r.name, 1))
                break
        for s in ("S1", "S2"):
            if any(r.srv == s for r in live):
                out.append(("icmp:" + s, 1))
                out.append(("icmp-timedout:" + s, 1))      # an errno that Python turns into a builtin (non-library) exception class
                out.append(("senderr:" + s, 1))
                out.append(("senderr-timedout:" + s, 1))
        if any(r.obj is not None for r in st.reqs):
            out.append(("shutdown", 1))
            # ... with one more request submitted by another task while the shutdown is under way
            out += [("shutdown/req%d" % j, 1) for j in (1, 2, 3)]
        return out

    def apply_fault(self, st, label):
        w = st.world
        parts = label.split(":")
        kind = parts[0]
        byname = {r.name: r for r in st.reqs}
        before = self.snapshot(st)
        nsent = len(w.sent)
        if kind == "forge":
            r = byname[parts[1]]
            how, typ = parts[2], parts[3]
            tok = r.token
            src = SRV[r.srv]
            if how in ("tok+1", "tok-1"):
                n = max(len(tok), 1)
                d = 1 if how == "tok+1" else -1
                g = int.from_bytes(tok, "big")
                while True:   # a guess that is not, by accident, another live token
                    g = (g + d) % (1 << (8 * n))
                    tok = g.to_bytes(n, "big")
                    if not any(o.token == tok for o in st.reqs):
                        break
            elif how == "ip":
                src = EVIL
            elif how == "port":
                src = (src[0], src[1] + 1)
            t = {"CON": rc.CON, "NON": rc.NON, "ACK": rc.ACK, "CON0": rc.CON}[typ]
            mid = r.mid if (typ == "ACK" and r.mid is not None) else 0 if typ == "CON0" else 0x6666
            w.inject(src, CLI, rc.encode((t, 69, mid, tok, [], b"FORGED")))
            self.expect_unmatched(st, before, nsent, src, t, mid, label)
        elif kind == "replay":
            r = byname[parts[1]]
            st.faults_used.add("replay")
            f = r.obj.response
            body = f.result().payload if not f.cancelled() and f.exception() is None else b"FORGED"
            w.inject(SRV[r.srv], CLI, rc.encode((rc.CON, 69, 0x6667, r.token, [], body)))
            self.expect_unmatched(st, before, nsent, SRV[r.srv], rc.CON, 0x6667, label)
        elif kind in ("rst", "rst@port"):
            r = byname[parts[1]]
            src = SRV[r.srv] if kind == "rst" else (SRV[r.srv][0], SRV[r.srv][1] + 1)
            was_open = r.mtype == "CON" and not r.acked and r.first_tx is not None
            w.inject(src, CLI, rc.encode((rc.RST, 0, r.mid, b"", [], b"")))
            if kind == "rst" and was_open:
                r.acked = True
                if not r.obj.response.done():
                    st.violations.append(Violation("rst-does-not-complete", "request failed", "pending", "messagemanager.py:_remove_exchange", {}, key="rst"))
            else:
                self.expect_same(st, before, label)
            self.expect_no_tx(st, nsent, label)
        elif kind == "rstdone":
            r = byname[parts[1]]
            st.faults_used.add("rstdone")
            w.inject(SRV[r.srv], CLI, rc.encode((rc.RST, 0, r.mid, b"", [], b"")))
            r.acked = True
            self.expect_same(st, before, label)
        elif kind in ("cancel+rst", "cancel+icmp"):
            r = byname[parts[1]]
            st.faults_used.add("withdraw")
            r.withdrawn = True
            concerned = [o for o in st.reqs if o.srv == r.srv and o is not r and self.outstanding(o) and o.first_tx is not None]
            w.loop.call_soon(r.obj.response.cancel)
            if kind == "cancel+rst":
                w.inject(SRV[r.srv], CLI, rc.encode((rc.RST, 0, r.mid, b"", [], b"")))
                r.acked = True
                # (the Reset ends the exchange and lets the next held-back message out: if an armed send error bites that one,
                # the requests towards that endpoint fail for a reason of their own - judged by sendfault_check below)
                struck = {dst for node, dst in self.fired(st)}
                for o in st.reqs:
                    if o is not r and before[o.name] != self.snap1(o) and SRV[o.srv] not in struck:
                        st.violations.append(Violation("withdrawal-changed-other-request", before[o.name], self.snap1(o),
                                                       "tokenmanager.py:request", {}, key="cancel+rst-other"))
            else:
                st.cli.receive_error(SRV[r.srv], errno.ECONNREFUSED)
                w.loop.settle()
                r.acked = True
                for o in concerned:
                    o.acked = True
                    if not o.obj.response.done():
                        st.violations.append(Violation("icmp-does-not-complete", "request to that remote failed", "pending",
                                                       "tokenmanager.py:dispatch_error", {}, key="cancel+icmp"))
        elif kind == "withdraw":
            r = byname[parts[1]]
            st.faults_used.add("withdraw")
            r.withdrawn = True
            r.obj.response.cancel()
            w.loop.settle()
            for o in st.reqs:
                if o is not r and before[o.name] != self.snap1(o):
                    st.violations.append(Violation("withdrawal-changed-other-request", before[o.name], self.snap1(o),
                                                   "tokenmanager.py:request", {}, key="withdraw-other"))
            self.expect_no_tx(st, nsent, label)
        elif kind in ("icmp", "icmp-timedout"):
            s = parts[1]
            concerned = [r for r in st.reqs if r.srv == s and self.outstanding(r) and r.first_tx is not None]
            st.cli.receive_error(SRV[s], errno.ECONNREFUSED if kind == "icmp" else errno.ETIMEDOUT)
            w.loop.settle()
            for r in concerned:
                if not r.obj.response.done():
                    st.violations.append(Violation("icmp-does-not-complete", "request to that remote failed", "pending",
                                                   "tokenmanager.py:dispatch_error", {}, key="icmp"))
                r.acked = True
            for r in st.reqs:
                if r.srv != s and r.obj is not None and before[r.name] != self.snap1(r):
                    st.violations.append(Violation("error-hits-other-remote", before[r.name], self.snap1(r),
                                                   "tokenmanager.py:dispatch_error", {}, key="other-remote"))
        elif kind in ("senderr", "senderr-timedout"):
            st.world.send_faults[("cli", SRV[parts[1]])] = errno.ENETUNREACH if kind == "senderr" else errno.ETIMEDOUT
        elif kind.startswith("shutdown"):
            st.shut = True
            st.shutdown_task = w.loop.create_task(st.cli.ctx.shutdown())
            if "/req" in kind:
                for i in range(int(kind.split("/req")[1])):
                    if w.loop._ready:
                        w.loop._run_once()
                late = Req("late", "CON", "S1")
                st.reqs.append(late)
                try:
                    self.issue(st, late)
                except error.Error:
                    st.reqs.remove(late)      # refused on the spot
            w.loop.settle()
            for r in st.reqs:
                if r.obj is not None and not r.obj.response.done():
                    st.violations.append(Violation("shutdown-does-not-complete", "LibraryShutdown", "pending",
                                                   "tokenmanager.py:shutdown", {}, key="shutdown"))

    def snap1(self, r):
        if r.obj is None:
            return "unissued"
        f = r.obj.response
        if not f.done():
            return "pending"
        if f.cancelled():
            return "cancelled"
        if f.exception() is not None:
            return "exc:" + type(f.exception()).__name__
        return "res:" + f.result().payload.decode("latin1")

    def snapshot(self, st):
        return {r.name: self.snap1(r) for r in st.reqs}

    def expect_same(self, st, before, label):
        if self.fired(st):
            return
        after = self.snapshot(st)
        if after != before:
            st.violations.append(Violation("foreign-message-changed-request", before, after, "tokenmanager.py:process_response", {},
                                           key=label.split(":")[0] + ":" + ":".join(label.split(":")[2:])))

    def expect_no_tx(self, st, nsent, label):
        if self.fired(st):
            return
        new = [d for d in st.world.sent[nsent:] if d.src == CLI and not (1 <= d.data[1] < 32)]   # a released backlog is fine
        if new:
            st.violations.append(Violation("unexpected-reply", "nothing sent", [repr(d) for d in new], "messagemanager.py:dispatch_message", {},
                                           key=label.split(":")[0]))

    def expect_unmatched(self, st, before, nsent, src, mtype, mid, label):
        """A response that matches no outstanding request: nothing delivered; CON -> exactly one RST; else silence."""
        if self.sendfault_check(st):
            return
        self.expect_same(st, before, label)
        new = [rc.decode(d.data) for d in st.world.sent[nsent:] if d.src == CLI and d.dst == src]
        other = [d for d in st.world.sent[nsent:] if d.src == CLI and d.dst != src]
        if mtype == rc.CON:
            want = [(rc.RST, 0, mid, b"", [], b"")]
        else:
            want = []
        if new != want or other:
            st.violations.append(Violation("unmatched-response-reaction", [rc.describe(m) for m in want],
                                           [rc.describe(m) for m in new] + [repr(d) for d in other],
                                           "messagemanager.py:dispatch_message", {}, key="%s" % ("CNAR"[mtype])))

    # -- deliveries to the client are judged against the model
    def before_deliver(self, st, dg):
        st._before = self.snapshot(st)
        st._nsent = len(st.world.sent)
        st._pre_out = {r.name: self.outstanding(r) for r in st.reqs}

    def after_deliver(self, st, dg):
        if dg.dst != CLI or st.shut:
            return
        if self.sendfault_check(st):
            return
        try:
            m = rc.decode(dg.data, check_formats=False)
        except rc.FormatError:
            return
        mtype, code, mid, token, options, payload = m
        if mtype in (rc.ACK, rc.RST):
            for r in st.reqs:
                if r.mid == mid and SRV[r.srv] == dg.src and r.mtype == "CON" and r.first_tx is not None and not r.acked:
                    r.acked = True
                    if mtype == rc.RST and st._pre_out[r.name] and not r.obj.response.done():
                        st.violations.append(Violation("rst-does-not-complete", "request failed", "pending",
                                                       "messagemanager.py:_remove_exchange", {}, key="rst"))
        if code < 64 or mtype == rc.RST:
            return
        match = [r for r in st.reqs if r.token == token and SRV[r.srv] == dg.src and st._pre_out[r.name] and r.first_tx is not None]
        if match:
            r = match[0]
            f = r.obj.response
            if not (f.done() and f.exception() is None and f.result().payload == payload):
                st.violations.append(Violation("matching-response-not-delivered", payload.decode("latin1"), self.snap1(r),
                                               "tokenmanager.py:process_response", {}, key="not-delivered"))
            new = [rc.decode(d.data) for d in st.world.sent[st._nsent:] if d.src == CLI and d.dst == dg.src
                   and not (1 <= d.data[1] < 32)]
            want = [(rc.ACK, 0, mid, b"", [], b"")] if mtype == rc.CON else []
            if new != want:
                st.violations.append(Violation("matched-response-reaction", [rc.describe(x) for x in want], [rc.describe(x) for x in new],
                                               "messagemanager.py:dispatch_message", {}, key="CNAR"[mtype]))
            for o in st.reqs:
                if o is not r and st._before[o.name] != self.snap1(o):
                    st.violations.append(Violation("response-changed-other-request", st._before[o.name], self.snap1(o),
                                                   "tokenmanager.py", {}, key="other"))
        else:
            new = [d for d in st.world.sent[st._nsent:] if d.src == CLI and not (1 <= d.data[1] < 32)]
            self.expect_same(st, st._before, "deliver:unmatched:" + "CNAR"[mtype])
            newm = [rc.decode(d.data) for d in new if d.dst == dg.src]
            want = [(rc.RST, 0, mid, b"", [], b"")] if mtype == rc.CON else []
            if newm != want or len(newm) != len(new):
                st.violations.append(Violation("unmatched-response-reaction", [rc.describe(x) for x in want], [repr(d) for d in new],
                                               "messagemanager.py:dispatch_message", {}, key="CNAR"[mtype]))

    # -- invariants after every step
    def on_step(self, st, label):
        for r in st.reqs:
            if r.obj is None:
                continue
            f = r.obj.response
            if r.done_calls > 1:
                st.violations.append(Violation("completed-twice", 1, r.done_calls, "protocol.py:Request._run", {}, key="twice"))
            if f.done():
                if f.cancelled() and r.withdrawn:
                    pass
                elif f.cancelled():
                    st.violations.append(Violation("request-cancelled", "result or error.Error", "cancelled", "protocol.py", {}, key="cancel"))
                elif f.exception() is not None:
                    if not isinstance(f.exception(), error.Error):
                        st.violations.append(Violation("foreign-exception-type", "instance of aiocoap.error.Error",
                                                       core.exc_desc(f.exception()), core.site_of(f.exception()), {},
                                                       key=type(f.exception()).__name__))
                else:
                    pl = f.result().payload
                    want = (r.srv + "|" + r.path + "|").encode() + (r.token or b"").hex().encode() + b"|%04x" % (r.mid or 0)
                    if pl != want:
                        st.violations.append(Violation("wrong-response-delivered", want.decode(), pl.decode("latin1"),
                                                       "tokenmanager.py:process_response", {}, key="wrong-payload"))

    def finish(self, st):
        w = st.world
        self.on_step(st, "finish")
        for msg, e in w.loop_exceptions():
            if isinstance(e, asyncio.InvalidStateError) or True:
                st.violations.append(Violation("loop-exception", "none", core.exc_desc(e) if e else msg,
                                               core.site_of(e) if e else "loop", {}, key=type(e).__name__ if e else msg[:50]))
        # a CON request whose exchange was never closed must have ended by now (the horizon is past MAX_TRANSMIT_WAIT)
        if not st.horizon_hit:
            for r in st.reqs:
                if r.obj is not None and r.mtype == "CON" and r.first_tx is not None and not r.acked and not r.obj.response.done():
                    st.violations.append(Violation("unacknowledged-request-still-pending", "timeout error", "pending at horizon",
                                                   "messagemanager.py:_retransmit", {}, key="hang"))
                if r.obj is not None and r.first_tx is None and not r.obj.response.done() and not st.shut:
                    st.violations.append(Violation("request-never-transmitted-nor-failed", "transmitted or failed", "pending, never on the wire",
                                                   "messagemanager.py", {}, key="forgotten"))

    def outcome(self, st):
        return tuple(sorted(self.snapshot(st).items())) + (st.shut,)


def scenarios(tier):
    if tier == "quick":
        return [MatchScenario(n, 1) for n in SCENARIOS]
    return [MatchScenario(n, 2) for n in SCENARIOS]


def run(tier, seed, jobs):
    if tier == "quick":
        res = explore_schedules([MatchScenario(n, 1) for n in SCENARIOS], 1, jobs)
        res.merge(explore_schedules([MatchScenario("S-REQ-1C", 2), MatchScenario("S-REQ-2same", 2)], 2, jobs, cap=40000))
        return res
    res = explore_schedules([MatchScenario(n, 2) for n in SCENARIOS], 2, jobs)
    res.merge(explore_schedules([MatchScenario("S-REQ-1C", 3), MatchScenario("S-REQ-1N", 3)], 3, jobs, cap=400000))
    return res


def replay(case, scenario, seed):
    return replay_schedule(MatchScenario(case["scenario"], 9), case["choices"])
