"""C07 - observe client: notifications in freshness order, termination signalled once.

E1 over notification sequences (Observe deltas around 0, +-1, +-2 and 2^23, inter-arrival times around 128 s, CON/NON,
duplicates, terminating responses at every position, arrivals after the end, transport errors) delivered by a scripted
RFC 7641 notifier to the real client (both the plain Request path and the default BlockwiseRequest path).  The model is
RFC 7641 section 3.4 verbatim."""

import asyncio
import errno
import itertools

from .. import core, refcodec as rc
from ..core import Result, Violation
from ..refpeer import Notifier
from ..world import World

from aiocoap import Message, GET, error

PROP = "C07"
LEVEL = "model_checking"
RULE = ("E1: every sequence up to length L over items (delta-V in {-2^23-1,-2^23,-2^23+1,-2,-1,0,1,2,2^23-1,2^23,2^23+1} mod "
        "2^24, delta-t in {0,127.9,128,128.1} s, CON/NON), from first Observe values {5, 2^24-2}, for both request paths; plus "
        "terminators (2.05 without Observe, 4.04, ICMP error, first response without Observe) at every position with later "
        "arrivals; distinct = distinct (path, sequence); states = distinct (model state, delivered stream) pairs")
ASSUMPTIONS = [
    "the model reads arrival times from the same clock seam the library reads (no float drift between the two)",
    "each notification is processed before the next one arrives (the lossy iterator hand-over is stressed separately)",
    "a transport error before the first response: the class handed to the observation's errback is a don't-care",
]

CLI = ("2001:db8::c", 40000)
SRV = ("2001:db8::1", 5683)
M24 = 1 << 24
DV = (-(1 << 23) - 1, -(1 << 23), -(1 << 23) + 1, -2, -1, 0, 1, 2, (1 << 23) - 1, 1 << 23, (1 << 23) + 1)
DT = (0.0, 127.9, 128.0, 128.1)


def fresh(v1, t1, v2, t2):
    """RFC 7641 section 3.4"""
    return (v1 < v2 and v2 - v1 < (1 << 23)) or (v1 > v2 and v1 - v2 > (1 << 23)) or (t2 > t1 + 128)


def run_sequence(res, blockwise, v0, items, seedchar=b"n"):
    """items: ("n", dv, dt, con) notification | ("dup",) repeat the previous datagram | ("fin", code) response without
    Observe | ("icmp",) transport error | first-response variant given through v0 = None (no Observe)."""
    w = World()
    try:
        cli = w.add_context("cli", *CLI)
        srv = w.add_peer(Notifier("srv", *SRV))
        m = Message(code=GET, uri_path=["obs"], observe=0)
        m.remote = cli.remote(SRV)
        req = cli.ctx.request(m, handle_blockwise=blockwise)
        cbs, ebs, its, itend = [], [], [], []
        req.observation.register_callback(lambda r: cbs.append(bytes(r.payload)))
        req.observation.register_errback(lambda e: ebs.append(e))

        async def consume():
            try:
                async for r in req.observation:
                    its.append(bytes(r.payload))
                itend.append("end")
            except Exception as e:
                itend.append(e)
        task = w.loop.create_task(consume())
        w.loop.settle()
        case = {"blockwise": blockwise, "v0": v0, "items": [list(i) for i in items]}
        res.evaluations += 1
        res.traces += 1

        def pump():
            while w.pool:
                w.deliver(w.pool[0])
        pump()
        if srv.reg is None:
            res.violate(Violation("no-registration", "a GET with Observe 0 on the wire", [repr(d) for d in w.sent], "protocol.py", case, key="noreg"))
            return
        # model state
        alive = True
        exp_cb = []
        exp_end = None       # None | "notobservable" | "cancelled" | "network"
        first_icmp = items and items[0][0] == "icmp0"
        if first_icmp:
            cli.receive_error(SRV, errno.ECONNREFUSED)
            w.loop.settle()
            alive = False
            exp_end = "any"
            items = items[1:]
        else:
            srv.first_response(v0, b"first")
            pump()
            if v0 is None:
                alive = False
                exp_end = "notobservable"
        v1, t1 = v0, w.clock.time()
        vsent = v0 if v0 is not None else 0
        last_dg = None
        n = 0
        for it in items:
            n += 1
            nacks, nrsts = len(srv.acks), len(srv.rsts)
            con = False
            if it[0] == "n":
                _, dv, dt, con = it
                if dt:
                    w.loop.advance(dt)
                vsent = (vsent + dv) % M24
                pl = b"n%d" % n
                mid = srv.notify(vsent, pl, con=con)
                last_dg = w.pool[-1]
                t2 = w.clock.time()
                if alive and fresh(v1, t1, vsent, t2):
                    exp_cb.append(pl)
                    v1, t1 = vsent, t2
                pump()
            elif it[0] == "dup":
                if last_dg is None:
                    continue
                con = (last_dg.data[0] >> 4) & 3 == rc.CON
                mid = (last_dg.data[2] << 8) | last_dg.data[3]
                w.inject(SRV, CLI, last_dg.data)
                # a duplicate carries the same Observe value: never fresh unless the clock moved on (it did not)
                pump()
            elif it[0] == "fin":
                pl = b"fin%d" % n
                con = it[2] if len(it) > 2 else True
                mid = srv.notify(None, pl, con=con, code=it[1])
                last_dg = w.pool[-1]
                if alive:
                    exp_cb.append(pl)
                    exp_end = "cancelled"
                was_alive = alive
                pump()
                self_alive = alive
                alive = False
                if con:
                    want_ack = was_alive
                    got_ack, got_rst = len(srv.acks) - nacks, len(srv.rsts) - nrsts
                    if (got_ack, got_rst) != ((1, 0) if want_ack else (0, 1)):
                        res.violate(Violation("reaction-to-notification", "ACK while observing, RST after the end",
                                              {"acks": got_ack, "rsts": got_rst, "alive": was_alive}, "tokenmanager.py:process_response", case,
                                              key="fin-%s" % ("alive" if was_alive else "ended")))
                continue
            elif it[0] == "icmp":
                cli.receive_error(SRV, errno.ECONNREFUSED)
                w.loop.settle()
                if alive:
                    exp_end = "network"
                alive = False
                continue
            if con:
                got_ack, got_rst = len(srv.acks) - nacks, len(srv.rsts) - nrsts
                if (got_ack, got_rst) != ((1, 0) if alive else (0, 1)):
                    res.violate(Violation("reaction-to-notification", "ACK while observing, RST after the end",
                                          {"acks": got_ack, "rsts": got_rst, "alive": alive}, "tokenmanager.py:process_response", case,
                                          key="n-%s" % ("alive" if alive else "ended")))
        w.loop.settle()
        # ---- compare
        if cbs != exp_cb:
            res.violate(Violation("delivered-stream", [x.decode() for x in exp_cb], [x.decode() for x in cbs], "protocol.py:Request._run", case,
                                  key="%s-%s" % ("bw" if blockwise else "plain", "more" if len(cbs) > len(exp_cb) else "fewer" if len(cbs) < len(exp_cb) else "other")))
        # iterator: a subsequence of the callback stream ending with its last element
        it_ok = all(x in cbs for x in its)
        pos = -1
        for x in its:
            try:
                pos = cbs.index(x, pos + 1)
            except ValueError:
                it_ok = False
                break
        if its and cbs and its[-1] != cbs[-1]:
            it_ok = False
        if cbs and not its:
            it_ok = False
        if not it_ok:
            res.violate(Violation("iterator-stream", "subsequence of the delivered stream ending with its last element",
                                  {"iterator": [x.decode() for x in its], "callbacks": [x.decode() for x in cbs]},
                                  "protocol.py:ClientObservation._Iterator", case, key="iter"))
        kinds = []
        for e in ebs:
            kinds.append("notobservable" if isinstance(e, error.NotObservable) else "cancelled" if isinstance(e, error.ObservationCancelled)
                         else "network" if isinstance(e, error.NetworkError) else type(e).__name__)
        want = [] if exp_end is None else [exp_end]
        if exp_end == "any":
            okend = len(kinds) == 1
        else:
            okend = kinds == want
        if not okend:
            res.violate(Violation("termination-signal", want, kinds, "protocol.py:Request._run", case,
                                  key="%s-%s-got-%s" % ("bw" if blockwise else "plain", exp_end, "+".join(kinds) or "none")))
        # the iterator ends when (and only when) the observation ended
        if exp_end is not None and not itend:
            res.violate(Violation("iterator-never-ends", "async for terminates after the end of the observation", "still waiting",
                                  "protocol.py:ClientObservation._Iterator", case, key="iter-hang"))
        if exp_end is None and itend:
            res.violate(Violation("iterator-ended-early", "still iterating", repr(itend), "protocol.py:ClientObservation._Iterator", case, key="iter-early"))
        if exp_end == "network" and itend and not isinstance(itend[0], error.NetworkError):
            res.violate(Violation("iterator-end-kind", "NetworkError", repr(itend[0]), "protocol.py", case, key="iter-kind"))
        if not first_icmp:
            f = req.response
            if not (f.done() and f.exception() is None and bytes(f.result().payload) == b"first"):
                res.violate(Violation("first-response", "first", repr(f), "protocol.py", case, key="first"))
        task.cancel()
        w.loop.settle()
        for msg, e in w.loop_exceptions():
            if e is None and "never retrieved" in msg:
                continue
            res.violate(Violation("loop-exception", "none", core.exc_desc(e) if e else msg, core.site_of(e) if e else "loop", case,
                                  key=type(e).__name__ if e else msg[:40]))
        res.states.add(core.digest((v1, round(t1, 3), alive, tuple(cbs), tuple(kinds))))
        res.transitions += len(items) + 1
        res.outcomes.add(core.digest((len(cbs), tuple(kinds), len(its))))
        res.signatures.add(core.digest((blockwise, v0, items)))
    finally:
        w.dispose()


def alphabet(tier, full):
    if full:
        return [("n", dv, dt, con) for dv in DV for dt in DT for con in (True, False)]
    return [("n", dv, dt, True) for dv in DV for dt in (0.0, 128.0, 128.1)]


def job(arg):
    kind, first, tier = arg
    res = Result()
    if kind == "seq":
        A = alphabet(tier, False)
        L = 3
        for v0 in (5, M24 - 2):
            for bw in (False, True):
                for n in range(0, L):
                    if bw and n == L - 1 and tier == "quick":
                        continue
                    for rest in itertools.product(A, repeat=n):
                        run_sequence(res, bw, v0, (first,) + rest)
        res.sample({"v0": 5, "items(kind,dV,dt,CON)": [list(first), list(A[7]), list(A[2])]})
    elif kind == "seq4":
        A = [a for a in alphabet(tier, False) if a[2] != 128.0]
        for rest in itertools.product(A, repeat=3):
            run_sequence(res, False, 5, (first,) + rest)
    elif kind == "pairs-full":
        A = alphabet(tier, True)
        for b in A:
            for v0 in (0, M24 - 2):
                run_sequence(res, False, v0, (first, b))
                run_sequence(res, True, v0, (first, b, ("dup",)))
    elif kind == "term":
        small = [("n", 1, 0.0, True), ("n", -1, 0.0, False), ("n", 0, 128.1, True), ("n", 1 << 23, 0.0, True), ("n", 2, 127.9, False)]
        terms = [("fin", 69, True), ("fin", 132, True), ("fin", 132, False), ("icmp",)]
        for bw in (False, True):
            for n_before in range(0, 3):
                for before in itertools.product(small, repeat=n_before):
                    for t in terms:
                        for n_after in range(0, 3):
                            for after in itertools.product(small[:3] + [("dup",), ("fin", 69, True)], repeat=n_after):
                                run_sequence(res, bw, 5, before + (t,) + after)
            # first response without Observe, then arrivals on the retired token
            for after in itertools.chain([()], [(a,) for a in small], itertools.product(small[:3], repeat=2)):
                run_sequence(res, bw, None, after)
            # duplicates interleaved
            for a in small:
                for b in small:
                    run_sequence(res, bw, 5, (a, ("dup",), b, ("dup",)))
            # transport error before the first response
            run_sequence(res, bw, 5, (("icmp0",),))
            run_sequence(res, bw, 5, (("icmp0",), small[0]))
        res.sample({"v0": 5, "items": [list(small[0]), ["fin", 132, True], list(small[1])]})
    return res


def run(tier, seed, jobs):
    work = [("seq", a, tier) for a in alphabet(tier, False)]
    work += [("pairs-full", a, tier) for a in alphabet(tier, True)]
    work.append(("term", None, tier))
    if tier == "thorough":
        work += [("seq4", a, tier) for a in alphabet(tier, False) if a[2] != 128.0]
    res = core.prun(job, work, jobs)
    res.scenarios["alphabet"] = {"items_quick": len(alphabet(tier, False)), "items_full": len(alphabet(tier, True))}
    return res


def replay(case, scenario, seed):
    res = Result()
    items = tuple(tuple(i) for i in case["items"])
    run_sequence(res, case["blockwise"], case["v0"], items)
    return [v for v, n in res.violations.values()]
