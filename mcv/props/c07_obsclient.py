"""C07 - observe client: notifications in freshness order, termination signalled once.

E1 over notification sequences (Observe deltas around 0, +-1, +-2 and 2^23, inter-arrival times around 128 s, CON/NON,
duplicates, terminating responses at every position, arrivals after the end, transport errors) delivered by a scripted
RFC 7641 notifier to the real client (both the plain Request path and the default BlockwiseRequest path).  The model is
RFC 7641 section 3.4 verbatim."""

import asyncio
import errno
import itertools

from .. import core, refcodec as rc
from ..core import Result, Violation
from ..refpeer import Notifier
from ..world import World

from aiocoap import Message, GET, error

PROP = "C07"
LEVEL = "model_checking"
RULE = ("E1: every sequence up to length L over items (delta-V in {-2^23-1,-2^23,-2^23+1,-2,-1,0,1,2,2^23-1,2^23,2^23+1} mod "
        "2^24, delta-t in {0,127.9,128,128.1} s, CON/NON), from first Observe values {5, 2^24-2}, for both request paths; plus "
        "same-message-ID copies after a pause, terminators (2.05 without Observe, 4.04, ICMP error, first response without Observe) at every position with later "
        "arrivals; requests whose transport tuning is given as a class (Reliable/Unreliable); distinct = distinct (path, sequence); states = distinct (model state, delivered stream) pairs")
ASSUMPTIONS = [
    "the model reads arrival times from the same clock seam the library reads (no float drift between the two)",
    "each notification is processed before the next one arrives (the lossy iterator hand-over is stressed separately)",
    "a transport error before the first response: the class handed to the observation's errback is a don't-care",
]

CLI = ("2001:db8::c", 40000)
SRV = ("2001:db8::1", 5683)
M24 = 1 << 24
DV = (-(1 << 23) - 1, -(1 << 23), -(1 << 23) + 1, -2, -1, 0, 1, 2, (1 << 23) - 1, 1 << 23, (1 << 23) + 1)
DT = (0.0, 127.9, 128.0, 128.1)


def fresh(v1, t1, v2, t2):
    """RFC 7641 section 3.4"""
    return (v1 < v2 and v2 - v1 < (1 << 23)) or (v1 > v2 and v1 - v2 > (1 << 23)) or (t2 > t1 + 128)


def run_sequence(res, blockwise, v0, items, seedchar=b"n", first_delay=0.0, tuning=None):
    """items: ("n", dv, dt, con) notification | ("dup",) repeat the previous datagram | ("fin", code) response without
    Observe | ("icmp",) transport error | first-response variant given through v0 = None (no Observe)."""
    w = World()
    try:
        cli = w.add_context("cli", *CLI)
        srv = w.add_peer(Notifier("srv", *SRV))
        m = Message(code=GET, uri_path=["obs"], observe=0)
        if tuning is not None:
            # the tuning handed over as a class (what the library's own advice for choosing CON/NON amounts to), not an instance
            import aiocoap
            m.transport_tuning = {"Reliable": aiocoap.Reliable, "Unreliable": aiocoap.Unreliable}[tuning]
        m.remote = cli.remote(SRV)
        req = cli.ctx.request(m, handle_blockwise=blockwise)
        cbs, ebs, its, itend = [], [], [], []
        req.observation.register_callback(lambda r: cbs.append(bytes(r.payload)))
        req.observation.register_errback(lambda e: ebs.append(e))

        async def consume():
            try:
                async for r in req.observation:
                    its.append(bytes(r.payload))
                itend.append("end")
            except Exception as e:
                itend.append(e)
        task = w.loop.create_task(consume())
        w.loop.settle()
        case = {"blockwise": blockwise, "v0": v0, "items": [list(i) for i in items], "first_delay": first_delay, "tuning": tuning}
        res.evaluations += 1
        res.traces += 1

        def pump():
            while w.pool:
                w.deliver(w.pool[0])
        pump()
        if srv.reg is None:
            res.violate(Violation("no-registration", "a GET with Observe 0 on the wire", [repr(d) for d in w.sent], "protocol.py", case, key="noreg"))
            return
        # model state
        alive = True
        exp_cb = []
        exp_end = None       # None | "notobservable" | "cancelled" | "network"
        first_icmp = items and items[0][0] == "icmp0"
        if first_icmp:
            cli.receive_error(SRV, errno.ECONNREFUSED)
            w.loop.settle()
            alive = False
            exp_end = "any"
            items = items[1:]
        else:
            if first_delay:
                # the server acknowledges the registration at once and answers it only first_delay seconds later
                src, token, rmid, rcon = srv.reg
                srv.send(src, (rc.ACK, 0, rmid, b"", [], b""))
                pump()
                w.loop.advance(first_delay)
                srv.notify(v0, b"first", con=False)
            else:
                srv.first_response(v0, b"first")
            pump()
            if v0 is None:
                alive = False
                exp_end = "notobservable"
        v1, t1 = v0, w.clock.time()
        vsent = v0 if v0 is not None else 0
        last_dg = None
        last_pl, last_fin = None, False
        n = 0
        for it in items:
            n += 1
            nacks, nrsts = len(srv.acks), len(srv.rsts)
            con = False
            if it[0] == "n":
                _, dv, dt, con = it
                if dt:
                    w.loop.advance(dt)
                vsent = (vsent + dv) % M24
                pl = b"n%d" % n
                mid = srv.notify(vsent, pl, con=con)
                last_dg = w.pool[-1]
                last_pl, last_fin = pl, False
                t2 = w.clock.time()
                if alive and fresh(v1, t1, vsent, t2):
                    exp_cb.append(pl)
                    v1, t1 = vsent, t2
                pump()
            elif it[0] == "dup":
                if last_dg is None:
                    continue
                con = (last_dg.data[0] >> 4) & 3 == rc.CON
                mid = (last_dg.data[2] << 8) | last_dg.data[3]
                if len(it) > 1 and it[1]:
                    w.loop.advance(it[1])       # the copy (same bytes, same message ID) arrives that much later
                t2 = w.clock.time()
                # a duplicate carries the same Observe value: fresh only if the clock has moved on by more than 128 s since the
                # last accepted notification - then it is the freshest arrival and has to be handed over
                if alive and not last_fin and fresh(v1, t1, vsent, t2):
                    exp_cb.append(last_pl)
                    v1, t1 = vsent, t2
                w.inject(SRV, CLI, last_dg.data)
                pump()
            elif it[0] == "fin":
                pl = b"fin%d" % n
                con = it[2] if len(it) > 2 else True
                mid = srv.notify(None, pl, con=con, code=it[1])
                last_dg = w.pool[-1]
                last_pl, last_fin = pl, True
                if alive:
                    exp_cb.append(pl)
                    exp_end = "cancelled"
                was_alive = alive
                pump()
                self_alive = alive
                alive = False
                if con:
                    want_ack = was_alive
                    got_ack, got_rst = len(srv.acks) - nacks, len(srv.rsts) - nrsts
                    if (got_ack, got_rst) != ((1, 0) if want_ack else (0, 1)):
                        res.violate(Violation("reaction-to-notification", "ACK while observing, RST after the end",
                                              {"acks": got_ack, "rsts": got_rst, "alive": was_alive}, "tokenmanager.py:process_response", case,
                                              key="fin-%s" % ("alive" if was_alive else "ended")))
                continue
            elif it[0] == "icmp":
                cli.receive_error(SRV, errno.ECONNREFUSED)
                w.loop.settle()
                if alive:
                    exp_end = "network"
                alive = False
                continue
            if con:
                got_ack, got_rst = len(srv.acks) - nacks, len(srv.rsts) - nrsts
                if (got_ack, got_rst) != ((1, 0) if alive else (0, 1)):
                    res.violate(Violation("reaction-to-notification", "ACK while observing, RST after the end",
                                          {"acks": got_ack, "rsts": got_rst, "alive": alive}, "tokenmanager.py:process_response", case,
                                          key="n-%s" % ("alive" if alive else "ended")))
        w.loop.settle()
        # ---- compare
        if cbs != exp_cb:
            res.violate(Violation("delivered-stream", [x.decode() for x in exp_cb], [x.decode() for x in cbs], "protocol.py:Request._run", case,
                                  key="%s-%s" % ("bw" if blockwise else "plain", "more" if len(cbs) > len(exp_cb) else "fewer" if len(cbs) < len(exp_cb) else "other")))
        # iterator: a subsequence of the callback stream ending with its last element
        it_ok = all(x in cbs for x in its)
        pos = -1
        for x in its:
            try:
                pos = cbs.index(x, pos + 1)
            except ValueError:
                it_ok = False
                break
        if its and cbs and its[-1] != cbs[-1]:
            it_ok = False
        if cbs and not its:
            it_ok = False
        if not it_ok:
            res.violate(Violation("iterator-stream", "subsequence of the delivered stream ending with its last element",
                                  {"iterator": [x.decode() for x in its], "callbacks": [x.decode() for x in cbs]},
                                  "protocol.py:ClientObservation._Iterator", case, key="iter"))
        kinds = []
        for e in ebs:
            kinds.append("notobservable" if isinstance(e, error.NotObservable) else "cancelled" if isinstance(e, error.ObservationCancelled)
                         else "network" if isinstance(e, error.NetworkError) else type(e).__name__)
        want = [] if exp_end is None else [exp_end]
        if exp_end == "any":
            okend = len(kinds) == 1
        else:
            okend = kinds == want
        if not okend:
            res.violate(Violation("termination-signal", want, kinds, "protocol.py:Request._run", case,
                                  key="%s-%s-got-%s" % ("bw" if blockwise else "plain", exp_end, "+".join(kinds) or "none")))
        # the iterator ends when (and only when) the observation ended
        if exp_end is not None and not itend:
            res.violate(Violation("iterator-never-ends", "async for terminates after the end of the observation", "still waiting",
                                  "protocol.py:ClientObservation._Iterator", case, key="iter-hang"))
        if exp_end is None and itend:
            res.violate(Violation("iterator-ended-early", "still iterating", repr(itend), "protocol.py:ClientObservation._Iterator", case, key="iter-early"))
        if exp_end == "network" and itend and not isinstance(itend[0], error.NetworkError):
            res.violate(Violation("iterator-end-kind", "NetworkError", repr(itend[0]), "protocol.py", case, key="iter-kind"))
        if not first_icmp:
            f = req.response
            if not (f.done() and f.exception() is None and bytes(f.result().payload) == b"first"):
                res.violate(Violation("first-response", "first", repr(f), "protocol.py", case, key="first"))
        task.cancel()
        w.loop.settle()
        for msg, e in w.loop_exceptions():
            if e is None and "never retrieved" in msg:
                continue
            res.violate(Violation("loop-exception", "none", core.exc_desc(e) if e else msg, core.site_of(e) if e else "loop", case,
                                  key=type(e).__name__ if e else msg[:40]))
        res.states.add(core.digest((v1, round(t1, 3), alive, tuple(cbs), tuple(kinds))))
        res.transitions += len(items) + 1
        res.outcomes.add(core.digest((len(cbs), tuple(kinds), len(its))))
        res.signatures.add(core.digest((blockwise, v0, items)))
    finally:
        w.dispose()


def two_observations(res, blockwise, third_request):
    """A transport error reported for the server ends *every* observation towards it, each exactly once."""
    w = World()
    try:
        cli = w.add_context("cli", *CLI)
        srv = w.add_peer(Notifier("srv", *SRV))
        obs = []
        for i in range(2):
            m = Message(code=GET, uri_path=["obs%d" % i], observe=0)
            m.remote = cli.remote(SRV)
            r = cli.ctx.request(m, handle_blockwise=blockwise)
            ebs, cbs = [], []
            r.observation.register_errback(lambda e, ebs=ebs: ebs.append(e))
            r.observation.register_callback(lambda x, cbs=cbs: cbs.append(bytes(x.payload)))
            obs.append((r, ebs, cbs))
        w.loop.settle()
        answered = set()
        for _ in range(6):     # the second registration waits for the first one's ACK (NSTART)
            while w.pool:
                w.deliver(w.pool[0])
            for (src, msg) in list(srv.requests):
                if msg[2] not in answered:
                    answered.add(msg[2])
                    srv.send(src, (rc.ACK, 69, msg[2], msg[3], [(6, b"\x01")], b"first"))
        while w.pool:
            w.deliver(w.pool[0])
        if third_request:
            m = Message(code=GET, uri_path=["plain"])
            m.remote = cli.remote(SRV)
            extra = cli.ctx.request(m, handle_blockwise=False)
            w.loop.settle()
            w.pool.clear()
        cli.receive_error(SRV, errno.ECONNREFUSED)
        w.loop.settle()
        case = {"family": "two-observations", "blockwise": blockwise, "third": third_request}
        res.evaluations += 1
        res.traces += 1
        for i, (r, ebs, cbs) in enumerate(obs):
            if len(ebs) != 1 or not isinstance(ebs[0], error.NetworkError):
                res.violate(Violation("termination-signal", ["network"], [type(e).__name__ for e in ebs], "tokenmanager.py:dispatch_error", case,
                                      key="two-obs-%d-%s" % (i, "none" if not ebs else "other")))
        # later notifications on the retired tokens are rejected like unknown responses
        n_rst = len(srv.rsts)
        for (src, msg) in list(srv.requests)[:2]:
            srv.send(src, (rc.CON, 69, srv.mid(), msg[3], [(6, b"\x02")], b"late"))
        while w.pool:
            w.deliver(w.pool[0])
        if len(srv.rsts) - n_rst != 2 or any(b"late" in cbs for (_, _, cbs) in obs):
            res.violate(Violation("notification-after-end", "RST for each, nothing delivered", {"rsts": len(srv.rsts) - n_rst},
                                  "tokenmanager.py:process_response", case, key="two-obs-late"))
        res.outcomes.add(("two-obs", blockwise, third_request))
        res.signatures.add(("two-obs", blockwise, third_request))
        res.states.add(core.digest(("two-obs", blockwise, third_request)))
        res.transitions += 4
    finally:
        w.dispose()


def alphabet(tier, full):
    if full:
        return [("n", dv, dt, con) for dv in DV for dt in DT for con in (True, False)]
    return [("n", dv, dt, True) for dv in DV for dt in (0.0, 128.0, 128.1)]


def busy_consumer(res, blockwise, n_parked, ending):
    """The application consumes through `async for` and is busy in the loop body while things arrive: one notification it is
    working on, n_parked fresher ones that arrive meanwhile (only the freshest has to survive), then the end of the observation
    (a transport error / a 4.04 / a 2.05 without Observe).  When the application comes back it gets the freshest notification
    first and the end after it."""
    w = World()
    try:
        cli = w.add_context("cli", *CLI)
        srv = w.add_peer(Notifier("srv", *SRV))
        m = Message(code=GET, uri_path=["obs"], observe=0)
        m.remote = cli.remote(SRV)
        req = cli.ctx.request(m, handle_blockwise=blockwise)
        its, itend = [], []
        gate = asyncio.Event()

        async def consume():
            try:
                async for r in req.observation:
                    its.append(bytes(r.payload))
                    if len(its) == 1:
                        await gate.wait()        # busy with the first one
                itend.append("end")
            except Exception as e:
                itend.append(e)
        w.loop.create_task(consume())
        w.loop.settle()

        def pump():
            while w.pool:
                w.deliver(w.pool[0])
        pump()
        case = {"busy_consumer": [blockwise, n_parked, ending]}
        res.evaluations += 1
        res.traces += 1
        srv.first_response(5, b"first")
        pump()
        v = 5
        sent = []
        for k in range(1 + n_parked):
            v += 1
            pl = b"n%d" % (k + 1)
            srv.notify(v, pl, con=False)
            sent.append(pl)
            pump()
        want_last = sent[-1]
        if ending == "icmp":
            cli.receive_error(SRV, errno.ECONNREFUSED)
        elif ending == "404":
            srv.notify(None, b"gone", con=False, code=132)
            want_last = b"gone"          # the response that ends the observation is itself handed over, as the last item
        else:
            srv.notify(None, b"final", con=False, code=69)
            want_last = b"final"
        pump()
        w.loop.settle()
        gate.set()
        w.loop.settle()
        ok_stream = its[:1] == sent[:1] and its[-1:] == [want_last] and all(x in sent + [b"final", b"gone"] for x in its) and its == sorted(its, key=lambda x: (sent + [b"final", b"gone"]).index(x))
        if ending == "icmp":
            ok_end = len(itend) == 1 and isinstance(itend[0], error.Error)
        else:
            ok_end = len(itend) == 1 and (itend[0] == "end" or isinstance(itend[0], error.Error))
        if not ok_stream:
            res.violate(Violation("delivered-stream", {"first": sent[:1], "last": want_last}, its, "protocol.py:ClientObservation._Iterator", case, trace=w.trace[-20:],
                                  key="busy:%s" % ending))
        if not ok_end:
            res.violate(Violation("termination-signal", "the iteration ends (with a library error for a transport error)", [repr(x) for x in itend],
                                  "protocol.py:ClientObservation._Iterator", case, key="busy-end:%s" % ending))
        for msg, e in w.loop_exceptions():
            res.violate(Violation("loop-exception", "none", core.exc_desc(e) if e else msg, core.site_of(e) if e else "loop", case,
                                  key=type(e).__name__ if e else msg[:40]))
        res.signatures.add(core.digest(("busy", blockwise, n_parked, ending)))
        res.states.add(core.digest(("busy", blockwise, n_parked, ending, its)))
        res.outcomes.add(core.digest(("busy", len(its))))
        res.transitions += 2 + n_parked
    finally:
        w.dispose()


def resumed_consumer(res, blockwise, n_between, ending):
    """The application waits for the next notification with a time-out of its own (asyncio.wait_for around __anext__), the wait times
    out once, n notifications arrive before it comes back to the same iterator, then it goes on: it gets the freshest one and
    everything after it, and the end of the observation."""
    w = World()
    try:
        cli = w.add_context("cli", *CLI)
        srv = w.add_peer(Notifier("srv", *SRV))
        m = Message(code=GET, uri_path=["obs"], observe=0)
        m.remote = cli.remote(SRV)
        req = cli.ctx.request(m, handle_blockwise=blockwise)
        its, itend, timeouts = [], [], []
        resume = asyncio.Event()

        async def consume():
            it = req.observation.__aiter__()
            try:
                try:
                    its.append(bytes((await asyncio.wait_for(it.__anext__(), 1.0)).payload))
                except asyncio.TimeoutError:
                    timeouts.append(w.loop.time())
                    await resume.wait()
                while True:
                    its.append(bytes((await it.__anext__()).payload))
            except StopAsyncIteration:
                itend.append("end")
            except BaseException as e:
                itend.append(e)
        w.loop.create_task(consume())
        w.loop.settle()

        def pump():
            while w.pool:
                w.deliver(w.pool[0])
        pump()
        srv.first_response(5, b"first")
        pump()
        w.loop.advance(1.5)            # the application's own time-out strikes: its wait is cancelled
        case = {"resumed_consumer": [blockwise, n_between, ending]}
        res.evaluations += 1
        res.traces += 1
        v, sent = 5, []
        for k in range(n_between):
            v += 1
            sent.append(b"n%d" % (k + 1))
            srv.notify(v, sent[-1], con=False)
            pump()
        resume.set()
        w.loop.settle()
        v += 1
        sent.append(b"after")
        srv.notify(v, b"after", con=False)
        pump()
        if ending == "icmp":
            cli.receive_error(SRV, errno.ECONNREFUSED)
            last = None
        else:
            srv.notify(None, b"final", con=False, code=69)
            last = b"final"
        pump()
        w.loop.settle()
        want_tail = [b"after"] + ([last] if last else [])
        pre = its[:len(its) - len(want_tail)]
        ok_stream = len(timeouts) == 1 and its[-len(want_tail):] == want_tail and (n_between == 0 or pre[-1:] == sent[n_between - 1:n_between]) \
            and all(x in sent for x in pre) and pre == sorted(pre, key=sent.index)
        ok_end = len(itend) == 1 and (itend[0] == "end" or isinstance(itend[0], error.Error)) and (ending != "icmp" or isinstance(itend[0], error.Error))
        if not ok_stream:
            res.violate(Violation("delivered-stream", {"freshest before resuming": sent[n_between - 1:n_between], "then": want_tail}, its,
                                  "protocol.py:ClientObservation._Iterator", case, trace=w.trace[-20:], key="resumed:%s" % ending))
        if not ok_end:
            res.violate(Violation("termination-signal", "the iteration ends (with a library error for a transport error)", [repr(x) for x in itend],
                                  "protocol.py:ClientObservation._Iterator", case, key="resumed-end:%s" % ending))
        for msg, e in w.loop_exceptions():
            res.violate(Violation("loop-exception", "none", core.exc_desc(e) if e else msg, core.site_of(e) if e else "loop", case,
                                  key=type(e).__name__ if e else msg[:40]))
        res.signatures.add(core.digest(("resumed", blockwise, n_between, ending)))
        res.states.add(core.digest(("resumed", blockwise, n_between, ending, its)))
        res.outcomes.add(core.digest(("resumed", len(its))))
        res.transitions += 3 + n_between
    finally:
        w.dispose()


def job(arg):
    kind, first, tier = arg
    res = Result()
    if kind == "seq":
        A = alphabet(tier, False)
        L = 3
        for v0 in (5, M24 - 2):
            for bw in (False, True):
                for n in range(0, L):
                    if (bw or v0 != 5) and n == L - 1 and tier == "quick":
                        continue
                    for rest in itertools.product(A, repeat=n):
                        run_sequence(res, bw, v0, (first,) + rest)
        res.sample({"v0": 5, "items(kind,dV,dt,CON)": [list(first), list(A[7]), list(A[2])]})
    elif kind == "seq4":
        A = [a for a in alphabet(tier, False) if a[2] != 128.0]
        for rest in itertools.product(A, repeat=3):
            run_sequence(res, False, 5, (first,) + rest)
    elif kind == "pairs-full":
        A = alphabet(tier, True)
        for b in A:
            for v0 in (0, M24 - 2):
                run_sequence(res, False, v0, (first, b))
                run_sequence(res, True, v0, (first, b, ("dup",)))
    elif kind == "term":
        small = [("n", 1, 0.0, True), ("n", -1, 0.0, False), ("n", 0, 128.1, True), ("n", 1 << 23, 0.0, True), ("n", 2, 127.9, False)]
        terms = [("fin", 69, True), ("fin", 132, True), ("fin", 132, False), ("icmp",)]
        for bw in (False, True):
            for n_before in range(0, 3):
                for before in itertools.product(small, repeat=n_before):
                    for t in terms:
                        for n_after in range(0, 3):
                            for after in itertools.product(small[:3] + [("dup",), ("fin", 69, True)], repeat=n_after):
                                run_sequence(res, bw, 5, before + (t,) + after)
            # first response without Observe, then arrivals on the retired token
            for after in itertools.chain([()], [(a,) for a in small], itertools.product(small[:3], repeat=2)):
                run_sequence(res, bw, None, after)
            # duplicates interleaved
            for a in small:
                for b in small:
                    run_sequence(res, bw, 5, (a, ("dup",), b, ("dup",)))
            # the same datagram (same message ID) again after a pause: stale the first time, fresh by the clock the second time;
            # and copies of the last notification / of the terminating response after the end
            for a in small + [("n", -2, 0.0, True), ("n", 0, 0.0, True)]:
                for gap in (127.9, 128.1, 200.0):
                    run_sequence(res, bw, 5, (a, ("dup", gap)))
                    run_sequence(res, bw, 5, (("n", 1, 0.0, True), a, ("dup", gap), ("n", 1, 0.0, False)))
                for t in terms[:3]:
                    run_sequence(res, bw, 5, (a, t, ("dup",), ("dup", 128.1)))
            # the request's tuning given as a class: everything that reads a tuning parameter (freshness by the clock is read only
            # for arrivals that are not newer by their number) has to cope
            for tn in ("Reliable", "Unreliable"):
                for a in small + [("n", 0, 0.0, True)]:
                    for b in small[:3] + [("dup",), ("dup", 128.1), ("fin", 69, True)]:
                        run_sequence(res, bw, 5, (a, b, small[0]), tuning=tn)
            for n_parked in (0, 1, 2, 3):
                for ending in ("icmp", "404", "205"):
                    busy_consumer(res, bw, n_parked, ending)
            for n_between in (0, 1, 2):
                for ending in ("icmp", "205"):
                    resumed_consumer(res, bw, n_between, ending)
            # transport error before the first response
            run_sequence(res, bw, 5, (("icmp0",),))
            run_sequence(res, bw, 5, (("icmp0",), small[0]))
            two_observations(res, bw, False)
            two_observations(res, bw, True)
            # the first response arrives late (separate response 100 s after the registration): freshness is measured from
            # its arrival, not from the time the request was made
            late = [("n", dv, dt, True) for dv in (-1, 0, 1) for dt in (0.0, 27.9, 28.1, 127.9, 128.1)]
            for n in range(1, 3):
                for seq in itertools.product(late, repeat=n):
                    run_sequence(res, bw, 5, seq, first_delay=100.0)
        res.sample({"v0": 5, "items": [list(small[0]), ["fin", 132, True], list(small[1])]})
    return res


def run(tier, seed, jobs):
    work = [("seq", a, tier) for a in alphabet(tier, False)]
    work += [("pairs-full", a, tier) for a in alphabet(tier, True)]
    work.append(("term", None, tier))
    if tier == "thorough":
        work += [("seq4", a, tier) for a in alphabet(tier, False) if a[2] != 128.0]
    res = core.prun(job, work, jobs)
    res.scenarios["alphabet"] = {"items_quick": len(alphabet(tier, False)), "items_full": len(alphabet(tier, True))}
    return res


def replay(case, scenario, seed):
    res = Result()
    if "resumed_consumer" in case:
        resumed_consumer(res, *case["resumed_consumer"])
        return [v for v, n in res.violations.values()]
    if "busy_consumer" in case:
        busy_consumer(res, *case["busy_consumer"])
        return [v for v, n in res.violations.values()]
    items = tuple(tuple(i) for i in case["items"])
    run_sequence(res, case["blockwise"], case["v0"], items, first_delay=case.get("first_delay", 0.0), tuning=case.get("tuning"))
    return [v for v, n in res.violations.values()]


# ------------------------------------------------------------------------------------------ Block2 notifications (E2)
# Notifications whose body needs a block-wise fetch: further notifications and the terminating response can arrive while
# the previous body is still being fetched (the lossy hand-over between Request and BlockwiseRequest).

from ..explore import explore_schedules, replay_schedule
from ..netscn import NetScenario


def big_body(v, n=40):
    return bytes(((v * 37 + i * 3) & 0xFF) for i in range(n))


class BigNotifier(Notifier):
    """Serves a 40-byte representation in 16-byte blocks; notifications carry block 0 (M=1) and an ETag naming the version."""

    def __init__(self, name, ip, port=5683):
        super().__init__(name, ip, port)
        self.v = 1
        self.fetches = []

    def on_message(self, src, msg, dg):
        mtype, code, mid, token, options, payload = msg
        b2 = rc.opt(options, 23)
        if 1 <= code < 32 and b2 is not None and rc.unblock(b2)[0] > 0:
            num, _, szx = rc.unblock(b2)
            body = big_body(self.v)
            size = 1 << (szx + 4)
            chunk = body[num * size:(num + 1) * size]
            more = (num + 1) * size < len(body)
            self.fetches.append((self.v, num))
            opts = rc.sorted_options([(4, bytes([self.v])), (23, rc.block(num, more, szx))])
            if mtype == rc.CON:
                self.send(src, (rc.ACK, 69, mid, token, opts, chunk))
            else:
                self.send(src, (rc.NON, 69, self.mid(), token, opts, chunk))
            return
        super().on_message(src, msg, dg)

    def big(self, v, first=False, con=False):
        self.v = v
        extra = [(4, bytes([v])), (23, rc.block(0, True, 0))]
        if first:
            return self.first_response(v, big_body(v)[:16], extra=extra)
        return self.notify(v, big_body(v)[:16], con=con, extra=extra)


class BigObsScenario(NetScenario):
    names = {CLI: "cli", SRV: "srv"}
    menu = ("early", "drop", "dup")
    horizon = 200.0
    max_steps = 120

    def __init__(self, name, K):
        self.name = name
        self.K = K
        self.params = {"scenario": name}

    def build(self, st):
        w = st.world = World()
        st.cli = w.add_context("cli", *CLI)
        st.srv = w.add_peer(BigNotifier("srv", *SRV))
        st.cbs, st.ebs = [], []
        st.arrived = []        # versions whose notification datagram reached the client

        def issue(st):
            m = Message(code=GET, uri_path=["obs"], observe=0)
            m.remote = st.cli.remote(SRV)
            st.req = st.cli.ctx.request(m)
            st.req.observation.register_callback(lambda r: st.cbs.append(bytes(r.payload)))
            st.req.observation.register_errback(lambda e: st.ebs.append(e))
        st.script.append(("observe", issue))
        st.script.append(("first v1", lambda st: st.srv.big(1, first=True)))
        st.script.append(("notify v2", lambda st: st.srv.big(2, con=True)))
        st.script.append(("notify v3", lambda st: st.srv.big(3, con=False)))
        if self.name == "S-OBS-B2-fin":
            st.script.append(("final 4.04", lambda st: st.srv.notify(None, b"gone", con=True, code=132)))

    def after_deliver(self, st, dg):
        if dg.dst == CLI and len(dg.data) > 4 and dg.data[1] == 69:
            m = rc.decode(dg.data, check_formats=False)
            ob = rc.opt(m[4], 6)
            if ob is not None and m[3] == (st.srv.reg[1] if st.srv.reg else None):
                st.arrived.append(int.from_bytes(ob, "big"))

    def finish(self, st):
        w = st.world
        full = {big_body(v): v for v in (1, 2, 3)}
        got = []
        for b in st.cbs:
            if b in full:
                got.append(full[b])
            elif b == b"gone":
                got.append("fin")
            else:
                st.violations.append(Violation("mixed-or-truncated-notification-body", "the complete body of one version",
                                               {"len": len(b), "first_bytes": b[:4].hex()}, "protocol.py:_complete_by_requesting_block2", {}, key="mixed"))
                got.append("?")
        vs = [g for g in got if isinstance(g, int)]
        if any(b <= a for a, b in zip(vs, vs[1:])):
            st.violations.append(Violation("delivery-order", "increasing versions", got, "protocol.py", {}, key="order"))
        kinds = ["notobservable" if isinstance(e, error.NotObservable) else "cancelled" if isinstance(e, error.ObservationCancelled)
                 else "network" if isinstance(e, error.NetworkError) else type(e).__name__ for e in st.ebs]
        fin = self.name == "S-OBS-B2-fin" and any(d.dst == CLI and d.data[1] == 132 for d in w.sent if d not in w.pool)
        fin_delivered = any(1 for line in w.trace if "deliver" in line and "4.04" in line)
        if len(kinds) > 1:
            st.violations.append(Violation("termination-signal", "at most one", kinds, "protocol.py", {}, key="twice"))
        first_failed = st.req.response.done() and st.req.response.exception() is not None
        # (the first response's own block-wise fetch failing on a representation change fails the request as C05 demands)
        if kinds and kinds[0] not in ("cancelled", "notobservable", "network") and not first_failed:
            st.violations.append(Violation("observation-ended-by-foreign-error", "ends only as not-observable / cancelled after the final response / network error",
                                           kinds, "protocol.py:BlockwiseRequest._run_observation", {}, key=kinds[0]))
        if not kinds and st.horizon_hit is False:
            # still observing: the freshest version that arrived must have been delivered
            fresh = max(st.arrived) if st.arrived else None
            # if the rest of that body was served from a newer representation whose own notification never arrived, the
            # body of the freshest notification that did arrive cannot be assembled any more: nothing to demand
            spoiled = fresh is not None and any(v > fresh for v, n in st.srv.fetches)
            if fresh is not None and fresh > 1 and (not vs or vs[-1] != fresh) and not fin_delivered and not spoiled:
                st.violations.append(Violation("freshest-notification-not-delivered", "v%d" % fresh, got, "protocol.py:BlockwiseRequest._run_observation", {}, key="fresh"))
        if kinds == ["cancelled"] and fin_delivered and "fin" not in got:
            st.violations.append(Violation("final-response-not-delivered", "final response, then the cancellation signal", got,
                                           "protocol.py:ClientObservation._Iterator", {}, key="final-lost"))
        if fin_delivered and not kinds:
            st.violations.append(Violation("termination-signal", ["cancelled"], kinds, "protocol.py", {}, key="none"))
        for msg, e in w.loop_exceptions():
            if e is None and "never retrieved" in msg:
                continue
            st.violations.append(Violation("loop-exception", "none", core.exc_desc(e) if e else msg, core.site_of(e) if e else "loop", {},
                                           key=type(e).__name__ if e else msg[:40]))
        st.summary = (tuple(got), tuple(kinds))

    def outcome(self, st):
        return getattr(st, "summary", None)


_plain_run = run


def run(tier, seed, jobs):   # noqa: F811  (extends the E1 part with the Block2 family)
    res = _plain_run(tier, seed, jobs)
    K = 1 if tier == "quick" else 2
    res.merge(explore_schedules([BigObsScenario("S-OBS-B2", K), BigObsScenario("S-OBS-B2-fin", K)], K, jobs))
    if tier == "quick":
        res.merge(explore_schedules([BigObsScenario("S-OBS-B2-fin", 2)], 2, jobs, cap=30000))
    return res


_plain_replay = replay


def replay(case, scenario, seed):   # noqa: F811
    if "choices" in case:
        return replay_schedule(BigObsScenario(case["scenario"], 9), case["choices"])
    return _plain_replay(case, scenario, seed)
