"""C04 - duplicate requests are executed at most once and re-answered identically.

E3 (explicit-state BFS with dedup) on a real server context: events are injections of copies of four request keys
((peer, mid) with peers sharing IPs and mids), timer firings, jumps to just before / after EXCHANGE_LIFETIME and ACKs for
the separate response; the server's own message-ID counter is seeded so that its MIDs collide with request MIDs."""

import asyncio

from .. import core, refcodec as rc
from ..core import Result, Violation
from ..explore import bfs
from ..world import World, Peer

from aiocoap import Message, resource, error

PROP = "C04"
LEVEL = "model_checking"
RULE = ("E3: BFS over all event sequences up to depth D (inject copy of key k in {(P1,m),(P2,m),(P3,m),(P1,m+1)} or, for slow handlers, of a "
        "fast request (P1,m+2) on the token of (P1,m), fire next "
        "timer, the same key under another token, the same key towards a second server endpoint of the process, jump to first arrival + EXCHANGE_LIFETIME -/+ 1 ms, ACK the separate response) per (handler kind, CON/NON, "
        "server initial MID) scenario, and behind three long prefixes (duplicate inside the lifetime, re-use after the expiry, the moment anything "
        "armed by the old duplicate is due), behind an acknowledged separate response whose own message ID equals the request's, and with request "
        "message IDs 0/1/2 (server counter wrapping onto them), dedup on model + dedup table + piggyback table + timers + handler counters")
ASSUMPTIONS = [
    "EXCHANGE_LIFETIME = 247 s computed from RFC 7252 defaults inside the model (not read from the library)",
    "exact ties with the expiry instant are not explored (epsilon = 1 ms)",
    "one fixed request content per (peer, mid) key",
]

SRV = ("2001:db8::5", 5683)
SRV2 = ("2001:db8::5", 5685)    # a second server endpoint of the same process (its own context): its own view of (endpoint, ID)
P1 = ("2001:db8::1", 40001)
P2 = ("2001:db8::1", 40002)   # same IP, other port
P3 = ("2001:db8::3", 40001)   # other IP, same port
M = 0x4000
KEYS = [(P1, M), (P2, M), (P3, M), (P1, M + 1), (P1, M + 2)]


def keys_for(base):
    """The request keys around another message ID (0: the boundary value every peer reaches once per wrap-around)."""
    return [(P1, base), (P2, base), (P3, base), (P1, (base + 1) & 0xFFFF), (P1, (base + 2) & 0xFFFF)]
# the fifth key re-uses the token of the first one (new message ID) and always asks the fast resource: a request that supersedes
# one still in its (slow) handler.  Only offered where the scenario's handler is slow.
LIFETIME = 2.0 * (2 ** 4 - 1) * 1.5 + (2 * 100.0 + 2.0)   # MAX_TRANSMIT_SPAN + MAX_RTT = 247 s
EPS = 0.001
KINDS = ("fast", "slow", "fail", "supp", "slowfail", "slownon")      # slownon: the separate response is sent non-confirmably


class St:
    pass


def build_world(kind, con, mid0):
    st = St()
    st.violations = []
    w = st.world = World(mid0=mid0)
    st.calls = {}

    def note(request, two=False):
        k = (request.remote.sockaddr[:2], request.mid)
        if two:
            k = ("srv2",) + k
        st.calls[k] = st.calls.get(k, 0) + 1

    class Fast(resource.Resource):
        async def render_get(self, request):
            note(request)
            return Message(payload=b"fast")

    class Slow(resource.Resource):
        async def render_get(self, request):
            note(request)
            await asyncio.sleep(0.5)
            return Message(payload=b"slow")

    class Fail(resource.Resource):
        async def render_get(self, request):
            note(request)
            raise RuntimeError("boom")

    class SlowFail(resource.Resource):
        async def render_get(self, request):
            note(request)
            await asyncio.sleep(0.5)
            raise RuntimeError("boom")
    class SlowNon(resource.Resource):
        async def render_get(self, request):
            import aiocoap
            note(request)
            await asyncio.sleep(0.5)
            return Message(payload=b"slow", transport_tuning=aiocoap.Unreliable)
    site = resource.Site()
    site.add_resource(["slownon"], SlowNon())
    site.add_resource(["fast"], Fast())
    site.add_resource(["slow"], Slow())
    site.add_resource(["fail"], Fail())
    site.add_resource(["slowfail"], SlowFail())
    st.srv = w.add_context("srv", *SRV, site=site)

    class Fast2(resource.Resource):
        async def render_get(self, request):
            note(request, True)
            return Message(payload=b"fast-from-2")
    site2 = resource.Site()
    for nm in ("fast", "slow", "fail", "slowfail", "slownon"):
        site2.add_resource([nm], Fast2())
    st.srv2 = w.add_context("srv2", *SRV2, site=site2)
    st.two = False
    for i, p in enumerate((P1, P2, P3)):
        w.add_peer(Peer("P%d" % (i + 1), *p))
    st.kind, st.con = kind, con
    st.model = {}      # key -> dict(first, ack, epoch)
    st.seps = []       # (peer, mid) of CON separate responses seen (to ACK)
    st.acked = set()
    return st


def request_bytes(st, key, alt=False):
    peer, mid = key
    path = {"supp": b"fast"}.get(st.kind, st.kind.encode())
    if KEYS.index(key) == 4:
        path = b"fast"
    opts = [(11, path)]
    if st.kind == "supp":
        opts.append((258, b"\x1a"))
    tok = bytes([0x70 + (KEYS.index(key) % 4)])
    if alt:
        # the same (endpoint, message ID) under another token: a request datagram is identified by source endpoint and message
        # ID alone, so this is a copy as well
        tok = tok + b"\x99"
    return rc.encode((rc.CON if st.con else rc.NON, 1, mid, tok, opts, b""))


def events_of(st):
    w = st.world
    evs = [("copy", i) for i in range(len(KEYS) if st.kind in ("slow", "slowfail", "slownon") else 4)]
    if KEYS[0] in st.model:
        evs.append(("copy", 0, "alt"))
    if st.two:
        evs.append(("copy2", 0))
    if w.loop.next_timer() is not None:
        evs.append(("timer",))
    live = [m for m in st.model.values() if m["first"] + LIFETIME > w.loop.time()]
    if live:
        evs.append(("jump", "before"))
        evs.append(("jump", "after"))
    for s in st.seps:
        if s not in st.acked:
            evs.append(("acksep",))
            break
    if live:
        evs.append(("icmp", 0))      # a transport error reported for P1 must not make the endpoint forget what it has seen
        evs.append(("jump", "mid"))  # somewhere inside the lifetime (150 s after the first arrival of the oldest live key)
    return evs


def note_wire(st, since):
    """Learn acknowledgements and separate responses from what the server just sent."""
    for dg in st.world.sent[since:]:
        if dg.src != SRV:
            continue
        d = dg.data
        mtype, mid = (d[0] >> 4) & 3, (d[2] << 8) | d[3]
        k = (dg.dst, mid)
        if mtype == rc.ACK and k in st.model and st.model[k]["ack"] is None and st.model[k]["first"] + LIFETIME > dg.t - 1e-9:
            st.model[k]["ack"] = d
        if mtype == rc.ACK and k not in st.model:
            # the only confirmable messages this server ever receives are the requests of the model: an acknowledgement that names
            # none of them is the acknowledgement of some request under a wrong ID (and will not be repeated for its copies)
            st.violations.append(Violation("acknowledgement-names-no-request", "ACKs carry the message ID of a request received from that endpoint",
                                           d.hex(), "messagemanager.py:send_message", {}, key="ack-foreign-id"))
        if mtype == rc.CON and (dg.dst, mid) not in st.seps:
            st.seps.append((dg.dst, mid))


def apply(st, ev):
    w = st.world
    since = len(w.sent)
    st.world.pool.clear()
    if ev[0] == "copy":
        key = KEYS[ev[1]]
        peer, mid = key
        now = w.loop.time()
        m = st.model.get(key)
        fresh = m is None or now > m["first"] + LIFETIME
        tie = m is not None and abs(now - (m["first"] + LIFETIME)) < 1e-6   # exact tie with the expiry: either is fine
        before = st.calls.get(key, 0)
        w.inject(peer, SRV, request_bytes(st, key, alt=len(ev) > 2))
        after = st.calls.get(key, 0)
        if tie:
            fresh = after != before
        if fresh:
            st.model[key] = m = {"first": now, "ack": None, "epoch": (m["epoch"] + 1 if m else 1)}
        out = [dg.data for dg in w.sent[since:] if dg.src == SRV and dg.dst == peer]
        other = [dg for dg in w.sent[since:] if dg.src == SRV and dg.dst != peer]
        if fresh:
            if after != before + 1:
                st.violations.append(Violation("new-request-not-processed", "handler invoked once for a new (endpoint, mid)",
                                               after - before, "messagemanager.py:_deduplicate_message", {"hist": None},
                                               key="epoch%d" % min(m["epoch"], 2)))
            note_wire(st, since)
        else:
            if after != before:
                st.violations.append(Violation("duplicate-executed", "handler not invoked again within EXCHANGE_LIFETIME",
                                               "invoked %d more time(s)" % (after - before), "messagemanager.py:_deduplicate_message", {},
                                               key="dup-exec"))
            want = [m["ack"]] if (st.con and m["ack"] is not None) else []
            if out != want:
                st.violations.append(Violation(
                    "duplicate-reply", [x.hex() for x in want], [x.hex() for x in out], "messagemanager.py:_deduplicate_message", {},
                    key=("con" if st.con else "non") + ("-ack-known" if m["ack"] else "-no-ack") + ("-more" if len(out) > len(want) else "-other")))
            note_wire(st, since)
        if other:
            st.violations.append(Violation("reply-to-wrong-endpoint", "replies go to the sender only", [repr(d) for d in other],
                                           "messagemanager.py", {}, key="wrong-dst"))
    elif ev[0] == "copy2":
        # the same peer uses the same message ID towards the other server endpoint: that one has not seen it before
        key = KEYS[ev[1]]
        peer, mid = key
        k2 = ("srv2",) + (peer[:2], mid)
        now = w.loop.time()
        m2 = st.model.get(k2)
        fresh = m2 is None or now > m2["first"] + LIFETIME
        before = st.calls.get(k2, 0)
        w.inject(peer, SRV2, request_bytes(st, key))
        after = st.calls.get(k2, 0)
        if m2 is not None and abs(now - (m2["first"] + LIFETIME)) < 1e-6:
            fresh = after != before        # exact tie with the expiry: either is fine
        out = [dg.data for dg in w.sent[since:] if dg.src == SRV2 and dg.dst == peer]
        stray = [dg for dg in w.sent[since:] if dg.src == SRV]
        if fresh:
            st.model[k2] = {"first": now, "ack": out[0] if (st.con and out) else None, "epoch": 1}
            # (a response suppressed by the request's No-Response option leaves the empty ACK only)
            if after != before + 1 or (st.con and (len(out) != 1 or (st.kind != "supp" and b"fast-from-2" not in out[0]))) or stray:
                st.violations.append(Violation("new-request-not-processed", "the other server endpoint processes its first (endpoint, mid) itself",
                                               {"handler calls": after - before, "replies": [x.hex() for x in out], "from first server": len(stray)},
                                               "messagemanager.py:_deduplicate_message", {}, key="second-server"))
        else:
            want = [m2["ack"]] if (st.con and m2["ack"] is not None) else []
            if after != before or out != want:
                st.violations.append(Violation("duplicate-reply", [x.hex() for x in want], [x.hex() for x in out],
                                               "messagemanager.py:_deduplicate_message", {}, key="second-server-dup"))
    elif ev[0] == "timer":
        w.loop.fire_next_timer()
        note_wire(st, since)
    elif ev[0] == "jump":
        live = sorted(m["first"] for m in st.model.values() if m["first"] + LIFETIME > w.loop.time())
        if not live:
            return
        t = live[0] + (150.0 if ev[1] == "mid" else LIFETIME + (-EPS if ev[1] == "before" else EPS))
        if t > w.loop.time():
            w.loop.advance_to(t)
        note_wire(st, since)
    elif ev[0] == "icmp":
        import errno
        st.srv.receive_error(P1, errno.EHOSTUNREACH)
        w.loop.settle()
        note_wire(st, since)
    elif ev[0] == "acksep":
        s = next(x for x in st.seps if x not in st.acked)
        st.acked.add(s)
        w.inject(s[0], SRV, rc.encode((rc.ACK, 0, s[1], b"", [], b"")))
        note_wire(st, since)
    for msg, e in w.loop_exceptions():
        st.violations.append(Violation("loop-exception", "none", core.exc_desc(e) if e else msg, core.site_of(e) if e else "loop", {},
                                       key=type(e).__name__ if e else msg[:40]))
    w.loop.exc.clear()


def make_build(kind, con, mid0):
    def build(hist, two=False):
        st = build_world(kind, con, mid0)
        st.two = two
        for ev in hist:
            n = len(st.violations)
            apply(st, ev)
            st.last = st.violations[n:]
        if not hist:
            st.last = []
        return st
    return build


def canon(st):
    w = st.world
    now = w.loop.time()
    mm = st.srv.mman
    model = sorted(((k, round(now - m["first"], 6) if now - m["first"] <= LIFETIME + 1 else "expired", m["ack"], min(m["epoch"], 3))
                    for k, m in st.model.items()), key=repr)
    rm = mm._recent_messages
    try:
        recent = sorted((r.sockaddr[:2], mid, None if v is None else (int(v.mtype), int(v.code), v.mid)) for (r, mid), v in rm.items())
    except (AttributeError, TypeError, ValueError):
        recent = sorted(repr(x) for x in rm)      # another container than the dict this harness knows: only used to tell states apart
    piggy = sorted((r.sockaddr[:2], tok, mid) for (r, tok), (mid, h) in mm._piggyback_opportunities.items())
    k = (model, recent, piggy, w.loop.pending_timers(), sorted(((k, min(v, 3)) for k, v in st.calls.items()), key=repr), mm.message_id,
         sorted(st.acked), len(st.seps), sorted(mm._active_exchanges and [(r.sockaddr[:2], mid) for r, mid in mm._active_exchanges] or []))
    w.dispose()
    return core.digest(k)


# long prefixes (the BFS continues behind them): a duplicate inside the first lifetime, the same (endpoint, ID) used again after the
# expiry, then a moment at which anything armed by the old duplicate has come due while the new entry's lifetime still runs
PREFIXES = {
    "dup-mid": (("copy", 0), ("jump", "mid"), ("copy", 0), ("jump", "after"), ("copy", 0), ("jump", "mid")),
    "dup-late": (("copy", 0), ("jump", "before"), ("copy", 0), ("jump", "after"), ("copy", 0), ("jump", "before")),
    "two-peers": (("copy", 0), ("copy", 1), ("jump", "mid"), ("copy", 1), ("jump", "after"), ("copy", 0), ("copy", 1)),
    "two-servers": ("two",),     # no prefix events: switches the second server's copy event on
    # a slow handler's separate (confirmable) response has been sent and acknowledged by the peer; with the server's counter seeded
    # next to the request's ID the two ID spaces hold the same number, and the end of the server's own exchange must not touch
    # what it remembers about the peer's request
    "sep-acked": (("copy", 0), ("timer",), ("timer",), ("acksep",)),
    # "no matter how often": the request and seven copies of it, some of them late in the lifetime
    "many-copies": (("copy", 0),) * 6 + (("jump", "mid"), ("copy", 0), ("copy", 0)),
}


def job(arg):
    global KEYS
    kind, con, mid0, depth = arg[:4]
    prefix = PREFIXES[arg[4]] if len(arg) > 4 and arg[4] else ()
    base = arg[5] if len(arg) > 5 else M
    KEYS = keys_for(base)
    res = Result()
    build0 = make_build(kind, con, mid0)
    name = "S-DUP-%s-%s-mid0=%#x%s%s" % (kind, "CON" if con else "NON", mid0, ("-prefix=" + arg[4]) if prefix else "", "" if base == M else "-base=%#x" % base)

    two = prefix == ("two",)
    if two:
        prefix = ()
    first = arg[6] if len(arg) > 6 else None
    if first is not None:
        # the deepest jobs are split by their first event (one job each, the search goes on behind it): the jobs share no
        # visited set, so some states are visited by several of them - the union is the search to the full depth
        st0 = build0((), False)
        ev = list(events_of(st0))[first]
        st0.world.dispose()
        prefix = (ev,)
        name += "-first=%d" % first
        depth -= 1

    def build(hist):
        return build0(tuple(prefix) + tuple(hist), two)
    if prefix:
        st0 = build(())
        for v in st0.violations:
            v["case"] = core.jsonable({"kind": kind, "con": con, "mid0": mid0, "base": base, "hist": [list(e) for e in prefix]})
            v["scenario"] = name
            res.violate(v)
        st0.world.dispose()

    def events(st):
        e = events_of(st)
        st.world.dispose()
        return e

    def check(hist, st):
        out = []
        for v in st.last:
            v["case"] = core.jsonable({"kind": kind, "con": con, "mid0": mid0, "base": base, "hist": [list(e) for e in tuple(prefix) + tuple(hist)]})
            v["scenario"] = name
            v["trace"] = st.world.trace[-40:]
            out.append(v)
        res.outcomes.add(core.digest((kind, con, [x.sig for x in st.last], sorted(st.calls.values()), len(st.world.sent))))
        res.signatures.add(core.digest((name, hist)))
        res.traces += 1
        return out
    bfs((), build, events, canon, check, depth, res, name=name)
    res.sample({"scenario": name, "example_history": [["copy", 0], ["timer"], ["copy", 0], ["jump", "after"], ["copy", 0]]})
    return res


def run(tier, seed, jobs):
    work = []
    for kind in KINDS:
        for con in (True, False):
            for mid0 in (M - 1, M, 0x7000):
                if tier == "quick":
                    if not con and mid0 != 0x7000:
                        continue
                    # depth 4 where separate responses (own message IDs, timers) make longer histories matter, 3 elsewhere
                    d = 4 if (con and kind in ("slow", "slowfail", "slownon")) else 3
                else:
                    # the deepest histories away from the message-ID wrap; one level less around it (the wrap has its own jobs below)
                    d = (6 if con else 5) if mid0 == 0x7000 else (5 if con else 4)
                    if d == 6:
                        global KEYS
                        KEYS = keys_for(M)
                        st0 = make_build(kind, con, mid0)((), False)
                        n_first = len(list(events_of(st0)))
                        st0.world.dispose()
                        work += [(kind, con, mid0, d, None, M, i) for i in range(n_first)]
                        continue
                work.append((kind, con, mid0, d))
    # request message IDs around 0 (and the server's own counter wrapping onto them)
    for kind in ("fast", "supp", "slow") if tier == "quick" else KINDS:
        for mid0 in (0xFFFF, 0x7000):
            work.append((kind, True, mid0, 3 if tier == "quick" else 5, None, 0))
    for kind in ("slow", "slowfail"):
        for mid0 in (M - 1, M):
            work.append((kind, True, mid0, 2 if tier == "quick" else 3, "sep-acked"))
    for kind in ("fast", "slow") if tier == "quick" else KINDS:
        for con in (True, False):
            for pname in PREFIXES:
                if pname == "sep-acked" or (pname == "many-copies" and not con):
                    continue
                work.append((kind, con, 0x7000, (3 if pname == "two-servers" else 2) if tier == "quick" else (4 if pname == "two-servers" else 3), pname))
    return core.prun(job, work, jobs)


def replay(case, scenario, seed):
    global KEYS
    KEYS = keys_for(case.get("base", M))
    st = make_build(case["kind"], case["con"], case["mid0"])([tuple(e) for e in case["hist"]])
    for line in st.world.trace:
        print("    ", line)
    vs = list(st.violations)
    st.world.dispose()
    return vs
