"""C11 - OSCORE: round trip, inner data hidden, responses bound, tampering detected.

E1 on CanProtect.protect / CanUnprotect.unprotect with pairs of in-memory contexts (as tests/test_oscore.py builds them),
over the stand-in crypto modules of /verif/shims (bound to published vectors by shims/shimtest.py)."""

import itertools
import sys
import os

from .. import core, refcodec as rc
from ..core import Result, Violation

import aiocoap.oscore as o
from aiocoap import Message
from aiocoap.message import Direction
from aiocoap.numbers import codes

PROP = "C11"
LEVEL = "exploration"
EXHAUSTIVE = True
RULE = ("E1: (a,b) 10 codes x all option subsets of size <= 3 over 22 option items x 4 payloads, protected and unprotected over the "
        "wire encoding; (c) all pairings of 3 requests with 3 responses (with and without own partial IV); (d) every single-bit flip "
        "of ciphertext and OSCORE option, field-level edits (PIV +-1, PIV length, KID, KID context, flag bits), each followed by the genuine "
        "message on the same recipient; foreign contexts (other secret / salt / ID context, absent vs empty ID context), over "
        "sender/recipient ID lengths 0-7 x ID context {none, empty, 8 bytes} x 9 sequence numbers up to 2^40-2 (x 5 algorithms in the "
        "thorough tier; two configurations per algorithm in the quick tier); (d2) the server-side choice of the context from a credentials map holding four ID contexts (absent, empty, two values) in every order, for senders of each of them and of an unknown one; (d3) the client's OSCORE transport against the server's site wrapper over the virtual network: 1-2 requests, an observation with 3 notifications, initialised and lost replay window (Echo recovery), two concurrent responses swapped by an attacker; (e) the 4.01 + Echo challenge after a loss of replay state never re-uses a nonce; distinct = distinct (family, shape, outcome)")
ASSUMPTIONS = [
    "cbor2 / cryptography / filelock are the stand-ins of /verif/shims (OpenSSL libcrypto through ctypes), bound to RFC 3610, NIST GCM, "
    "RFC 8439, RFC 5869, RFC 8949 and RFC 8613 appendix C vectors at start-up; nothing is claimed about the real packages",
    "a mutation that only changes the representation of the OSCORE option (the k flag; an ID context dropped or given as empty) may be accepted if the result equals the original message",
    "group OSCORE is not covered",
]

MARK = b"S3CR3T"
SECRET = bytes(range(1, 17))
SALT = bytes.fromhex("9e7ca92223786340")


class Ctx(o.CanProtect, o.CanUnprotect, o.SecurityContextUtils):
    echo_recovery = None

    def post_seqnoincrease(self):
        pass


def make(sid, rid, idc, alg="AES-CCM-16-64-128", ssn=0, secret=SECRET, window=32, salt=SALT):
    c = Ctx()
    c.alg_aead = o.algorithms[alg]
    c.hashfun = o.hashfunctions["sha256"]
    c.sender_id, c.recipient_id, c.id_context = sid, rid, idc
    c.derive_keys(salt, secret)
    c.sender_sequence_number = ssn
    c.recipient_replay_window = o.ReplayWindow(window, lambda: None)
    c.recipient_replay_window.initialize_empty()
    return c


def wire(m, mid=1):
    """Through the datagram codec, as the peer would see it."""
    m.mtype = 1
    m.mid = mid
    m.token = b"\x42"
    data = m.encode()
    d = Message.decode(data)
    return d, data


OPTION_ITEMS = [
    ("uri_path", [MARK.decode() + "-p1"], "E"), ("uri_path", ["a", MARK.decode() + "-p2"], "E"), ("uri_query", [MARK.decode() + "=q"], "E"),
    ("content_format", 0, "E"), ("content_format", 60, "E"), ("accept", 40, "E"), ("etag", MARK + b"e", "E"), ("if_match", [b"\x01"], "E"),
    ("if_none_match", True, "E"), ("max_age", 17, "E"), ("location_path", ["l", "p"], "E"), ("block1", (2, True, 3), "E"),
    ("block2", (0, False, 6), "E"), ("size1", 1234, "E"), ("echo", b"echo-" + MARK, "E"), ("request_tag", [b"rt"], "E"),
    ("uri_host", "example.com", "U"), ("uri_port", 61616, "U"), ("proxy_scheme", "coap", "U"),
    ("proxy_uri", "coap://example.com/" + MARK.decode() + "-pp?k=v", "U"),
    ("observe", 0, "O"), ("observe", 1, "O"), ("observe", 12345, "O"),
]
CODES = [codes.GET, codes.POST, codes.PUT, codes.DELETE, codes.FETCH, codes.CONTENT, codes.CHANGED, codes.CREATED, codes.NOT_FOUND,
         codes.INTERNAL_SERVER_ERROR]
PAYLOADS = [b"", b"x", MARK + b"0123456789", MARK + b"0123456789a"]
ALLOWED_OUTER = {9, 3, 7, 35, 39, 6}
ALLOWED_OUTER_CODES = {2, 5, 68, 69}


def opts_E(m):
    return [(int(x.number), bytes(x.encode())) for x in m.opt.option_list()
            if int(x.number) not in (3, 7, 35, 39, 6, 9)]


def roundtrip(res, code, items, payload):
    res.evaluations += 1
    case = {"family": "roundtrip", "code": int(code), "options": [[n, v] for n, v, _ in items], "payload": payload}
    cl, sv = make(b"\x01", b"", None), make(b"", b"\x01", None)
    m = Message(code=code, payload=payload)
    names = [n for n, v, c in items]
    if len(set(names)) != len(names):
        return
    for n, v, c in items:
        setattr(m.opt, n, v)
    is_req = code.is_request()
    try:
        if is_req:
            outer, rid = cl.protect(m)
            w, data = wire(outer)
            inner, _ = sv.unprotect(w)
        else:
            # a response needs a request: protect and unprotect a plain GET first
            req_outer, crid = cl.protect(Message(code=codes.GET))
            rw, _ = wire(req_outer)
            _, srid = sv.unprotect(rw)
            outer, _ = sv.protect(m, request_id=srid)
            w, data = wire(outer)
            inner, _ = cl.unprotect(w, request_id=crid)
    except Exception as e:
        res.violate(Violation("roundtrip-raises", "protect/unprotect succeed", core.exc_desc(e), core.site_of(e), case,
                              key="%s%s@%s" % ("proxy_uri:" if "proxy_uri" in names else "", type(e).__name__, core.site_of(e))))
        return
    want_opts = opts_E(m)
    got_opts = opts_E(inner)
    obs_req0 = is_req and m.opt.observe == 0
    ok = int(inner.code) == int(code) and bytes(inner.payload) == payload and got_opts == want_opts
    if obs_req0 and inner.opt.observe != 0:
        ok = False
    if not ok:
        res.violate(Violation("roundtrip-differs", {"code": int(code), "options": want_opts, "payload": payload},
                              {"code": int(inner.code), "options": got_opts, "payload": bytes(inner.payload), "observe": inner.opt.observe},
                              "oscore.py:_split_message", case, key="differs:" + ("code" if int(inner.code) != int(code) else "payload" if bytes(inner.payload) != payload else "options")))
        return
    # (b) what the outer message reveals, by an independent parse of the datagram
    t = rc.decode(data, check_formats=False)
    nums = {n for n, v in t[4]}
    if t[1] not in ALLOWED_OUTER_CODES or not nums <= ALLOWED_OUTER:
        res.violate(Violation("outer-message-shape", {"codes": sorted(ALLOWED_OUTER_CODES), "options": sorted(ALLOWED_OUTER)},
                              {"code": t[1], "options": sorted(nums)}, "oscore.py:_split_message", case, key="outer:%s" % sorted(nums - ALLOWED_OUTER)))
    # RFC 8613 section 4.2: the outer code depends on Observe alone (POST / 2.04, or FETCH / 2.05 for observations) - it must not tell
    # one inner code from another
    want_outer = None
    if is_req:
        want_outer = 5 if m.opt.observe is not None else 2
    elif m.opt.observe is None:
        want_outer = 68
    if want_outer is not None and t[1] != want_outer:
        res.violate(Violation("outer-code-depends-on-inner-message", {"outer code": want_outer}, {"outer code": t[1], "inner code": int(code)},
                              "oscore.py:_split_message", case, key="outer-code:%d" % t[1]))
    if MARK in data:
        res.violate(Violation("inner-data-visible", "no inner marker in the outer datagram", data.hex(), "oscore.py:_split_message", case,
                              key="leak:" + ",".join(sorted(set(names)))))
    res.traces += 1
    res.outcomes.add(("rt", is_req, t[1]))
    res.signatures.add(("rt", int(code), tuple(sorted(names)), len(payload)))


def binding(res, with_own_piv):
    """(c) a response verifies only with the identifiers of the request it answers"""
    cl, sv = make(b"\x0a", b"\x0b", b"ctx"), make(b"\x0b", b"\x0a", b"ctx")
    reqs = []
    for i in range(3):
        outer, crid = cl.protect(Message(code=codes.GET, uri_path=["r%d" % i]))
        w, _ = wire(outer, mid=10 + i)
        inner, srid = sv.unprotect(w)
        if with_own_piv:
            srid.can_reuse_nonce = False
        resp_outer, _ = sv.protect(Message(code=codes.CONTENT, payload=b"answer-%d" % i), request_id=srid)
        rw, _ = wire(resp_outer, mid=20 + i)
        reqs.append((crid, rw))
    for i, j in itertools.product(range(3), repeat=2):
        res.evaluations += 1
        case = {"family": "binding", "response": i, "request": j, "own_piv": with_own_piv}
        crid, _ = reqs[j]
        _, rw = reqs[i]
        try:
            msg = Message.decode(rw.encode() if False else wire_copy(rw))
            inner, _ = cl.unprotect(msg, request_id=crid)
            ok = True
        except o.ProtectionInvalid:
            ok = False
        except Exception as e:
            res.violate(Violation("binding-raises-other", "ProtectionInvalid or success", core.exc_desc(e), core.site_of(e), case, key=type(e).__name__))
            continue
        if ok != (i == j):
            res.violate(Violation("response-binding", "verifies iff it answers that request", {"verified": ok, "same": i == j},
                                  "oscore.py:_extract_external_aad", case, key="bind:%s" % ok))
        elif ok and bytes(inner.payload) != b"answer-%d" % i:
            res.violate(Violation("response-binding", b"answer-%d" % i, bytes(inner.payload), "oscore.py", case, key="bind-payload"))
        res.outcomes.add(("bind", ok))
        res.signatures.add(("bind", i == j, with_own_piv))
        res.traces += 1


_RAW = {}


def wire_copy(m):
    m.direction = Direction.OUTGOING
    data = m.encode()
    m.direction = Direction.INCOMING
    return data


def original_fields(inner):
    return (int(inner.code), opts_E(inner), bytes(inner.payload))


def mutated(outer_bytes, new_option=None, new_payload=None):
    t = rc.decode(outer_bytes, check_formats=False)
    opts = [(n, (new_option if (n == 9 and new_option is not None) else v)) for n, v in t[4]]
    return rc.encode((t[0], t[1], t[2], t[3], opts, t[5] if new_payload is None else new_payload))


def genuine_still_accepted(res, sv, genuine, orig, case, kind):
    """The round-trip clause after tampering: a manipulated copy that was rejected must not have used up the genuine message
    (the recipient's replay state was fresh before the manipulated copy arrived)."""
    if genuine is None:
        return
    try:
        inner, _ = sv.unprotect(Message.decode(genuine))
        ok = original_fields(inner) == orig
        obs = "other message" if not ok else None
    except Exception as e:
        ok, obs = False, core.exc_desc(e)
    if not ok:
        res.violate(Violation("genuine-rejected-after-forgery", "the genuine message still unprotects to the original", obs,
                              "oscore.py:unprotect", case, key="after:" + kind.split("%")[0]))


def representation_only(case, kind):
    """The manipulations that leave Partial IV, key ID and ID context *values* as they are and may therefore be accepted (with the
    original message as the result): the k flag of the first option byte (an empty or implied key ID spelled either way), and an
    ID context that is dropped from / present as empty in the option.  Everything else - announced lengths that do not fit, other
    flag bits, any byte of a field - has to be refused."""
    if kind in ("edit-kctx-dropped", "edit-kctx-empty"):
        return True
    flip = case.get("flip")
    return kind.startswith("opt-flip") and flip is not None and list(flip)[:3] == ["option", 0, 3]


def attempt(res, sv, data, orig, case, kind, strict=False, genuine=None):
    """Unprotect a manipulated datagram: must raise a protection error, or (representation-only change) give the original."""
    res.evaluations += 1
    sv.recipient_replay_window.initialize_empty()
    try:
        msg = Message.decode(data)
    except Exception:
        res.outcomes.add(("tamper", "undecodable"))
        return
    try:
        inner, _ = sv.unprotect(msg)
    except (o.ProtectionInvalid, o.NotAProtectedMessage):
        res.outcomes.add(("tamper", "rejected"))
        res.signatures.add(("tamper", kind, "rejected"))
        genuine_still_accepted(res, sv, genuine, orig, case, kind)
        return
    except Exception as e:
        res.violate(Violation("tamper-raises-other", "a protection error", core.exc_desc(e), core.site_of(e), case,
                              key="%s@%s" % (type(e).__name__, core.site_of(e))))
        return
    if strict or original_fields(inner) != orig or not representation_only(case, kind):
        res.violate(Violation("tampered-message-accepted", "protection error", {"got": core.jsonable(original_fields(inner))},
                              "oscore.py:unprotect", case, key="accepted:" + kind))
    else:
        res.outcomes.add(("tamper", "equivalent-accepted"))
        res.signatures.add(("tamper", kind, "equivalent"))


def foreign_contexts(sid, rid, idc, alg, ssn):
    """Contexts of another security association: same IDs but another master secret / salt / ID context - in particular the
    near misses 'no ID context' against 'empty ID context', which RFC 8613 section 3.2.1 keeps apart (nil against h'')."""
    out = [("other-secret", make(sid, rid, idc, alg, ssn, secret=bytes(16))),
           ("other-salt", make(sid, rid, idc, alg, ssn, salt=b"\x01" + SALT[1:])),
           ("other-idcontext", make(sid, rid, (idc or b"") + b"x", alg, ssn))]
    if idc != b"":
        out.append(("idcontext-empty-for-" + ("absent" if idc is None else "8bytes"), make(sid, rid, b"", alg, ssn)))
    if idc is not None:
        out.append(("idcontext-absent-for-" + ("empty" if idc == b"" else "8bytes"), make(sid, rid, None, alg, ssn)))
    return out


def tamper(res, sidlen, ridlen, idc, alg, ssn, full):
    sid = bytes(range(0xA0, 0xA0 + sidlen))
    rid = bytes(range(0xB0, 0xB0 + ridlen))
    if sid == rid:
        return
    cl = make(sid, rid, idc, alg, ssn)
    sv = make(rid, sid, idc, alg, 0)
    m = Message(code=codes.POST, uri_path=["x", "y"], payload=b"pl")
    sv.recipient_replay_window.initialize_empty()
    try:
        outer, rid_cl = cl.protect(m)
        w, data = wire(outer)
        inner, rid_sv = sv.unprotect(w)
    except Exception as e:
        res.violate(Violation("roundtrip-raises", "protect/unprotect succeed", core.exc_desc(e), core.site_of(e),
                              {"family": "tamper-base", "sid": sid, "rid": rid, "idc": idc, "alg": alg, "ssn": ssn}, key="base:" + type(e).__name__))
        return
    orig = original_fields(inner)
    t = rc.decode(data, check_formats=False)
    optv = rc.opt(t[4], 9)
    payload = t[5]
    base = {"family": "tamper", "sid": sid, "rid": rid, "idc": idc, "alg": alg, "ssn": ssn}
    # every single-bit flip of the ciphertext and of the option
    for i in range(len(payload)):
        for b in range(8) if (full or i in (0, len(payload) - 1)) else (0, 7):
            p2 = bytearray(payload)
            p2[i] ^= 1 << b
            attempt(res, sv, mutated(data, new_payload=bytes(p2)), orig, dict(base, flip=["payload", i, b]), "ct-flip", genuine=data)
    for i in range(len(optv)):
        for b in range(8):
            o2 = bytearray(optv)
            o2[i] ^= 1 << b
            attempt(res, sv, mutated(data, new_option=bytes(o2)), orig, dict(base, flip=["option", i, b]), "opt-flip%d" % (0 if i == 0 else 1), genuine=data)
    # truncations of the payload and the option
    for k in range(len(payload)):
        attempt(res, sv, mutated(data, new_payload=payload[:k]) if k else mutated(data, new_payload=b""), orig, dict(base, trunc=["payload", k]), "ct-trunc", genuine=data)
    for k in range(len(optv)):
        attempt(res, sv, mutated(data, new_option=optv[:k]), orig, dict(base, trunc=["option", k]), "opt-trunc", genuine=data)
    # field-level edits through the library's own compressor
    piv = ssn.to_bytes(5, "big").lstrip(b"\0") or b"\0"

    def opt_from(piv_=piv, kid=sid, kctx=idc):
        unprot = {o.COSE_PIV: piv_, o.COSE_KID: kid}
        if kctx is not None:
            unprot[o.COSE_KID_CONTEXT] = kctx
        return o.CanProtect._compress({}, unprot, b"")[0]
    edits = []
    if ssn + 1 < 2 ** 40:
        edits.append(("piv+1", opt_from(piv_=(ssn + 1).to_bytes(5, "big").lstrip(b"\0") or b"\0")))
    if ssn > 0:
        edits.append(("piv-1", opt_from(piv_=(ssn - 1).to_bytes(5, "big").lstrip(b"\0") or b"\0")))
    if len(piv) < 5:
        edits.append(("piv-longer", opt_from(piv_=b"\0" + piv)))
    edits.append(("kid-other", opt_from(kid=bytes([0xEE]) + sid[1:] if sid else b"\xee")))
    edits.append(("kid-empty", opt_from(kid=b"")))
    edits.append(("kid-longer", opt_from(kid=sid + b"\x00")))
    edits.append(("kctx-other", opt_from(kctx=b"other")))
    edits.append(("kctx-dropped", opt_from(kctx=None)))
    edits.append(("kctx-empty", opt_from(kctx=b"")))
    # Partial IV lengths beyond 5 (6 and 7 are reserved, RFC 8613 section 6.1), everything else in place
    for n in (6, 7):
        raw = bytes([n | 0x08 | (0x10 if idc is not None else 0)]) + b"\0" * (n - len(piv)) + piv \
            + ((bytes([len(idc)]) + idc) if idc is not None else b"") + sid
        edits.append(("piv-len%d" % n, raw))
    for name, ov in edits:
        if ov == optv:
            continue
        # edits that change the *value* of PIV, KID or ID context must fail; dropping the optional ID context is a
        # representation the sender could have chosen itself
        strict = name != "kctx-dropped" and not (name == "kctx-empty" and idc == b"") and not (name == "kid-empty" and sid == b"")
        attempt(res, sv, mutated(data, new_option=ov), orig, dict(base, edit=name), "edit-" + name, strict=strict, genuine=data)
    # another context's keys (same IDs, other master secret; other ID context)
    for name, other in foreign_contexts(rid, sid, idc, alg, 0):
        res.evaluations += 1
        try:
            other.unprotect(Message.decode(data))
            res.violate(Violation("foreign-context-accepted", "protection error", "unprotected", "oscore.py:unprotect", dict(base, foreign=name), key=name))
        except (o.ProtectionInvalid, o.NotAProtectedMessage):
            res.outcomes.add(("foreign", "rejected"))
        except Exception as e:
            res.violate(Violation("tamper-raises-other", "a protection error", core.exc_desc(e), core.site_of(e), dict(base, foreign=name),
                                  key="%s@%s" % (type(e).__name__, core.site_of(e))))
    tamper_response(res, cl, sv, rid_cl, rid_sv, base, full)
    res.traces += 1


def tamper_response(res, cl, sv, rid_cl, rid_sv, base, full):
    """The same for responses (first one re-using the request's nonce, second one with the server's own Partial IV): nothing but
    the genuine bytes verifies against the request's identifiers."""
    for variant in ("reuse", "own-piv"):
        base2 = dict(base, family="tamper-response", response=variant)
        try:
            outer, _ = sv.protect(Message(code=codes.CONTENT, payload=b"resp-" + variant.encode()), request_id=rid_sv)
            w, data = wire(outer)
            inner, _ = cl.unprotect(w, rid_cl)
        except Exception as e:
            res.violate(Violation("roundtrip-raises", "protect/unprotect of a response succeed", core.exc_desc(e), core.site_of(e), base2,
                                  key="resp-base:" + type(e).__name__))
            return
        orig = original_fields(inner)
        t = rc.decode(data, check_formats=False)
        optv = rc.opt(t[4], 9)
        payload = t[5]
        for name, other in foreign_contexts(cl.sender_id, cl.recipient_id, cl.id_context, base["alg"], 0):
            res.evaluations += 1
            try:
                other.unprotect(Message.decode(data), rid_cl)
                res.violate(Violation("foreign-context-accepted", "protection error", "response unprotected", "oscore.py:unprotect",
                                      dict(base2, foreign=name), key="resp-" + name))
            except (o.ProtectionInvalid, o.NotAProtectedMessage):
                res.signatures.add(("foreign-resp", name))
            except Exception as e:
                res.violate(Violation("tamper-raises-other", "a protection error", core.exc_desc(e), core.site_of(e), dict(base2, foreign=name),
                                      key="resp:%s@%s" % (type(e).__name__, core.site_of(e))))

        def att(newdata, case, kind, strict=False):
            res.evaluations += 1
            try:
                msg = Message.decode(newdata)
            except Exception:
                return
            try:
                got, _ = cl.unprotect(msg, rid_cl)
            except (o.ProtectionInvalid, o.NotAProtectedMessage):
                res.signatures.add(("tamper-resp", kind, "rejected"))
                return
            except Exception as e:
                res.violate(Violation("tamper-raises-other", "a protection error", core.exc_desc(e), core.site_of(e), case,
                                      key="resp:%s@%s" % (type(e).__name__, core.site_of(e))))
                return
            if strict or original_fields(got) != orig or not representation_only(case, kind):
                res.violate(Violation("tampered-message-accepted", "protection error", {"got": core.jsonable(original_fields(got))},
                                      "oscore.py:unprotect", case, key="accepted:resp-" + kind))
            else:
                res.signatures.add(("tamper-resp", kind, "equivalent"))
        for i in range(len(payload)):
            for b in (range(8) if (full or i in (0, len(payload) - 1)) else (0,)):
                p2 = bytearray(payload)
                p2[i] ^= 1 << b
                att(mutated(data, new_payload=bytes(p2)), dict(base2, flip=["payload", i, b]), "ct-flip")
        for i in range(len(optv)):
            for b in range(8):
                o2 = bytearray(optv)
                o2[i] ^= 1 << b
                att(mutated(data, new_option=bytes(o2)), dict(base2, flip=["option", i, b]), "opt-flip")
        own = {}
        if optv:
            n = optv[0] & 7
            if n:
                own[o.COSE_PIV] = optv[1:1 + n]

        def opt_with(**extra):
            unprot = dict(own)
            for k, v in extra.items():
                unprot[{"kid": o.COSE_KID, "kctx": o.COSE_KID_CONTEXT, "piv": o.COSE_PIV}[k]] = v
            return o.CanProtect._compress({}, unprot, b"")[0]
        my_ctx = cl.id_context
        edits = [("kctx-other", opt_with(kctx=b"other"), True), ("kctx-other+kid", opt_with(kctx=b"other", kid=cl.recipient_id), True),
                 ("kid-other", opt_with(kid=b"\xee" + cl.recipient_id[1:]), True),
                 ("kctx-empty", opt_with(kctx=b""), my_ctx not in (None, b"") or my_ctx is None)]
        if o.COSE_PIV in own:
            pv = int.from_bytes(own[o.COSE_PIV], "big")
            edits.append(("piv+1", opt_with(piv=(pv + 1).to_bytes(5, "big").lstrip(b"\0") or b"\0"), True))
            edits.append(("piv-dropped", o.CanProtect._compress({}, {}, b"")[0], True))
        else:
            edits.append(("piv-added", opt_with(piv=b"\x07"), True))
        for name, ov, strict in edits:
            if ov == optv:
                continue
            att(mutated(data, new_option=ov), dict(base2, edit=name), "edit-" + name, strict=strict)


def echo_challenge(res, alg):
    """Confidentiality across a loss of replay state: the server answered request R (re-using the request's nonce); its replay window
    is then lost (uninitialised, Echo recovery armed); R arrives again and is answered by a protected 4.01 + Echo.  Every
    encryption under the server's sender key must use a nonce of its own - two plaintexts under one (key, nonce) give away their XOR."""
    res.evaluations += 1
    case = {"family": "echo-challenge", "alg": alg}
    cl, sv = make(b"\x01", b"\x02", None, alg), make(b"\x02", b"\x01", None, alg)
    sv.echo_recovery = b"echo-val"
    used = []
    real = sv.alg_aead

    class Logged(type(real)):
        def encrypt(self_, plaintext, aad, key, iv):
            if key == sv.sender_key:
                used.append((bytes(iv), bytes(plaintext)))
            return real.encrypt(plaintext, aad, key, iv)
    Logged.__name__ = type(real).__name__
    sv.alg_aead = Logged()
    try:
        outer, crid = cl.protect(Message(code=codes.GET, uri_path=["door"]))
        w, data = wire(outer)
        _, srid = sv.unprotect(w)
        sv.protect(Message(code=codes.CONTENT, payload=MARK + b" door code"), request_id=srid)
        # state lost
        sv.recipient_replay_window = o.ReplayWindow(32, lambda: None)
        try:
            sv.unprotect(Message.decode(data))
            res.violate(Violation("accepted-while-state-lost", "ReplayErrorWithEcho", "accepted", "oscore.py:unprotect", case, key="echo:accepted"))
            return
        except o.ReplayErrorWithEcho as e:
            e.to_message()
        except o.ProtectionInvalid:
            pass        # refusing outright is fine too
    except Exception as e:
        res.violate(Violation("roundtrip-raises", "protect/unprotect succeed", core.exc_desc(e), core.site_of(e), case, key="echo:" + type(e).__name__))
        return
    nonces = [n for n, _ in used]
    if len(set(nonces)) != len(nonces):
        res.violate(Violation("nonce-reused-across-state-loss", "every encryption under the sender key has its own nonce",
                              [n.hex() for n in nonces], "oscore.py:unprotect (can_reuse_nonce)", case, key="echo:nonce"))
    res.traces += 1
    res.signatures.add(("echo-challenge", alg, len(used)))
    res.outcomes.add(("echo", len(used)))


def crash_binding(res, nreq, start):
    """Response binding across a process death: a file-backed client context sends nreq requests, the answer to the last one is
    recorded, the process dies and is started again; the recorded answer must not verify as the answer to the next request."""
    from .c13_nonce import Run
    res.evaluations += 1
    case = {"family": "crash-binding", "requests": nreq, "chunk_start": start}
    r = Run(start, 10000)
    try:
        for i in range(nreq):
            outer, rid = r.ctx.protect(Message(code=codes.GET, uri_path=["old%d" % i]))
        w, _ = wire(outer)
        r.peer.recipient_replay_window.initialize_empty()
        _, prid = r.peer.unprotect(w)
        resp, _ = r.peer.protect(Message(code=codes.CONTENT, payload=b"answer to the old request"), request_id=prid)
        rw, rdata = wire(resp)
        r.die()
        r.load()
        outer2, rid2 = r.ctx.protect(Message(code=codes.GET, uri_path=["new"]))
        try:
            inner, _ = r.ctx.unprotect(Message.decode(rdata), rid2)
            res.violate(Violation("response-binding", "a response recorded before the crash does not verify against a request made after it",
                                  {"accepted": bytes(inner.payload)}, "oscore.py:FilesystemSecurityContext.post_seqnoincrease", case, key="bind-crash"))
        except o.ProtectionInvalid:
            res.signatures.add(("crash-binding", nreq, start))
        res.traces += 1
        res.outcomes.add(("crash-binding", "refused"))
    except Exception as e:
        res.violate(Violation("roundtrip-raises", "protect/unprotect succeed", core.exc_desc(e), core.site_of(e), case, key="crashbind:" + type(e).__name__))
    finally:
        r.close()


SSNS = [0, 1, 255, 256, 65535, 65536, 2 ** 24, 2 ** 32, 2 ** 40 - 2]
IDCS = (None, b"", b"8bytectx", b"9bytectxx")


def context_selection(res, order, sent_idc):
    """The server-side choice of the context (what the site wrapper does before it unprotects): a credentials map holds four
    contexts with the same IDs that differ in their ID context (absent, empty, two values; each with its own master secret) in
    one of the 24 orders; a client of one of these associations - or of a fifth one the server does not know - sends a request.
    The context chosen is the one of the client's own association (the request then unprotects to what was sent), never another
    one; for the unknown association no context is found (and none would unprotect it)."""
    from aiocoap.credentials import CredentialsMap
    sid, rid = b"\xA0", b"\xB0"
    secrets = {idc: bytes([i + 1]) * 16 for i, idc in enumerate(IDCS + (b"unknown!",))}
    cm = CredentialsMap()
    svs = {}
    for k in order:
        idc = IDCS[k]
        svs[idc] = make(rid, sid, idc, secret=secrets[idc])
        cm[":ctx%d" % k] = svs[idc]
    cl = make(sid, rid, sent_idc, secret=secrets[sent_idc])
    case = {"family": "context-selection", "order": list(order), "sent_idc": sent_idc}
    res.evaluations += 1
    res.traces += 1
    m = Message(code=codes.POST, uri_path=["x"], payload=b"pl")
    outer, _ = cl.protect(m)
    w, data = wire(outer)
    try:
        chosen = cm.find_oscore(o.verify_start(w))
    except KeyError:
        chosen = None
    want = svs.get(sent_idc)
    if chosen is not want:
        res.violate(Violation("context-selection", "the context of the sender's own association" if want is not None else "no context",
                              "none" if chosen is None else "the context with ID context %r" % (chosen.id_context,), "oscore.py:get_oscore_context_for",
                              case, key="selected-" + ("none" if chosen is None else "other")))
    elif chosen is not None:
        try:
            inner, _ = chosen.unprotect(w)
            ok = inner.payload == b"pl" and tuple(inner.opt.uri_path) == ("x",)
        except Exception as e:
            ok = False
        if not ok:
            res.violate(Violation("context-selection", "the request unprotects in the chosen context", "it does not", "oscore.py:unprotect", case, key="selected-fails"))
    res.signatures.add(core.digest(("sel", order, sent_idc)))
    res.states.add(core.digest(("sel", order, sent_idc, None if chosen is None else chosen.id_context)))
    res.outcomes.add(core.digest(("sel", chosen is None)))
    res.transitions += 1


def file_backed(res, alg, sidlen, ridlen, idc):
    hook = sys.unraisablehook
    sys.unraisablehook = lambda u: None      # a context refused at load complains from its __del__ (it never got that far): not our subject
    try:
        _file_backed(res, alg, sidlen, ridlen, idc)
    finally:
        import gc
        gc.collect()
        sys.unraisablehook = hook


def _file_backed(res, alg, sidlen, ridlen, idc):
    """The same round trip with both contexts loaded from directories (FilesystemSecurityContext): every ID length the algorithm
    admits loads and works, one more byte is refused at load."""
    import json as _json
    import shutil
    import tempfile
    maxid = o.algorithms[alg].iv_bytes - 6
    sid = bytes(range(0xA0, 0xA0 + sidlen))
    rid = bytes(range(0xB0, 0xB0 + ridlen))
    if sid == rid:
        return
    case = {"family": "file-backed", "alg": alg, "sidlen": sidlen, "ridlen": ridlen, "idc": idc}
    res.evaluations += 1
    base = tempfile.mkdtemp(prefix="c11-fs-")
    try:
        ctxs = []
        for name, a, b in (("cl", sid, rid), ("sv", rid, sid)):
            d = os.path.join(base, name)
            os.mkdir(d)
            st = {"sender-id_hex": a.hex(), "recipient-id_hex": b.hex(), "secret_hex": SECRET.hex(), "salt_hex": SALT.hex(), "algorithm": alg}
            if idc is not None:
                st["id-context_hex"] = idc.hex()
            _json.dump(st, open(os.path.join(d, "settings.json"), "w"))
            try:
                ctxs.append(o.FilesystemSecurityContext(d))
            except Exception as e:
                ctxs.append(e)
        admissible = max(sidlen, ridlen) <= maxid
        loaded = [not isinstance(c, Exception) for c in ctxs]
        if admissible and not all(loaded):
            res.violate(Violation("admissible-ids-refused", "contexts with IDs of %d/%d bytes load (maximum %d)" % (sidlen, ridlen, maxid),
                                  [core.exc_desc(c) for c in ctxs if isinstance(c, Exception)], "oscore.py:FilesystemSecurityContext._load", case, key="fs-load"))
        elif not admissible and any(loaded):
            res.violate(Violation("overlong-ids-accepted", "refused at load", "loaded", "oscore.py:FilesystemSecurityContext._load", case, key="fs-overlong"))
        elif admissible:
            cl, sv = ctxs
            sv.recipient_replay_window.initialize_empty()
            try:
                outer, rid_cl = cl.protect(Message(code=codes.POST, uri_path=["x"], payload=b"pl"))
                inner, rid_sv = sv.unprotect(wire(outer)[0])
                resp, _ = sv.protect(Message(code=codes.CHANGED, payload=b"re"), rid_sv)
                back, _ = cl.unprotect(wire(resp)[0], rid_cl)
                ok = inner.payload == b"pl" and tuple(inner.opt.uri_path) == ("x",) and back.payload == b"re" and back.code == codes.CHANGED
            except Exception as e:
                ok = False
                back = e
            if not ok:
                res.violate(Violation("roundtrip-raises", "request and response round trip", core.exc_desc(back) if isinstance(back, Exception) else "fields differ",
                                      core.site_of(back) if isinstance(back, Exception) else "oscore.py", case, key="fs-roundtrip"))
        for c in ctxs:
            if not isinstance(c, Exception):
                c.lockfile = None
        res.traces += 1
        res.signatures.add(core.digest(("fs", alg, sidlen, ridlen, idc)))
        res.outcomes.add(core.digest(("fs", admissible)))
    finally:
        try:
            import filelock
            filelock._process_died()
        except Exception:
            pass
        shutil.rmtree(base, ignore_errors=True)


# ------------------------------------------------------------------------------------------ through the transports
# The layer right above protect / unprotect on both sides: the client's OSCORE transport (aiocoap.transports.oscore, which keeps
# the request identifiers for responses, Echo retries and notifications) against the server's site wrapper
# (aiocoap.oscore_sitewrapper), both real, over the virtual network.  What the application gets is what the server's resource
# produced for exactly that request - also after an Echo recovery, for every notification of an observation, and with an
# attacker on the path who swaps the (unauthenticated) tokens and message IDs of two responses.

T_CLI = ("2001:db8::c", 40000)
T_SRV = ("2001:db8::1", 5683)


def transport_run(res, scenario, lost_window, attack, non=False):
    import asyncio
    from ..world import World
    from aiocoap import resource, GET, error
    from aiocoap.credentials import CredentialsMap
    from aiocoap.oscore_sitewrapper import OscoreSiteWrapper
    from aiocoap.transports.oscore import TransportOSCORE, OSCOREAddress
    case = {"family": "transport", "scenario": scenario, "lost_window": lost_window, "attack": attack, "non": non}
    res.evaluations += 1
    w = World()
    try:
        class R(resource.Resource):
            async def render_get(self, request):
                return Message(payload=b"R|" + "&".join(request.opt.uri_query).encode())

        class O(resource.ObservableResource):
            n = 0

            async def render_get(self, request):
                return Message(payload=b"N%d|" % self.n + "&".join(request.opt.uri_query).encode())
        BIG = bytes((i * 7 + 3) & 0xFF for i in range(2500))

        class Guarded(resource.Resource):
            """Serves its (block-wise) representation to requests that came in under the security context only."""

            async def render_get(self, request):
                if not isinstance(request.remote, OSCOREAddress):
                    return Message(code=codes.UNAUTHORIZED)
                return Message(payload=BIG)
        site = resource.Site()
        site.add_resource(["r"], R())
        site.add_resource(["big"], Guarded())
        obs = O()
        site.add_resource(["o"], obs)
        sv = make(b"\x02", b"\x01", None)
        cl = make(b"\x01", b"\x02", None)
        if lost_window:
            sv.recipient_replay_window = o.ReplayWindow(32, lambda: None)      # uninitialised: state lost
            sv.echo_recovery = b"echo-of-this-process"
        used = []       # (key, nonce) of every encryption on either side

        def logged(ctx):
            real = ctx.alg_aead

            class Logged(type(real)):
                def encrypt(self_, plaintext, aad, key, iv):
                    used.append((bytes(key), bytes(iv)))
                    return real.encrypt(plaintext, aad, key, iv)
            Logged.__name__ = type(real).__name__
            ctx.alg_aead = Logged()
        logged(sv)
        logged(cl)
        cm = CredentialsMap()
        cm[":sv"] = sv
        w.add_context("srv", *T_SRV, site=OscoreSiteWrapper(site, cm))
        cli = w.add_context("cli", *T_CLI)
        cli.ctx.request_interfaces.insert(0, TransportOSCORE(cli.ctx, cli.ctx))

        def ask(path, q, observe=False):
            m = Message(code=GET, uri_path=[path], uri_query=["n=%d" % q])
            if non:
                import aiocoap
                m.transport_tuning = aiocoap.Unreliable      # non-confirmable requests go the same way, Echo recovery included
            if observe:
                m.opt.observe = 0
            m.remote = OSCOREAddress(cl, cli.remote(T_SRV))
            return cli.ctx.request(m)

        def pump(limit=60):
            w.loop.settle()
            for _ in range(limit):
                if w.pool:
                    w.deliver(w.pool[0])
                elif w.loop.next_timer() is not None and w.loop.next_timer() < w.loop.time() + 5.0:
                    w.loop.fire_next_timer()
                else:
                    break

        def outcome(f):
            if not f.done():
                return "pending"
            if f.cancelled():
                return "cancelled"
            if f.exception() is not None:
                return "error:" + type(f.exception()).__name__
            return bytes(f.result().payload)
        got, want = {}, {}
        if scenario == "guarded-blockwise":
            # a protected block-wise fetch, then requests for its later blocks from the same address but outside the security
            # context: the block-wise state of the protected exchange is not theirs
            r1 = ask("big", 1)
            pump(200)
            got["protected"] = outcome(r1.response)
            want["protected"] = BIG
            for num in (1, 2):
                m = Message(code=GET, uri_path=["big"], uri_query=["n=1"])
                m.opt.block2 = (num, False, 6)
                m.remote = cli.remote(T_SRV)
                r = cli.ctx.request(m, handle_blockwise=False)
                pump(60)
                o_ = outcome(r.response)
                code = int(r.response.result().code) if r.response.done() and r.response.exception() is None else None
                if code is not None and code < 128 and isinstance(o_, bytes) and o_ and o_ in BIG:
                    res.violate(Violation("protected-state-served-unprotected", "an error (the resource turns unprotected requests down)",
                                          {"code": code, "bytes of the protected representation": len(o_)}, "transports/oscore.py:OSCOREAddress.blockwise_key", case,
                                          key="guarded-blockwise"))
                    break
        elif scenario in ("one", "two-sequential", "two-concurrent"):
            if scenario == "one":
                r1 = ask("r", 1)
                pump()
                got["q1"], want["q1"] = outcome(r1.response), b"R|n=1"
            elif scenario == "two-sequential":
                r1 = ask("r", 1)
                pump()
                r2 = ask("r", 2)
                pump()
                got, want = {"q1": outcome(r1.response), "q2": outcome(r2.response)}, {"q1": b"R|n=1", "q2": b"R|n=2"}
            else:
                r1, r2 = ask("r", 1), ask("r", 2)
                w.loop.settle()
                # both requests reach the server, both responses are on their way back
                for dg in [d for d in w.pool if d.dst == T_SRV]:
                    w.deliver(dg)
                if attack == "swap":
                    back = [d for d in w.pool if d.dst == T_CLI and d.data[1] >= 64]
                    if len(back) == 2:
                        a, b = back
                        tkl_a, tkl_b = a.data[0] & 15, b.data[0] & 15
                        if tkl_a == tkl_b:
                            # token and message ID are outside the protection: the attacker exchanges them
                            ha, hb = a.data[:1] + a.data[1:2] + b.data[2:4 + tkl_b], b.data[:1] + b.data[1:2] + a.data[2:4 + tkl_a]
                            a.data, b.data = ha + a.data[4 + tkl_a:], hb + b.data[4 + tkl_b:]
                pump()
                got = {"q1": outcome(r1.response), "q2": outcome(r2.response)}
                want = {"q1": b"R|n=1", "q2": b"R|n=2"}
                if attack == "swap":
                    # neither request may be handed the other one's answer; how it fails is not this property's subject
                    for k, other in (("q1", b"R|n=2"), ("q2", b"R|n=1")):
                        if got[k] == other:
                            res.violate(Violation("response-bound-to-other-request", "never the answer to the other request", got[k], "transports/oscore.py:_request",
                                                  case, key="swap"))
                    got = want = {}
        else:
            # an observation: the registration, then three notifications
            r1 = ask("o", 1, observe=True)
            seen = []
            errs = []
            r1.observation.register_callback(lambda m: seen.append(bytes(m.payload)))
            r1.observation.register_errback(lambda e: errs.append(type(e).__name__))
            pump()
            for k in (1, 2, 3):
                obs.n = k
                obs.updated_state()
                w.loop.settle()
                pump()
            got = {"first": outcome(r1.response), "notifications": seen, "errors": errs}
            want = {"first": b"N0|n=1", "notifications": [b"N1|n=1", b"N2|n=1", b"N3|n=1"], "errors": []}
        if got != want:
            res.violate(Violation("transport-roundtrip", core.jsonable(want), core.jsonable(got), "transports/oscore.py:_request", case, trace=w.trace[-30:],
                                  key="%s%s%s" % (scenario, ":echo" if lost_window else "", ":non" if non else "")))
        for msg, e in w.loop_exceptions():
            res.violate(Violation("loop-exception", "none", core.exc_desc(e) if e else msg, core.site_of(e) if e else "loop", case,
                                  key="transport:" + (type(e).__name__ if e else msg[:40])))
        # no (key, nonce) pair encrypts twice: each notification after the first has a nonce of its own
        if len(set(used)) != len(used):
            dup = [u for u in used if used.count(u) > 1][0]
            res.violate(Violation("nonce-reused", "every (key, nonce) pair encrypts once", {"nonce": dup[1].hex(), "times": used.count(dup)},
                                  "oscore_sitewrapper.py:render_to_pipe", case, key="transport-nonce"))
        # nothing of the inner messages is on the wire in the clear
        for d in w.sent if scenario != "guarded-blockwise" else ():
            if b"n=1" in d.data or b"n=2" in d.data or b"R|" in d.data or b"|n" in d.data:
                res.violate(Violation("inner-data-on-the-wire", "only the protected form", d.data.hex(), "transports/oscore.py", case, key="transport-leak"))
                break
        res.traces += 1
        res.transitions += len(w.sent)
        res.signatures.add(core.digest(("transport", scenario, lost_window, attack, non)))
        res.states.add(core.digest(("transport", scenario, lost_window, attack, non, core.jsonable(got))))
        res.outcomes.add(core.digest(("transport", core.jsonable(got) == core.jsonable(want))))
    finally:
        w.dispose()


ALGS = ["AES-CCM-16-64-128", "AES-CCM-16-128-128", "AES-CCM-64-64-128", "A128GCM", "ChaCha20/Poly1305",
        # the rest of the AEAD algorithms the library registers (two configurations each in both tiers)
        "AES-CCM-16-64-256", "AES-CCM-64-64-256", "AES-CCM-16-128-256", "AES-CCM-64-128-128", "AES-CCM-64-128-256", "A192GCM", "A256GCM"]
FULL_ALGS = 5     # the first five get the complete ID-length x ID-context x sequence-number grid in the thorough tier


def job(arg):
    kind, item, tier = arg
    res = Result()
    if kind == "roundtrip":
        first = item
        for code in CODES:
            for n in range(0, 3 if tier == "quick" else 4):
                for rest in itertools.combinations(OPTION_ITEMS, n):
                    items = ([first] if first is not None else []) + list(rest)
                    if first is None and n > 0:
                        continue
                    if first is not None and any(OPTION_ITEMS.index(r) <= OPTION_ITEMS.index(first) for r in rest):
                        continue
                    for pl in PAYLOADS if n < 2 else PAYLOADS[:2] if n < 3 else PAYLOADS[1:2]:
                        roundtrip(res, code, items, pl)
        res.sample({"code": "POST", "options": [first[0]] if first else [], "payload_len": 17})
    elif kind == "binding":
        binding(res, False)
        binding(res, True)
        for alg in ALGS:
            echo_challenge(res, alg)
        for nreq in range(1, 13):
            for start in (1, 10):
                crash_binding(res, nreq, start)
        for alg in ALGS:
            maxid = o.algorithms[alg].iv_bytes - 6
            for sl in sorted({0, 1, maxid - 1, maxid, maxid + 1}):
                for rl in sorted({0, 1, maxid, maxid + 1}):
                    if sl >= 0:
                        file_backed(res, alg, sl, rl, None if (sl + rl) % 2 else b"8bytectx")
        for scenario in ("one", "two-sequential", "two-concurrent", "observe", "guarded-blockwise"):
            for lost in (False, True):
                for attack in (None, "swap") if scenario == "two-concurrent" else (None,):
                    transport_run(res, scenario, lost, attack)
                    if attack is None:
                        transport_run(res, scenario, lost, attack, non=True)
        for order in itertools.permutations(range(len(IDCS))):
            for sent in IDCS + (b"unknown!",):
                context_selection(res, order, sent)
        for n in (1, 2, 3):
            for order in itertools.permutations(range(len(IDCS)), n):
                for sent in IDCS:
                    context_selection(res, order, sent)
        # every algorithm sees at least one complete tampering pass, also in the quick tier
        for alg in ALGS[1:]:
            maxid = o.algorithms[alg].iv_bytes - 6
            tamper(res, 1, min(2, maxid), None, alg, 1, full=False)
            tamper(res, 0, 1, b"8bytectx", alg, 256, full=False)
        res.sample({"pairing": "response i against request j, all 9"})
    elif kind == "tamper":
        sidlen = item
        algs = ALGS[:FULL_ALGS] if tier == "thorough" else ALGS[:1]
        for alg in algs:
            maxid = o.algorithms[alg].iv_bytes - 6
            for ridlen in range(0, min(7, maxid) + 1):
                if sidlen > maxid:
                    continue
                for idc in (None, b"", b"8bytectx"):
                    for ssn in SSNS if (tier == "thorough" or ridlen in (0, 1, 7)) else SSNS[::4]:
                        tamper(res, sidlen, ridlen, idc, alg, ssn, full=(tier == "thorough" or (ridlen <= 1 and ssn in (0, 256))))
        res.sample({"sender_id_len": sidlen, "recipient_id_len": "0..7", "id_context": [None, "", "8bytectx"], "ssn": SSNS})
    return res


def run(tier, seed, jobs):
    import shimtest
    shimtest.run()
    pre = Result()
    for tid, msg in shimtest.run_vectors():
        pre.violate(Violation("rfc8613-appendix-c-vector", "published bytes", msg, "oscore.py", {"family": "vectors", "test": tid}, key=tid.split(".")[-1]))
    pre.evaluations += 9
    work = [("roundtrip", it, tier) for it in [None] + OPTION_ITEMS]
    work.append(("binding", None, tier))
    work += [("tamper", n, tier) for n in range(0, 8)]
    res = core.prun(job, work, jobs)
    res.merge(pre)
    res.scenarios["space"] = {"option_items": len(OPTION_ITEMS), "codes": len(CODES), "ssns": len(SSNS), "algorithms_full_grid": FULL_ALGS if tier == "thorough" else 1, "algorithms": len(ALGS)}
    return res


def replay(case, scenario, seed):
    res = Result()
    fam = case.get("family")
    if fam == "vectors":
        import shimtest
        return [Violation("rfc8613-appendix-c-vector", "published bytes", m, "oscore.py", case) for t, m in shimtest.run_vectors()]
    if fam == "roundtrip":
        items = [next(it for it in OPTION_ITEMS if it[0] == n and core.jsonable(it[1]) == core.jsonable(v)) for n, v in case["options"]]
        roundtrip(res, codes.Code(case["code"]), items, case["payload"])
    elif fam == "binding":
        binding(res, case["own_piv"])
    elif fam == "echo-challenge":
        echo_challenge(res, case["alg"])
    elif fam == "file-backed":
        file_backed(res, case["alg"], case["sidlen"], case["ridlen"], case["idc"])
    elif fam == "transport":
        transport_run(res, case["scenario"], case["lost_window"], case["attack"], case.get("non", False))
    elif fam == "context-selection":
        context_selection(res, tuple(case["order"]), case["sent_idc"])
    elif fam == "crash-binding":
        crash_binding(res, case["requests"], case["chunk_start"])
    else:
        tamper(res, len(case["sid"]), len(case["rid"]), case["idc"], case["alg"], case["ssn"], True)
    return [v for v, n in res.violations.values()]
