"""C18 - shutdown at any moment fails pending work and leaves nothing running.

E2 with Context.shutdown() as the deviation: it is started after every step of the default run of each busy scenario
(and, at K=2, after every step of every one-deviation run); the world is then drained: shutdown task to completion, every
remaining timer up to EXCHANGE_LIFETIME + 60 s, the bystander context's traffic."""

import asyncio

from .. import core, refcodec as rc
from ..core import Violation
from ..explore import explore_schedules, replay_schedule
from ..netscn import NetScenario, RefServer
from ..refpeer import RefBlockServer, Notifier
from ..world import World, Peer

from aiocoap import Message, GET, PUT, NON, CON, error, resource

PROP = "C18"
LEVEL = "model_checking"
RULE = ("E2: Context.shutdown() injected after every step of the default run (K=1) and of every one-deviation run (K=2; drop, "
        "duplicate, reorder) of eighteen busy scenarios (one next to a second bystander that is a server with a running handler and an observer; one with CON notifications acknowledged late; among them an observation whose iterating consumer task has been cancelled, an observation whose first notification is block-wise and observations whose "
        "consumer subscribes only after the shutdown), plain and with the loop stalling for 0.15 s / 3.5 s after the 1st..6th loop iteration "
        "of the shutdown (timers due in between run late), plain also with a request submitted by another task after the 1st..4th loop iteration of the shutdown with the application cancelling what it waits for in the same step, with a datagram of the peer (new request / response to nothing / acknowledgement of the last confirmable message) becoming readable before the first and after the 1st..3rd loop iteration of the shutdown, with the shutdown beginning in the loop pass in which the next datagram is read, with one more request submitted in the very step that starts the shutdown; a handler whose clean-up after the cancellation outlasts the time-out; followed by a full drain; distinct = distinct schedule")
ASSUMPTIONS = [
    "SHUTDOWN_TIMEOUT = 3 s (numbers/constants.py documentation); EXCHANGE_LIFETIME = 247 s",
    "the bystander context lives in the same loop and talks to its own peer",
]

V = ("2001:db8::a", 5683)        # the context that is shut down
PEER = ("2001:db8::1", 5683)     # its peer (server or client role)
OCTX = ("2001:db8::b", 40000)    # bystander context
OSRV = ("2001:db8::2", 5683)     # bystander's server

SCENARIOS = ("await-ack", "await-separate", "bw-up", "bw-down", "obs-client", "obs-server", "backlog", "slow-handler", "slow-twice", "dedup-alive",
             "obs-client-bw", "obs-client-late", "obs-client-late-plain", "obs-client-iter-gone", "obs-server-lateack", "bystander-server", "victim-serves-bystander",
             "slow-handler-cleanup")
BSRV = ("2001:db8::b5", 5683)     # a second bystander: a *server* context with a handler running and an observer registered
BPEER = ("2001:db8::b6", 40000)
STALLS = [(j, dt) for j in (1, 2, 3, 4, 6) for dt in (0.15, 3.5)]   # the loop stalls for dt seconds after the j-th iteration of the shutdown


class LateServer(RefServer):
    """Ignores the first copy of every request (so the exchange spans the run), then answers piggybacked."""

    def on_message(self, src, msg, dg):
        if 1 <= msg[1] < 32:
            key = ("first", src, msg[2])
            if key not in self.seen:
                self.seen[key] = True
                return
        super().on_message(src, msg, dg)


class AckOnly(Peer):
    """ACKs requests with an empty ACK and never sends the separate response."""

    def on_message(self, src, msg, dg):
        if msg[0] == rc.CON and 1 <= msg[1] < 32:
            self.send(src, (rc.ACK, 0, msg[2], b"", [], b""))


class RawClient(Peer):
    """Client-role peer: sends what the script says; ACKs CON responses."""

    def on_message(self, src, msg, dg):
        if msg[0] == rc.CON and msg[1] >= 64:
            self.send(src, (rc.ACK, 0, msg[2], b"", [], b""))


class ObsBlockServer(Peer):
    """An observable resource whose 40-byte representation goes out in 16-byte blocks: the registration is answered with block 0
    (Observe 1, more to come); the rest is fetched by plain Block2 requests."""
    REP = bytes(range(40))

    def on_message(self, src, msg, dg):
        mtype, code, mid, token, options, payload = msg
        if mtype == rc.CON and code >= 64:
            return self.send(src, (rc.ACK, 0, mid, b"", [], b""))
        if not (1 <= code < 32):
            return
        b2 = rc.opt(options, 23)
        num = rc.unblock(b2)[0] if b2 is not None else 0
        chunk = self.REP[num * 16:(num + 1) * 16]
        more = (num + 1) * 16 < len(self.REP)
        opts = [(4, b"E1"), (23, rc.block(num, more, 0))]
        if rc.opt(options, 6) is not None and num == 0:
            opts.append((6, rc.uint(1)))
        m = (rc.ACK if mtype == rc.CON else rc.NON, 69, mid if mtype == rc.CON else self.mid(), token, rc.sorted_options(opts), chunk)
        self.send(src, m)


class ShutScenario(NetScenario):
    names = {V: "V", PEER: "peer", OCTX: "O", OSRV: "osrv", BSRV: "B", BPEER: "bpeer"}
    menu = ("drop", "dup", "reorder")
    horizon = 320.0
    max_steps = 160

    def __init__(self, kind, K, stalls=False):
        self.name = "S-SHUT-" + kind + ("+stall" if stalls else "")
        self.kind = kind
        self.K = K
        self.stalls = stalls
        self.params = {"kind": kind, "stalls": stalls}

    def build(self, st):
        kind = self.kind
        w = st.world = World()
        st.futs = []          # (name, future) of the victim context
        st.obs_events = []    # errbacks of client observations
        st.handler_log = []
        st.shut_at = None
        st.shut_done_at = None
        st.shut_task = None
        st.post = None
        st.sent_at_return = None
        # --- the victim
        site = None
        if kind in ("obs-server", "slow-handler", "slow-twice", "dedup-alive", "obs-server-lateack", "victim-serves-bystander", "slow-handler-cleanup"):
            site = resource.Site()
            cleanup = 7.0 if kind == "slow-handler-cleanup" else 0      # a handler whose own clean-up after the cancellation takes its time

            class Slow(resource.Resource):
                async def render_get(self, request):
                    st.handler_log.append("start")
                    try:
                        await asyncio.sleep(0.5)
                    except asyncio.CancelledError:
                        st.handler_log.append("cancelled")
                        if cleanup:
                            await asyncio.sleep(cleanup)      # the shutdown does not wait for this beyond its time-out
                        raise
                    st.handler_log.append("done")
                    return Message(payload=b"slow")

            class Fast(resource.Resource):
                async def render_get(self, request):
                    return Message(payload=b"fast")

            class Ob(resource.ObservableResource):
                async def render_get(self, request):
                    return Message(payload=b"o")
            st.ob = Ob()
            site.add_resource(["slow"], Slow())
            site.add_resource(["fast"], Fast())
            site.add_resource(["obs"], st.ob)
        st.v = w.add_context("V", *V, site=site)
        # --- peers of the victim
        if kind in ("await-ack", "backlog", "bystander-server"):
            w.add_peer(Peer("peer", *PEER))
        elif kind == "obs-server-lateack":
            st.raw = w.add_peer(Peer("peer", *PEER))      # acknowledges nothing by itself
        elif kind == "await-separate":
            w.add_peer(AckOnly("peer", *PEER))
        elif kind == "bw-up":
            w.add_peer(RefBlockServer("peer", *PEER, representation=b"ok", szx=0))
        elif kind == "bw-down":
            w.add_peer(RefBlockServer("peer", *PEER, representation=bytes(range(70)), szx=0))
        elif kind in ("obs-client", "obs-client-late", "obs-client-late-plain", "obs-client-iter-gone"):
            st.notifier = w.add_peer(Notifier("peer", *PEER))
        elif kind == "obs-client-bw":
            w.add_peer(ObsBlockServer("peer", *PEER))
        else:
            st.raw = w.add_peer(RawClient("peer", *PEER))
        # --- bystander
        st.o = w.add_context("O", *OCTX)
        w.add_peer(LateServer("osrv", *OSRV))
        st.b = None
        if kind == "bystander-server":
            bsite = resource.Site()
            st.b_log = []

            class BSlow(resource.Resource):
                async def render_get(self, request):
                    st.b_log.append("start")
                    try:
                        await asyncio.sleep(0.5)
                    except asyncio.CancelledError:
                        st.b_log.append("cancelled")
                        raise
                    st.b_log.append("done")
                    return Message(payload=b"bslow")

            st.b_observers = [0]

            class BOb(resource.ObservableResource):
                async def render_get(self, request):
                    return Message(payload=b"bo")

                def update_observation_count(self, newcount):
                    st.b_observers[0] = newcount
            st.bob = BOb()
            bsite.add_resource(["slow"], BSlow())
            bsite.add_resource(["obs"], st.bob)
            st.b = w.add_context("B", *BSRV, site=bsite)
            w.add_peer(RawClient("bpeer", *BPEER))

        def req(ctx, remote, **kw):
            m = Message(**kw)
            m.remote = ctx.remote(remote)
            return m

        def start(st):
            st.o_to_v = None
            if kind == "victim-serves-bystander":
                # the bystander is a client of the victim as well: that exchange comes first in its books, the one with its own
                # server second; when the victim has gone the bystander is told so (ICMP), which concerns the first exchange only
                st.o_to_v = st.o.ctx.request(req(st.o, V, code=GET, uri_path=["slow"]), handle_blockwise=False).response
            st.ofut = st.o.ctx.request(req(st.o, OSRV, code=GET, uri_path=["by"]), handle_blockwise=False).response
            if kind == "bystander-server":
                st.world.emit(BPEER, BSRV, rc.encode((rc.CON, 1, 0x6001, b"\x21", [(11, b"slow")], b"")))
                st.world.emit(BPEER, BSRV, rc.encode((rc.NON, 1, 0x6002, b"\x22", [(6, b""), (11, b"obs")], b"")))
            if kind in ("await-ack", "await-separate", "bystander-server"):
                st.futs.append(("r", st.v.ctx.request(req(st.v, PEER, code=GET, uri_path=["x"]), handle_blockwise=False).response))
            elif kind == "backlog":
                for i in range(3):
                    st.futs.append(("r%d" % i, st.v.ctx.request(req(st.v, PEER, code=GET, uri_path=["x%d" % i]), handle_blockwise=False).response))
            elif kind == "bw-up":
                st.futs.append(("put", st.v.ctx.request(req(st.v, PEER, code=PUT, uri_path=["x"], payload=bytes(range(60)))).response))
            elif kind == "bw-down":
                st.futs.append(("get", st.v.ctx.request(req(st.v, PEER, code=GET, uri_path=["x"])).response))
            elif kind in ("obs-client", "obs-client-bw"):
                r = st.v.ctx.request(req(st.v, PEER, code=GET, uri_path=["o"], observe=0))
                st.futs.append(("obs-first", r.response))
                st.obsreq = r
                r.observation.register_errback(lambda e: st.obs_events.append(e))
                r.observation.register_callback(lambda m: None)
            elif kind == "obs-client-iter-gone":
                # the application consumes the observation in a task of its own - and cancels that task later on
                r = st.v.ctx.request(req(st.v, PEER, code=GET, uri_path=["o"], observe=0), handle_blockwise=False)
                st.futs.append(("obs-first", r.response))
                st.obsreq = r

                async def consume():
                    async for _ in r.observation:
                        pass
                st.consumer = st.world.loop.create_task(consume())
            elif kind in ("obs-client-late", "obs-client-late-plain"):
                # the application awaits the first response and only then (here: after the shutdown) turns to the observation
                r = st.v.ctx.request(req(st.v, PEER, code=GET, uri_path=["o"], observe=0), **({"handle_blockwise": False} if kind.endswith("plain") else {}))
                st.futs.append(("obs-first", r.response))
                st.obsreq = r
            elif kind in ("obs-server", "obs-server-lateack"):
                st.world.emit(PEER, V, rc.encode((rc.CON, 1, 0x5001, b"\x0b", [(6, b""), (11, b"obs")], b"")))
            elif kind in ("slow-handler", "slow-twice", "slow-handler-cleanup"):
                st.world.emit(PEER, V, rc.encode((rc.CON, 1, 0x5001, b"\x0b", [(11, b"slow")], b"")))
            elif kind == "dedup-alive":
                st.world.emit(PEER, V, rc.encode((rc.CON, 1, 0x5001, b"\x0b", [(11, b"fast")], b"")))
        st.script.append(("start", start))
        if kind == "obs-client-iter-gone":
            st.script.append(("first response", lambda st: st.notifier.first_response(1, b"v1")))
            st.script.append(("notify", lambda st: st.notifier.notify(2, b"v2", con=True)))
            st.script.append(("consumer cancelled", lambda st: st.consumer.cancel()))
            st.script.append(("notify", lambda st: st.notifier.notify(3, b"v3", con=False)))
        if kind in ("obs-client", "obs-client-late", "obs-client-late-plain"):
            st.script.append(("first response", lambda st: st.notifier.first_response(1, b"v1")))
            st.script.append(("notify", lambda st: st.notifier.notify(2, b"v2", con=True)))
            st.script.append(("notify", lambda st: st.notifier.notify(3, b"v3", con=False)))
        if kind == "slow-twice":
            # the peer gives up on the first request and re-uses its token for a new one while the first handler still runs
            st.script.append(("same token again", lambda st: st.world.emit(PEER, V, rc.encode((rc.CON, 1, 0x5002, b"\x0b", [(11, b"slow")], b"")))))
        if kind == "obs-server":
            st.script.append(("change", lambda st: st.ob.updated_state()))
            st.script.append(("change", lambda st: st.ob.updated_state()))
        if kind == "obs-server-lateack":
            # CON notifications (the registration was CON) that the observer acknowledges late: the second waits behind the first,
            # goes out when that is acknowledged, and is itself left unacknowledged
            def ack_oldest(st):
                mids = []
                for d in st.world.sent:
                    if d.src == V and d.dst == PEER and d.data[0] & 0x30 == 0x00 and d.data[1] >= 64:
                        mid = (d.data[2] << 8) | d.data[3]
                        if mid not in mids:
                            mids.append(mid)
                todo = [m_ for m_ in mids if m_ not in st.acked]
                if todo:
                    st.acked.add(todo[0])
                    st.world.emit(PEER, V, rc.encode((rc.ACK, 0, todo[0], b"", [], b"")))
            st.acked = set()
            st.script.append(("change", lambda st: st.ob.updated_state()))
            st.script.append(("change", lambda st: st.ob.updated_state()))
            st.script.append(("ack oldest", ack_oldest))
            st.script.append(("change", lambda st: st.ob.updated_state()))
            st.script.append(("ack oldest", ack_oldest))

    # -- shutdown is the fault
    def faults(self, st):
        if st.shut_at is None and st.script_pos > 0:
            return [("shutdown", 1)] + ([("shutdown/stall%d/%s" % (j, dt), 1) for j, dt in STALLS] if self.stalls else
                                        [("shutdown/req%d" % j, 1) for j in (1, 2, 3, 4)] + [("shutdown/withdrawn", 1)] +
                                        [("shutdown/dgram%d/%s" % (j, k), 1) for j in (0, 1, 2, 3) for k in ("creq", "cresp", "ack")] + [("shutdown/same-step", 1)] +
                                        ([("shutdown/with-delivery", 1)] if st.world.pool and st.world.pool[0].dst == V else []))
        return []

    def apply_fault(self, st, label):
        w = st.world
        st.shut_at = w.loop.time()
        st.pending_at_shut = [(n, f) for n, f in st.futs if not f.done()]
        st.obs_alive_at_shut = self.kind.startswith("obs-client") and not st.obsreq.observation.cancelled
        st.handler_running = st.handler_log.count("start") - st.handler_log.count("done") - st.handler_log.count("cancelled")
        st.cancelled_before = st.handler_log.count("cancelled")
        # an application that re-issues a request the moment the outstanding one fails (lands inside the shutdown window)
        st.retries = []

        def retry(f, n=[0]):
            if n[0] < 3:
                n[0] += 1
                m = Message(code=GET, uri_path=["retry"])
                m.remote = st.v.remote(PEER)
                st.retries.append(st.v.ctx.request(m, handle_blockwise=False).response)
        for n, f in st.pending_at_shut:
            f.add_done_callback(retry)
        if label.endswith("/with-delivery"):
            # the shutdown is started in the very loop pass in which the next datagram for the victim is read (whatever reading it
            # has only scheduled runs after the shutdown has begun)
            dg = w.pool[0]

            def start():
                # (what the datagram itself has settled by now was not pending when the shutdown began)
                st.pending_at_shut = [(n, f) for n, f in st.futs if not f.done()]
                st.obs_alive_at_shut = self.kind.startswith("obs-client") and not st.obsreq.observation.cancelled
                st.handler_running = st.handler_log.count("start") - st.handler_log.count("done") - st.handler_log.count("cancelled")
                st.cancelled_before = st.handler_log.count("cancelled")
                for n, f in st.pending_at_shut:
                    f.add_done_callback(retry)
                st.shut_task = w.loop.create_task(st.v.ctx.shutdown())
            w.same_pass.append((lambda d, dg=dg: d is dg, start))
            st.answer_in_flight = True
            w.deliver(dg)
        elif label.endswith("/same-step"):
            # the application submits one more request and shuts down in the very same step of its task (`ctx.request(m); await
            # ctx.shutdown()`): the request has not even been handed to a transport yet - it ends with a library error like the others
            async def app():
                m = Message(code=GET, uri_path=["last-minute"])
                m.remote = st.v.remote(PEER)
                st.retries.append(st.v.ctx.request(m, handle_blockwise=False).response)
                await st.v.ctx.shutdown()
            st.shut_task = w.loop.create_task(app())
        else:
            st.shut_task = w.loop.create_task(st.v.ctx.shutdown())
        if label.endswith("/withdrawn"):
            # the application gives up on everything it is waiting for and shuts down in the same breath (`f.cancel(); await
            # ctx.shutdown()` in one task step: the shutdown starts before the futures' done-callbacks have run).  What it has
            # given up is no longer outstanding; the shutdown has to complete all the same.
            for n, f in st.pending_at_shut:
                f.cancel()
            st.pending_at_shut = []
            st.obs_alive_at_shut = False
        if "/req" in label:
            # another task of the application submits a request while the shutdown is under way (after its j-th loop iteration)
            for i in range(int(label.split("/req")[1])):
                if w.loop._ready:
                    w.loop._run_once()
            m = Message(code=GET, uri_path=["during"])
            m.remote = st.v.remote(PEER)
            try:
                st.retries.append(st.v.ctx.request(m, handle_blockwise=False).response)
            except error.Error:
                pass       # refusing on the spot is fine as well
        if "/dgram" in label:
            # a datagram of the peer becomes readable while the shutdown is under way (after its j-th loop iteration): a new
            # confirmable request, or a confirmable response to nothing.  Either it is still handled like any other, or it is
            # dropped with the socket - it does not reach managers that are already gone
            _, j, k = label.split("/")
            for i in range(int(j[5:])):
                if w.loop._ready:
                    w.loop._run_once()
            if k == "ack":
                # the acknowledgement of the victim's last confirmable message (whatever it was) arrives now
                cons = [d for d in w.sent if d.src == V and (d.data[0] >> 4) & 3 == rc.CON]
                if cons:
                    w.inject(cons[-1].dst, V, rc.encode((rc.ACK, 0, (cons[-1].data[2] << 8) | cons[-1].data[3], b"", [], b"")))
            elif k == "creq":
                w.inject(PEER, V, rc.encode((rc.CON, 1, 0x7d01, b"\x7d", [(11, b"late-request")], b"")))
            else:
                w.inject(PEER, V, rc.encode((rc.CON, 69, 0x7d02, b"\x7d\x7e", [], b"late-response")))
        if "/stall" in label:
            _, j, dt = label.split("/")
            for i in range(int(j[5:])):
                if w.loop._ready:
                    w.loop._run_once()
            w.loop._vtime += float(dt)      # the loop was kept busy elsewhere: every timer due in between is late
        w.loop.settle()
        # let shutdown itself run (virtual time) up to the time-out
        while not st.shut_task.done() and w.loop.next_timer() is not None and w.loop.next_timer() <= st.shut_at + 3.0 + 1e-9:
            w.loop.fire_next_timer()
        self.after_shutdown_returned(st)

    def after_shutdown_returned(self, st):
        w = st.world
        t = st.shut_task
        if not t.done():
            st.violations.append(Violation("shutdown-does-not-complete", "returns within SHUTDOWN_TIMEOUT (3 s)", "still running",
                                           "protocol.py:Context.shutdown", {}, key="hang"))
            return
        if t.cancelled():
            st.violations.append(Violation("shutdown-raises", "returns", "CancelledError (nobody cancelled the shutdown)",
                                           "protocol.py:Context.shutdown", {}, key="CancelledError"))
        elif t.exception() is not None:
            st.violations.append(Violation("shutdown-raises", "returns", core.exc_desc(t.exception()), core.site_of(t.exception()), {},
                                           key=type(t.exception()).__name__))
        st.shut_done_at = w.loop.time()
        st.sent_at_return = len([d for d in w.sent if d.src == V])
        for n, f in st.pending_at_shut:
            if not f.done():
                st.violations.append(Violation("request-left-pending", "terminated with a library error by the time shutdown returns",
                                               n + " pending", "tokenmanager.py:shutdown", {}, key="pending"))
            elif getattr(st, "answer_in_flight", False) and not f.cancelled() and f.exception() is None:
                pass       # (the datagram read in the pass in which the shutdown began was this request's answer: it got through)
            elif f.cancelled() or not isinstance(f.exception(), error.Error):
                st.violations.append(Violation("request-ended-with-non-library-error", "aiocoap.error.Error",
                                               "cancelled" if f.cancelled() else core.exc_desc(f.exception()) if f.exception() else "result",
                                               "tokenmanager.py:shutdown", {}, key="kind"))
        for f in getattr(st, "retries", []):
            if not f.done():
                st.violations.append(Violation("request-left-pending", "terminated by the time shutdown returns", "retry pending",
                                               "tokenmanager.py:shutdown", {}, key="retry-pending"))
            elif f.cancelled() or not isinstance(f.exception(), error.Error):
                st.violations.append(Violation("request-ended-with-non-library-error", "aiocoap.error.Error",
                                               "cancelled" if f.cancelled() else core.exc_desc(f.exception()) if f.exception() else "result",
                                               "tokenmanager.py:request", {}, key="retry-kind"))
        if st.obs_alive_at_shut and "late" in self.kind:
            # a consumer that subscribes only now still learns how the observation ended: through the errback and the iterator
            ob = st.obsreq.observation
            try:
                ob.register_callback(lambda m: None)
                ob.register_errback(lambda e: st.obs_events.append(e))
            except Exception as e:
                st.violations.append(Violation("late-subscriber", "the library error that ended the observation", core.exc_desc(e),
                                               core.site_of(e), {}, key="register:" + type(e).__name__))

            async def consume():
                async for _ in ob:
                    pass
            ct = w.loop.create_task(consume())
            w.loop.settle()
            if not ct.done():
                ct.cancel()
                w.loop.settle()
                st.violations.append(Violation("late-subscriber", "iteration ends with the library error", "iterator never ends",
                                               "protocol.py:ClientObservation.__aiter__", {}, key="iter-hang"))
            elif ct.exception() is None and not ct.cancelled() and st.obs_events and isinstance(st.obs_events[-1], (error.NotObservable, error.ObservationCancelled)):
                pass    # by design the iterator ends quietly when the observation ended as "not observable (any more)"
            elif ct.cancelled() or not isinstance(ct.exception(), error.Error):
                st.violations.append(Violation("late-subscriber", "iteration ends with a library error",
                                               "cancelled" if ct.cancelled() else core.exc_desc(ct.exception()) if ct.exception() else "ended silently",
                                               "protocol.py:ClientObservation.__aiter__", {}, key="iter-kind"))
        if st.obs_alive_at_shut and self.kind != "obs-client-iter-gone":
            if len(st.obs_events) != 1 or not isinstance(st.obs_events[0], error.Error):
                st.violations.append(Violation("observation-not-terminated", "one errback with a library error",
                                               [core.exc_desc(e) for e in st.obs_events], "protocol.py", {}, key="obs"))
        still = st.handler_log.count("start") - st.handler_log.count("done") - st.handler_log.count("cancelled")
        if still > 0:
            st.violations.append(Violation("handler-not-cancelled", "every running handler has ended or seen CancelledError when shutdown returns",
                                           st.handler_log, "tokenmanager.py:shutdown", {}, key="handler"))
        if st.o_to_v is not None and not st.o_to_v.done():
            import errno
            st.o.receive_error(V, errno.ECONNREFUSED)
            w.loop.settle()
            if not (st.o_to_v.done() and isinstance(st.o_to_v.exception(), error.Error)):
                st.violations.append(Violation("bystander-affected", "the bystander's request to the vanished context fails with a library error",
                                               repr(st.o_to_v), "messagemanager.py:dispatch_error", {}, key="bystander-to-victim"))
        if st.b is not None:
            st.b_sent_at_return = len([d for d in w.sent if d.src == BSRV])
            st.b_expect_note = st.b_observers[0] > 0     # (its observer's registration may have been lost or not have arrived yet)
            st.bob.updated_state()
            w.loop.settle()
        # a request submitted after shutdown fails at once with the shutdown error
        m = Message(code=GET, uri_path=["late"])
        m.remote = st.v.remote(PEER)
        st.post = st.v.ctx.request(m, handle_blockwise=False).response
        w.loop.settle()
        if not (st.post.done() and isinstance(st.post.exception(), error.LibraryShutdown)):
            st.violations.append(Violation("late-request", "fails immediately with LibraryShutdown",
                                           repr(st.post), "tokenmanager.py:request", {}, key="late"))

    def finish(self, st):
        w = st.world
        if st.shut_at is not None and st.shut_done_at is not None:
            late = [d for d in w.sent if d.src == V][st.sent_at_return:]
            if late or st.v.sock.sends_after_close:
                st.violations.append(Violation("transmission-after-shutdown", "nothing sent after shutdown returned",
                                               [repr(d) for d in late] + ["%d attempted sends on the closed socket" % st.v.sock.sends_after_close],
                                               "messagemanager.py", {}, key="tx"))
        for msg, e in w.loop_exceptions():
            st.violations.append(Violation("loop-exception", "none", core.exc_desc(e) if e else msg, core.site_of(e) if e else "loop", {},
                                           key=(type(e).__name__ + "@" + core.site_of(e)) if e else msg[:40]))
        errs = [r for r in w.error_logs() if r.name == "coap-V" and st.shut_done_at is not None]
        # the bystander is unaffected (differential: it always ends the same way)
        f = st.ofut
        if not (f.done() and f.exception() is None and f.result().payload.startswith(b"osrv|by|")):
            st.violations.append(Violation("bystander-affected", "bystander's request completes with its response", repr(f),
                                           "protocol.py", {}, key="bystander"))
        if st.b is not None and st.shut_done_at is not None:
            # the other server context in the process: its handler ran to the end, its observer is still served
            if "cancelled" in st.b_log or st.b_log.count("done") != st.b_log.count("start"):
                st.violations.append(Violation("bystander-affected", "the other context's handler completes", st.b_log, "tokenmanager.py:shutdown", {}, key="bystander-handler"))
            notes = [d for d in w.sent if d.src == BSRV][st.b_sent_at_return:]
            if st.b_expect_note and not any(d.data[1] == 69 and b"bo" in d.data for d in notes):
                st.violations.append(Violation("bystander-affected", "the other context still notifies its observer", [repr(d) for d in notes],
                                               "tokenmanager.py:shutdown", {}, key="bystander-observer"))
        obytes = [(d.src, d.dst, d.data) for d in w.sent if OCTX in (d.src, d.dst)]
        st.bystander_wire = core.digest(obytes)

    def outcome(self, st):
        return (st.shut_at is not None, tuple((n, f.done()) for n, f in st.futs), getattr(st, "bystander_wire", None))


def run(tier, seed, jobs):
    K = 1 if tier == "quick" else 2
    res = explore_schedules([ShutScenario(k, K) for k in SCENARIOS], K, jobs)
    res.merge(explore_schedules([ShutScenario(k, 1, stalls=True) for k in SCENARIOS], 1, jobs))
    if tier == "quick":
        res.merge(explore_schedules([ShutScenario(k, 2) for k in ("slow-handler", "bw-down", "obs-client")], 2, jobs, cap=40000))
    else:
        # one network deviation, then the shutdown with a stall
        res.merge(explore_schedules([ShutScenario(k, 2, stalls=True) for k in SCENARIOS], 2, jobs, cap=20000))
    return res


def replay(case, scenario, seed):
    return replay_schedule(ShutScenario(case["params"]["kind"], 9, case["params"].get("stalls", False)), case["choices"])
