"""C19 - the file server never touches anything outside its root directory.

E1 over Uri-Path lists x methods x write flag x conditional options x Observe against a real FileServer on a scratch
directory, with every file-system access observed through sys.addaudithook plus wrappers around os.stat/os.lstat, and
full before/after snapshots; plus block-by-block fetches of files of boundary sizes."""

import hashlib
import itertools
import mimetypes
import os
import shutil
import sys
import tempfile
from pathlib import Path

from .. import core
from ..core import Result, Violation
from ..seam2 import SiteWorld

from aiocoap import Message, GET, PUT, DELETE, POST, FETCH
from aiocoap.cli.fileserver import FileServer

PROP = "C19"
LEVEL = "exploration"
EXHAUSTIVE = True
RULE = ("E1: complete product of Uri-Path lists (length <= 2 over a 21-component alphabet: '', '.', '..', names, 'a/b', "
        "'../outside.txt', NUL, '~', non-ASCII, compatibility forms of dots and slashes; length 3 with three methods; plus absolute-path lists built from the sandbox's own "
        "location) x {GET, PUT, DELETE, POST, FETCH} x write off/on x {no condition, If-None-Match, If-Match '', If-Match wrong} x "
        "Observe {absent, 0} (If-None-Match also combined with If-Match); two servers with roots of their own in one process; block fetches of files of sizes 0,1,15,16,17,1023,1024,1025,2049 at SZX 0-6 in order and out of order. "
        "distinct = distinct (path shape, method, flags, outcome class)")
ASSUMPTIONS = [
    "file-system accesses are observed through CPython audit events (open, os.listdir/scandir, os.rename, os.remove, os.mkdir, "
    "os.rmdir, os.chmod, os.truncate, tempfile.mkstemp, os.link, os.symlink) and wrappers around os.stat/os.lstat",
    "no symbolic links inside the root (the statement is about what path components contain)",
]

ACTIVE = [False]
TOUCHED = []
_HOOKED = [False]
_EVENTS = ("open", "os.listdir", "os.scandir", "os.rename", "os.remove", "os.mkdir", "os.rmdir", "os.chmod", "os.truncate",
           "tempfile.mkstemp", "os.link", "os.symlink", "os.utime", "shutil.rmtree", "shutil.copyfile", "shutil.move", "os.chown")


GUARD_BASE = [None]     # realpath of the scratch directory: destructive operations outside it are refused, not executed
_PATH_ARGS = {"open": (0,), "os.rename": (0, 1), "os.link": (0, 1), "os.symlink": (0, 1), "shutil.copyfile": (0, 1), "shutil.move": (0, 1)}


def _outside_base(p):
    was = ACTIVE[0]
    ACTIVE[0] = False       # the monitor's own path resolution is not an access of the code under test
    try:
        rp = os.path.realpath(os.fspath(p))
    except (ValueError, OSError, TypeError):
        return False
    finally:
        ACTIVE[0] = was
    b = GUARD_BASE[0]
    return b is not None and not (rp == b or rp.startswith(b + os.sep))


def install_monitor():
    """Audit hook + wrappers.  The wrappers around the destructive os functions also act as a fuse: if the code under
    test is about to create, rename or delete something outside the scratch directory, the access is recorded and
    PermissionError is raised instead of letting it happen to the machine the check runs on."""
    if _HOOKED[0]:
        return
    _HOOKED[0] = True

    def hook(ev, args):
        if ACTIVE[0] and ev in _EVENTS:
            idx = _PATH_ARGS.get(ev, (0,))
            for i in idx:
                if i < len(args) and isinstance(args[i], (str, bytes, os.PathLike)):
                    TOUCHED.append((ev, os.fspath(args[i])))
    sys.addaudithook(hook)
    real_stat, real_lstat = os.stat, os.lstat

    def stat(p, *a, **k):
        if ACTIVE[0] and not isinstance(p, int):
            TOUCHED.append(("os.stat", os.fspath(p)))
        return real_stat(p, *a, **k)

    def lstat(p, *a, **k):
        if ACTIVE[0] and not isinstance(p, int):
            TOUCHED.append(("os.lstat", os.fspath(p)))
        return real_lstat(p, *a, **k)
    os.stat, os.lstat = stat, lstat

    def fuse(name, nargs=1, is_open=False):
        real = getattr(os, name)

        def wrapper(*a, **k):
            if ACTIVE[0]:
                if is_open:
                    flags = a[1] if len(a) > 1 else k.get("flags", 0)
                    writing = flags & (os.O_WRONLY | os.O_RDWR | os.O_CREAT | os.O_TRUNC | os.O_APPEND)
                else:
                    writing = True
                if writing:
                    for x in a[:nargs]:
                        if isinstance(x, (str, bytes, os.PathLike)) and _outside_base(x):
                            TOUCHED.append((name + "(refused)", os.fspath(x)))
                            raise PermissionError(13, "verification fuse: destructive access outside the scratch directory", os.fspath(x))
            return real(*a, **k)
        setattr(os, name, wrapper)
    fuse("open", 1, True)
    for nm in ("unlink", "remove", "rmdir", "mkdir", "truncate", "chmod"):
        fuse(nm, 1)
    for nm in ("rename", "replace", "link", "symlink"):
        fuse(nm, 2)
    mimetypes.init()


SIZES = (0, 1, 15, 16, 17, 1023, 1024, 1025, 2049)


def content(n, salt):
    return bytes((i * 11 + salt + (i >> 7)) & 0xFF for i in range(n))


class Sandbox:
    def __init__(self):
        self.base = Path(tempfile.mkdtemp(prefix="c19-"))
        GUARD_BASE[0] = os.path.realpath(self.base)
        self.root = self.base / "root"
        self.populate()

    def populate(self):
        if self.root.exists():
            shutil.rmtree(self.root)
        for p in (self.base / "outside.txt", self.base / "rootx"):
            if p.is_dir():
                shutil.rmtree(p)
            elif p.exists():
                p.unlink()
        self.root.mkdir()
        (self.root / "f.txt").write_bytes(b"hello file")
        (self.root / "g.bin").write_bytes(content(40, 3))
        (self.root / "sub").mkdir()
        (self.root / "sub" / "h.txt").write_bytes(b"nested")
        (self.root / "a").mkdir()
        (self.base / "outside.txt").write_bytes(b"SECRET-OUTSIDE")
        (self.base / "rootx").mkdir()
        (self.base / "rootx" / "secret").write_bytes(b"SECRET-SIBLING")

    def snapshot(self):
        out = {}
        for dirpath, dirs, files in os.walk(self.base):
            for d in dirs:
                out[os.path.join(dirpath, d)] = "dir"
            for f in files:
                p = os.path.join(dirpath, f)
                with open(p, "rb") as fh:
                    out[p] = hashlib.sha1(fh.read()).hexdigest()
        return out

    def inside(self, p):
        try:
            rp = os.path.realpath(p)
        except (ValueError, OSError):
            return True     # a path the OS refuses to look at touches nothing
        root = os.path.realpath(self.root)
        return rp == root or rp.startswith(root + os.sep)

    def destroy(self):
        shutil.rmtree(self.base, ignore_errors=True)


def leads_outside(root, comps):
    """Independent model: does the joined path name something outside the root?"""
    if any("\x00" in c for c in comps):
        return False     # cannot name anything
    joined = "/".join(comps)
    if joined.startswith("/"):
        target = os.path.normpath(joined)
    else:
        target = os.path.normpath(os.path.join(str(root), joined))
    r = os.path.normpath(str(root))
    return not (target == r or target.startswith(r + "/"))


def one_request(res, sb, sw_holder, write, comps, method, cond, observe, repopulate=True, relative=False):
    key = (write, "rel") if relative else write
    if key not in sw_holder:
        # (relative: the root given the way the command line's default gives it - as "." with the process inside the directory)
        sw_holder[key] = SiteWorld(lambda sw, w=write: FileServer(Path(".") if relative else sb.root, sw.ctx.log.getChild("fs"), write=w))
    sw = sw_holder[key]
    msg = Message(code=method, uri_path=list(comps), payload=b"NEW-CONTENT" if method in (PUT, POST, FETCH) else b"")
    if cond == "inm":
        msg.opt.if_none_match = True
    elif cond == "im-empty":
        msg.opt.if_match = [b""]
    elif cond == "im-wrong":
        msg.opt.if_match = [b"\x01\x02"]
    elif cond == "inm+im-wrong":
        msg.opt.if_none_match = True
        msg.opt.if_match = [b"\x01\x02"]
    elif cond == "inm+im-empty":
        msg.opt.if_none_match = True
        msg.opt.if_match = [b""]
    if observe:
        msg.opt.observe = 0
    before = sb.snapshot()
    del TOUCHED[:]
    ACTIVE[0] = True
    try:
        r = sw.do(msg, 1)
    finally:
        ACTIVE[0] = False
    touched = list(TOUCHED)
    after = sb.snapshot()
    code = int(r.code) if hasattr(r, "code") else -1
    case = {"path": list(comps), "method": int(method), "write": write, "cond": cond, "observe": observe}
    if relative:
        case["relative_root"] = True
    res.evaluations += 1
    outside = sorted({p for ev, p in touched if not sb.inside(p)})
    shape = tuple("abs" if (i == 0 and c == "" and len(comps) > 1) else "empty" if c == "" else "dots" if c in (".", "..") else
                  "slash" if "/" in c else "nul" if "\x00" in c else "name" for i, c in enumerate(comps))
    if outside:
        res.violate(Violation("touched-outside-root", "only objects inside the root", outside[:4], "cli/fileserver.py:request_to_localpath", case,
                              key="%s:%s" % (int(method), "abs" if "abs" in shape else "other")))
    changed = sorted(set(before.items()) ^ set(after.items()))
    # (the root's own directory entry belongs to its parent: making the root disappear is a change outside of it)
    changed_out = [p for p, _ in changed if not sb.inside(p) or os.path.normpath(p) == os.path.normpath(str(sb.root))]
    if changed_out:
        res.violate(Violation("changed-outside-root", "nothing outside the root changes", changed_out[:4], "cli/fileserver.py", case, key="changed-out"))
    if not write and changed:
        res.violate(Violation("modified-without-write-permission", "no change", [p for p, _ in changed][:4], "cli/fileserver.py", case, key="ro-change"))
    if leads_outside(sb.root, comps):
        if code < 128 or changed:
            res.violate(Violation("outside-request-not-refused", "4.xx/5.xx and no effect", {"code": code, "changed": len(changed)},
                                  "cli/fileserver.py:request_to_localpath", case, key="%s:%s" % (int(method), code >> 5)))
    elif code >= 128 and changed:
        # "answered with an error response and has no effect": whatever made the server refuse (a name it cannot use, a failed
        # condition), the tree it serves is as it was - no half-written or left-over files either
        res.violate(Violation("refused-request-has-effect", "an error response leaves the served tree unchanged",
                              {"code": code, "changed": [os.path.basename(p)[:3] + "*" for p, _ in changed][:4]},
                              "cli/fileserver.py:render_put", case, key="%s:%s:%s" % (int(method), code >> 5, "nul" if "nul" in shape else "other")))
    for m, e in sw.loop_exceptions():
        res.violate(Violation("loop-exception", "none", core.exc_desc(e) if e else m, core.site_of(e) if e else "loop", case,
                              key=type(e).__name__ if e else m[:40]))
    sw.loop.exc.clear()
    res.signatures.add((shape, int(method), write, cond, observe, code >> 5, bool(changed)))
    res.outcomes.add((code, bool(changed)))
    if changed and repopulate:
        sb.populate()
        for k in list(sw_holder):      # the servers hold observation state keyed by path objects: start afresh
            sw_holder.pop(k).dispose()


ALPHA = ["", ".", "..", "a", "sub", "f.txt", "h.txt", "a/b", "../outside.txt", "\x00", "f.txt\x00", "~", "ö", "%2e%2e", "..%2foutside.txt",
         # (EXTRA, with three methods and write access:) characters that compatibility normalisation folds into dots and slashes (U+2025, U+2024 twice, U+FF0E twice, U+FF0F), and
         # the names they would lead to next to the root
         ]
EXTRA = ["\u2025", "\u2024\u2024", "\uff0e\uff0e", "\u2025\uff0foutside.txt", "outside.txt", "rootx"]
METHODS = (GET, PUT, DELETE, POST, FETCH)
CONDS = ("none", "inm", "im-empty", "im-wrong", "inm+im-wrong", "inm+im-empty")


def job(arg):
    kind, items, tier = arg
    install_monitor()
    res = Result()
    sb = Sandbox()
    holder = {}
    try:
        if kind == "paths":
            for comps in items:
                for method in METHODS:
                    for write in (False, True):
                        for cond in CONDS:
                            for obs in (False, True):
                                one_request(res, sb, holder, write, comps, method, cond, obs)
            res.sample({"path": list(items[-1]), "method": "GET/PUT/DELETE/POST/FETCH", "write": [False, True], "cond": list(CONDS)})
        elif kind == "paths3":
            for comps in items:
                for method in (GET, PUT, DELETE):
                    one_request(res, sb, holder, True, comps, method, "none", False)
        elif kind == "abs":
            base = [c for c in str(sb.base).split("/") if c]
            specials = [[""] + base + ["outside.txt"], [""] + base + ["rootx", "secret"], [""] + base + [""], ["", ""],
                        [""] + base + ["new-outside.txt"], [""] + base + ["rootx", ""], [""] + base + ["root", "f.txt"], ["sub", "", "h.txt"], ["", "sub", "h.txt"]]
            for comps in specials:
                for method in METHODS:
                    for write in (False, True):
                        for cond in CONDS:
                            for obs in (False, True):
                                one_request(res, sb, holder, write, comps, method, cond, obs)
            res.sample({"path": ["", "<sandbox components>", "outside.txt"], "method": "all"})
        elif kind == "blocks":
            blocks(res, sb, holder)
            concurrent_blocks(res, sb, holder)
            two_roots(res, sb)
        elif kind == "histories":
            relative_root(res, sb, holder)
            emptied_tree(res, sb, holder)
            replaced_between_fetches(res, sb, holder)
    finally:
        for sw in holder.values():
            sw.dispose()
        sb.destroy()
    return res


def relative_root(res, sb, holder):
    """The served directory given as "." (the command line's default), the process's home directory elsewhere: path components
    that a shell would expand (~, ~user) are names like any other."""
    home = sb.base / "home"
    home.mkdir(exist_ok=True)
    (home / "secret.txt").write_bytes(b"SECRET-HOME")
    old_cwd, old_home = os.getcwd(), os.environ.get("HOME")
    os.environ["HOME"] = str(home)
    os.chdir(sb.root)
    try:
        small = ["~", "~root", "~nobody", "secret.txt", "f.txt", "sub", "", "..", "new.txt"]
        for n in (1, 2):
            for comps in itertools.product(small, repeat=n):
                for method in (GET, PUT, DELETE):
                    for write in (False, True):
                        one_request(res, sb, holder, write, list(comps), method, "none", False, relative=True)
                        os.chdir(sb.root)       # (the tree may have been set up afresh: step into the new directory)
                        if not (home / "secret.txt").exists():
                            (home / "secret.txt").write_bytes(b"SECRET-HOME")
    finally:
        os.chdir(old_cwd)
        if old_home is None:
            os.environ.pop("HOME", None)
        else:
            os.environ["HOME"] = old_home
        for k in [k for k in holder if isinstance(k, tuple)]:
            holder.pop(k).dispose()
    res.sample({"relative_root": 'FileServer(Path(".")) with HOME elsewhere; components ~, ~root, ...'})


def emptied_tree(res, sb, holder):
    """Histories that clean the tree out file by file through the server; then every spelling of the root and of the (now empty)
    directories is asked to be deleted, replaced and fetched: the directory the server was started with stays, whatever is in it."""
    small = ["", ".", "..", "sub", "a"]
    spellings = [p for n in range(0, 3) for p in itertools.product(small, repeat=n)]
    # ... also with the file deepest in the tree going last, when its directory is all that is left in the root
    sb.populate()
    for k in list(holder):
        holder.pop(k).dispose()
    (sb.root / "a").rmdir()
    for path in (["f.txt"], ["g.bin"], ["sub", "h.txt"]):
        one_request(res, sb, holder, True, path, DELETE, "none", False, repopulate=False)
        if not sb.root.is_dir():
            res.violate(Violation("changed-outside-root", "the served directory itself stays", "it is gone after DELETE %s" % "/".join(path),
                                  "cli/fileserver.py:render_delete", {"emptied": ["deepest-last"], "path": path}, key="root-gone"))
            break
    for keep_dirs in (True, False):
        for comps in spellings:
            for method in (DELETE, PUT, GET):
                sb.populate()
                for k in list(holder):
                    holder.pop(k).dispose()
                # the history: every file is deleted through the server
                for path in (["f.txt"], ["g.bin"], ["sub", "h.txt"]):
                    one_request(res, sb, holder, True, path, DELETE, "none", False, repopulate=False)
                leftover = sorted(p.name for p in sb.root.rglob("*") if p.is_file())
                if leftover:
                    res.violate(Violation("delete-refused", "files inside the root can be deleted", leftover, "cli/fileserver.py:render_delete",
                                          {"emptied": True}, key="emptying"))
                    return
                if not sb.root.is_dir():
                    res.violate(Violation("changed-outside-root", "the served directory itself stays", "it is gone after the files were deleted",
                                          "cli/fileserver.py:render_delete", {"emptied": [keep_dirs], "path": ["sub", "h.txt"]}, key="root-gone"))
                    continue
                if not keep_dirs:
                    for dn in ("sub", "a"):
                        if (sb.root / dn).is_dir():
                            (sb.root / dn).rmdir()
                one_request(res, sb, holder, True, list(comps), method, "none", False, repopulate=False)
                if not sb.root.is_dir():
                    res.violate(Violation("changed-outside-root", "the served directory itself stays", "it is gone", "cli/fileserver.py:render_delete",
                                          {"path": list(comps), "method": int(method), "write": True, "cond": "none", "observe": False, "emptied": [keep_dirs]},
                                          key="root-gone"))
                    sb.populate()
    res.sample({"emptied_tree": "DELETE f.txt, g.bin, sub/h.txt; then DELETE/PUT/GET on every spelling"})


def replaced_between_fetches(res, sb, holder):
    """A block-wise fetch that stops part of the way, a replacement of the file through the server (PUT, or DELETE and PUT), another
    fetch: what is fetched is what the file contains now."""
    for k in list(holder):
        holder.pop(k).dispose()
    sw = holder.setdefault("rw", SiteWorld(lambda sw: FileServer(sb.root, sw.ctx.log.getChild("fs"), write=True)))
    for n_old, n_new in ((100, 100), (100, 40), (40, 100), (1025, 1025), (17, 16)):
        for first_blocks in (0, 1, 2):
            for how in ("put", "delete+put"):
                for szx2 in (0, 2, 6):
                    name = "r%d-%d-%d-%s-%d.bin" % (n_old, n_new, first_blocks, how, szx2)
                    old, new = content(n_old, 5), content(n_new, 77)
                    (sb.root / name).write_bytes(old)
                    for num in range(first_blocks):
                        msg = Message(code=GET, uri_path=[name])
                        msg.opt.block2 = (num, False, 0)
                        sw.do(msg, 1)
                    if how == "delete+put":
                        sw.do(Message(code=DELETE, uri_path=[name]), 1)
                    r = sw.do(Message(code=PUT, uri_path=[name], payload=new), 1)
                    case = {"replaced": [n_old, n_new, first_blocks, how, szx2]}
                    res.evaluations += 1
                    if int(r.code) >= 128 or (sb.root / name).read_bytes() != new:
                        res.violate(Violation("replace-refused", "PUT replaces the file", repr(r), "cli/fileserver.py:render_put", case, key="replace"))
                        continue
                    size = 1 << (szx2 + 4)
                    got = b""
                    for num in range(max(1, -(-n_new // size))):
                        msg = Message(code=GET, uri_path=[name])
                        msg.opt.block2 = (num, False, szx2)
                        got += bytes(sw.do(msg, 1).payload)
                    plain = bytes(sw.do(Message(code=GET, uri_path=[name], block2=(0, False, 6)), 1).payload)
                    if got != new or plain != new[:1024]:
                        res.violate(Violation("block-fetch", "the file's content as it is now (%d bytes)" % n_new,
                                              {"len": len(got), "is_old_content": got == old or plain == old[:1024]}, "cli/fileserver.py:render_get_file", case,
                                              key="stale-after-replace"))
                    res.signatures.add(("repl", n_old, n_new, first_blocks, how, szx2))
                    res.outcomes.add(("repl", got == new))
    res.sample({"replaced_between_fetches": "GET blocks 0..k-1, PUT (or DELETE+PUT), fetch again"})


def two_roots(res, sb):
    """Two file servers in one process, each with a root of its own: whatever the one has served before, the other one stays inside
    its own directory (a read-only server's tree is never changed through the writable one)."""
    rootb = sb.base / "rootb"
    if rootb.exists():
        shutil.rmtree(rootb)
    rootb.mkdir()
    (rootb / "f.txt").write_bytes(b"B's file")
    (rootb / "sub").mkdir()
    (rootb / "sub" / "h.txt").write_bytes(b"B's nested")
    a = SiteWorld(lambda sw: FileServer(sb.root, sw.ctx.log.getChild("fsa"), write=False))
    b = SiteWorld(lambda sw: FileServer(rootb, sw.ctx.log.getChild("fsb"), write=True))
    try:
        def inside_b(p):
            try:
                rp = os.path.realpath(p)
            except (ValueError, OSError):
                return True
            r = os.path.realpath(rootb)
            return rp == r or rp.startswith(r + os.sep)
        paths = (["f.txt"], ["sub", "h.txt"], ["sub", ""], [""], ["new.txt"], ["g.bin"])
        for first in ("a", "b"):
            for comps in paths:
                for method in (GET, PUT, DELETE):
                    snap_a = {k: v for k, v in sb.snapshot().items() if sb.inside(k)}
                    order = (a, b) if first == "a" else (b, a)
                    for sw in order:
                        msg = Message(code=GET if sw is a else method, uri_path=list(comps), payload=b"NEW" if (sw is b and method == PUT) else b"")
                        del TOUCHED[:]
                        ACTIVE[0] = True
                        try:
                            r = sw.do(msg, 1)
                        finally:
                            ACTIVE[0] = False
                        touched = list(TOUCHED)
                        res.evaluations += 1
                        case = {"two_roots": list(comps), "method": int(method), "first": first, "server": "a" if sw is a else "b"}
                        wrong = sorted({p_ for ev, p_ in touched if not (sb.inside(p_) if sw is a else inside_b(p_))})
                        if wrong:
                            res.violate(Violation("touched-outside-root", "only objects inside the server's own root", wrong[:4],
                                                  "cli/fileserver.py:request_to_localpath", case, key="other-root:%d" % int(msg.code)))
                        if sw is b and int(r.code) == 69 and comps == ["f.txt"] and bytes(r.payload) != b"B's file" and method == GET:
                            res.violate(Violation("touched-outside-root", "B serves its own f.txt", bytes(r.payload), "cli/fileserver.py", case, key="other-root-content"))
                    snap_a2 = {k: v for k, v in sb.snapshot().items() if sb.inside(k)}
                    if snap_a2 != snap_a:
                        res.violate(Violation("modified-without-write-permission", "the read-only server's tree is unchanged",
                                              sorted(set(snap_a.items()) ^ set(snap_a2.items()))[:4], "cli/fileserver.py", {"two_roots": list(comps), "method": int(method), "first": first},
                                              key="ro-tree-via-other-server"))
                        sb.populate()
                    # restore B's tree for the next round
                    (rootb / "f.txt").write_bytes(b"B's file")
                    (rootb / "sub").mkdir(exist_ok=True)
                    (rootb / "sub" / "h.txt").write_bytes(b"B's nested")
                    res.signatures.add(("two-roots", tuple(comps), int(method), first))
        res.outcomes.add(("two-roots", "done"))
    finally:
        a.dispose()
        b.dispose()


def blocks(res, sb, holder):
    for n in SIZES:
        (sb.root / ("s%d.bin" % n)).write_bytes(content(n, n))
    sw = holder.setdefault("blk", SiteWorld(lambda sw: FileServer(sb.root, sw.ctx.log.getChild("fs"), write=False)))
    for n in SIZES:
        want = content(n, n)
        for szx in range(7):
            size = 1 << (szx + 4)
            nblocks = max(1, -(-n // size))
            for order in ("in", "rev"):
                parts = {}
                seq = range(nblocks) if order == "in" else reversed(range(nblocks))
                ok = True
                for num in seq:
                    msg = Message(code=GET, uri_path=["s%d.bin" % n])
                    msg.opt.block2 = (num, False, szx)
                    r = sw.do(msg, 1)
                    res.evaluations += 1
                    b2 = r.opt.block2
                    more_want = (num + 1) * size < n
                    if int(r.code) != 69 or (b2 is None and nblocks > 1) or (b2 is not None and (b2.block_number, bool(b2.more)) != (num, more_want)):
                        ok = False
                    parts[num] = bytes(r.payload)
                got = b"".join(parts[i] for i in range(nblocks))
                case = {"file_size": n, "szx": szx, "order": order}
                if got != want or not ok:
                    res.violate(Violation("block-fetch", "concatenation equals the file (%d bytes), M set exactly while bytes remain" % n,
                                          {"len": len(got), "flags_ok": ok}, "cli/fileserver.py:render_get_file", case, key="blocks"))
                res.signatures.add(("blk", n, szx, order))
                res.outcomes.add(("blk", ok))
    res.sample({"file_size": 1025, "szx": 0, "blocks": "0..64 in order and reversed"})


def concurrent_blocks(res, sb, holder):
    """Two or three block requests (other files, other offsets, other block sizes, other requesters) handed to the server in
    the same loop pass: each is answered exactly as it is answered alone."""
    names = ("s17.bin", "s1025.bin", "s2049.bin")
    for nm in names:
        n = int(nm[1:-4])
        (sb.root / nm).write_bytes(content(n, n))
    sw = holder.setdefault("blk", SiteWorld(lambda sw: FileServer(sb.root, sw.ctx.log.getChild("fs"), write=False)))
    reqs = []
    for nm in names:
        n = int(nm[1:-4])
        for szx in (0, 2, 6):
            size = 1 << (szx + 4)
            last = max(0, -(-n // size) - 1)
            for num in sorted({0, 1, last}):
                if num <= last:
                    reqs.append((nm, num, szx))

    def mk(r):
        m = Message(code=GET, uri_path=[r[0]])
        m.opt.block2 = (r[1], False, r[2])
        return m

    def view(r):
        if r is None or not hasattr(r, "opt"):
            return repr(r)
        b2 = r.opt.block2
        return (int(r.code), None if b2 is None else (b2.block_number, bool(b2.more), b2.size_exponent), bytes(r.payload), r.opt.etag)
    alone = {r: view(sw.do(mk(r), 1)) for r in reqs}
    groups = [(a, b) for a in reqs for b in reqs] + [(a, b, c) for a in reqs[::3] for b in reqs[1::4] for c in reqs[2::5]]
    for g in groups:
        got = [view(x) for x in sw.do_many([mk(r) for r in g], list(range(1, len(g) + 1)))]
        res.evaluations += 1
        res.signatures.add(("conc", g))
        res.outcomes.add(("conc", all(a == alone[r] for a, r in zip(got, g))))
        for a, r in zip(got, g):
            if a != alone[r]:
                short = lambda v: v if not isinstance(v, tuple) else (v[0], v[1], len(v[2]), v[2][:8].hex())
                res.violate(Violation("block-fetch-concurrent", short(alone[r]), short(a), "cli/fileserver.py:render_get_file",
                                      {"concurrent_requests(file,num,szx)": [list(x) for x in g]}, key="conc"))
                break
    for msg, e in sw.loop_exceptions():
        res.violate(Violation("loop-exception", "none", core.exc_desc(e) if e else msg, core.site_of(e) if e else "loop", {"concurrent_blocks": True}, key="loop"))


def run(tier, seed, jobs):
    p2 = [p for n in range(0, 3) for p in itertools.product(ALPHA, repeat=n)]
    p3 = list(itertools.product(ALPHA, repeat=3))
    if tier == "quick":
        p3 = [p for i, p in enumerate(p3) if (i + seed) % 3 == 0]
    px = [p for n in range(1, 4) for p in itertools.product(ALPHA + EXTRA, repeat=n) if any(c in EXTRA for c in p) and (n < 3 or p[2] in EXTRA + ["", "f.txt"])]
    work = [("paths", p2[i::24], tier) for i in range(24)] + [("paths3", (p3 + px)[i::24], tier) for i in range(24)]
    work += [("abs", None, tier), ("blocks", None, tier), ("histories", None, tier)]
    if tier == "thorough":
        p4 = [p for p in itertools.product(ALPHA[:9], repeat=4)]
        work += [("paths3", p4[i::32], tier) for i in range(32)]
    res = core.prun(job, work, jobs)
    res.scenarios["space"] = {"paths_len<=2": len(p2), "paths_len3": len(p3)}
    return res


def replay(case, scenario, seed):
    install_monitor()
    res = Result()
    sb = Sandbox()
    holder = {}
    try:
        if "two_roots" in case:
            two_roots(res, sb)
        elif case.get("relative_root"):
            relative_root(res, sb, holder)
        elif "emptied" in case:
            emptied_tree(res, sb, holder)
        elif "replaced" in case:
            replaced_between_fetches(res, sb, holder)
        elif "file_size" in case:
            blocks(res, sb, holder)
        elif "concurrent_requests(file,num,szx)" in case or "concurrent_blocks" in case:
            concurrent_blocks(res, sb, holder)
        else:
            comps = case["path"]
            base = [c for c in str(sb.base).split("/") if c]
            # absolute-path cases were recorded against another scratch directory: re-anchor them
            if len(comps) > 2 and comps[0] == "" and comps[1] == "tmp" and comps[2].startswith("c19-"):
                comps = [""] + base + comps[3:]
            one_request(res, sb, holder, case["write"], comps, case["method"], case["cond"], case["observe"])
            print("     touched:", [t for t in TOUCHED][:12])
    finally:
        for sw in holder.values():
            sw.dispose()
        sb.destroy()
    return [v for v, n in res.violations.values()]
