"""C12 - OSCORE replay protection: a protected request is accepted at most once.

Level 1: explicit-state BFS over ReplayWindow operation histories against a set-and-floor model.
Level 2: every arrival sequence (genuine requests, replays, forgeries, Echo variants) through CanUnprotect.unprotect."""

import itertools

from .. import core
from ..core import Result, Violation

import aiocoap.oscore as o
from aiocoap import Message
from aiocoap.numbers import codes
from .c11_oscore import make, wire, Ctx

PROP = "C12"
LEVEL = "model_checking"
RULE = ("E3: BFS with dedup on (index, bitfield, model) over all is_valid/strike_out histories of ReplayWindow for sizes 1,2,3,4,8,32 "
        "(numbers 0..2*size+2 and jumps of size, size+1, 10*size beyond the maximum) from three initialisations, with a "
        "persist/reload probe in every state; E1: every arrival sequence up to length L over genuine requests with numbers "
        "{0,1,2,w-1,w,w+1,3w,2^40-1}, their replays, recorded requests with a rewritten outer code (0.00, 7.01, 2.04), tag-flipped and far-ahead forgeries, and Echo variants for an uninitialised window, "
        "and (initialised window) responses of the peer carrying its own Partial IV, through unprotect(); state really lost: a file-backed context accepts 1-3 requests, the process dies, after reload nothing is accepted "
        "before a fresh Echo exchange; sequence files that say nothing usable about what was received")
ASSUMPTIONS = [
    "stand-in crypto modules as for C11",
    "the Echo value is set on the context directly (the secrets seam); its generation is not the subject",
]


# ------------------------------------------------------------------------------------------ level 1

class Model:
    def __init__(self, size, S=(), floor=0):
        self.size, self.S, self.floor = size, set(S), floor

    def valid(self, n):
        return n >= self.floor and n not in self.S

    def accept(self, n):
        self.S.add(n)
        self.floor = max(self.floor, max(self.S) - self.size + 1)
        self.S = {x for x in self.S if x >= self.floor}

    def key(self):
        return (self.floor, tuple(sorted(self.S)))


def window_bfs(res, size, init, depth):
    def fresh():
        w = o.ReplayWindow(size, lambda: None)
        if init[0] == "empty":
            w.initialize_empty()
            m = Model(size)
        elif init[0] == "fresh":
            w.initialize_from_freshlyseen(init[1])
            m = Model(size, {init[1]}, init[1])
        else:
            w.initialize_from_persisted({"index": init[1], "bitfield": init[2]})
            S = {init[1] + i for i in range(size) if init[2] >> i & 1}
            m = Model(size, S, init[1])
        return w, m
    seen = set()
    w0, m0 = fresh()
    frontier = [()]
    seen.add((w0._index, w0._bitfield, m0.key()))
    name = "S-WIN-%d-%s" % (size, "-".join(map(str, init)))
    states = 0
    while frontier:
        nxt = []
        for hist in frontier:
            if len(hist) >= depth:
                continue
            w, m = fresh()
            for n in hist:
                w.strike_out(n)
                m.accept(n)
            top = max(m.S) if m.S else m.floor
            cands = sorted(set(list(range(0, 2 * size + 3)) + [top + size, top + size + 1, top + 10 * size, max(0, m.floor - 1), m.floor]))
            case = {"family": "window", "size": size, "init": list(init), "hist": list(hist)}
            for n in cands:
                res.evaluations += 1
                res.transitions += 1
                got, want = w.is_valid(n), m.valid(n)
                if got != want:
                    res.violate(Violation("window-validity", want, got, "oscore.py:ReplayWindow.is_valid", dict(case, number=n),
                                          key="valid:%s" % ("accepts-seen-or-old" if got else "rejects-fresh")))
                    continue
                if not got:
                    before = (w._index, w._bitfield)
                    try:
                        w.strike_out(n)
                        res.violate(Violation("strike-out-of-invalid-number", "ValueError", "accepted", "oscore.py:ReplayWindow.strike_out", dict(case, number=n), key="so"))
                        w._index, w._bitfield = before
                    except ValueError:
                        if (w._index, w._bitfield) != before:
                            res.violate(Violation("failed-strike-out-changed-window", before, (w._index, w._bitfield), "oscore.py:ReplayWindow.strike_out",
                                                  dict(case, number=n), key="so-state"))
                    continue
                # the successor state
                w2, m2 = fresh()
                for x in hist + (n,):
                    w2.strike_out(x)
                    m2.accept(x)
                k = (w2._index, w2._bitfield, m2.key())
                if k not in seen:
                    seen.add(k)
                    nxt.append(hist + (n,))
                    # persistence probe: a reloaded window answers exactly like the live one
                    p = o.ReplayWindow(size, lambda: None)
                    p.initialize_from_persisted(w2.persist())
                    for q in range(max(0, m2.floor - 2), m2.floor + 2 * size + 3):
                        if p.is_valid(q) != m2.valid(q):
                            res.violate(Violation("persisted-window-differs", m2.valid(q), p.is_valid(q), "oscore.py:ReplayWindow.persist",
                                                  dict(case, number=n, probe=q), key="persist"))
                            break
                    res.traces += 1
        frontier = nxt
    for k in seen:
        res.states.add(core.digest((size, init, k)))
    res.scenarios[name] = {"states": len(seen), "depth": depth}
    res.outcomes.add(("window", size, len(seen) > 1))
    res.signatures.add(("window", size, init))


# ------------------------------------------------------------------------------------------ level 2

TOP = 2 ** 40 - 1     # the largest number a Partial IV may carry (RFC 8613 section 7.2.1: less than 2^40)


def genuine(cl, n, echo=None):
    cl.sender_sequence_number = n
    m = Message(code=codes.GET, uri_path=["r"])
    if echo is not None:
        m.opt.echo = echo
    if n == TOP:
        # the library's own sender stops one short of the last number; a peer need not
        cl.new_sequence_number = lambda: n
    try:
        outer, _ = cl.protect(m)
    finally:
        cl.__dict__.pop("new_sequence_number", None)
    w, data = wire(outer)
    return data


def arrivals(res, w, seq, initialised):
    cl = make(b"\x01", b"\x02", None)
    sv = make(b"\x02", b"\x01", None, window=w)
    ECHO = b"fresh-echo"
    if not initialised:
        sv.recipient_replay_window = o.ReplayWindow(w, lambda: None)
        sv.echo_recovery = ECHO
    else:
        sv.echo_recovery = ECHO                # as a file-backed context has it at all times
    cache = {}
    m = Model(w) if initialised else None      # None: uninitialised
    case = {"family": "arrivals", "window": w, "initialised": initialised, "seq": [list(a) for a in seq]}
    res.evaluations += 1
    own = 0
    for a in seq:
        kind, n = a[0], a[1]
        echo = None
        if kind in ("resp", "resp-plain"):
            # the context in the client role as well: a response of the peer to an own request, carrying the peer's own Partial
            # IV n (a notification that was overtaken by later requests).  Whatever it is, it is not a request: an initialised
            # window stays as it is, so nothing accepted before becomes acceptable again.
            own += 1
            sv.sender_sequence_number = 5000 + own
            outer, myrid = sv.protect(Message(code=codes.GET, uri_path=["own"]))
            cl.recipient_replay_window.initialize_empty()
            _, prid = cl.unprotect(wire(outer)[0])
            if kind == "resp":
                prid.can_reuse_nonce = False
            # (resp-plain: an ordinary response that re-uses the request's nonce and carries no Partial IV of its own - there is no
            # number of the peer in it at all, whatever state the window is in)
            cl.sender_sequence_number = n
            router, _ = cl.protect(Message(code=codes.CONTENT, payload=b"n"), request_id=prid)
            before = sv.recipient_replay_window.persist()
            try:
                sv.unprotect(wire(router)[0], myrid)
            except o.ProtectionInvalid:
                pass
            except Exception as e:
                res.violate(Violation("unprotect-raises-other", "ProtectionInvalid or success", core.exc_desc(e), core.site_of(e), case,
                                      key="resp:%s@%s" % (type(e).__name__, core.site_of(e))))
                return
            if sv.recipient_replay_window.persist() != before:
                res.violate(Violation("response-moved-window", before, sv.recipient_replay_window.persist(), "oscore.py:unprotect", case, key="resp-window"))
                return
            continue
        if kind in ("gen", "replay"):
            echo = {"right": ECHO, "wrong": b"stale-echo", None: None}[a[2] if len(a) > 2 else None]
            key = (n, echo)
            if key not in cache:
                cache[key] = genuine(cl, n, echo)
            data = cache[key]
            authentic = True
        elif kind == "recode":
            # the recorded request n with its outer code - which nothing authenticates - rewritten: whatever the context makes of it,
            # letting it in is letting request n in, and turning it down leaves everything as it was (an uninitialised window
            # in particular stays uninitialised: nothing here echoes anything)
            key = (n, None)
            if key not in cache:
                cache[key] = genuine(cl, n)
            data = cache[key][:1] + bytes([a[2]]) + cache[key][2:]
            before = sv.recipient_replay_window.persist()
            try:
                sv.unprotect(Message.decode(data))
                accepted = True
            except Exception:
                accepted = False      # (which exception class is not this property's subject for a message no sender sent)
            after = sv.recipient_replay_window.persist()
            want_ok = m is not None and m.valid(n)
            if accepted and not want_ok:
                res.violate(Violation("arrival-outcome", "rejected", "accepted under outer code %d.%02d" % (a[2] >> 5, a[2] & 31), "oscore.py:unprotect",
                                      dict(case, at=list(a)), key="recode:accepted-twice-or-old"))
                return
            if accepted:
                m.accept(n)
            elif after != before:
                res.violate(Violation("rejected-arrival-moved-window", before, after, "oscore.py:unprotect", dict(case, at=list(a)), key="recode-window"))
                return
            continue
        elif kind == "forge-tag":
            base = genuine(cl, n)
            data = base[:-1] + bytes([base[-1] ^ 0x01])
            authentic = False
        else:   # forge-piv: a valid-looking number, nothing authentic behind it
            base = genuine(cl, 0)
            other = genuine(make(b"\x01", b"\x02", None, secret=bytes(16)), n)
            data = other
            authentic = False
        before = sv.recipient_replay_window.persist()
        try:
            inner, _ = sv.unprotect(Message.decode(data))
            accepted = True
            err = None
        except o.ProtectionInvalid as e:
            accepted, err = False, e
        except Exception as e:
            res.violate(Violation("unprotect-raises-other", "ProtectionInvalid or success", core.exc_desc(e), core.site_of(e), case,
                                  key="%s@%s" % (type(e).__name__, core.site_of(e))))
            return
        after = sv.recipient_replay_window.persist()
        if not authentic:
            if accepted:
                res.violate(Violation("forgery-accepted", "rejected", "accepted", "oscore.py:unprotect", case, key=kind))
                return
            if after != before:
                res.violate(Violation("forgery-moved-window", before, after, "oscore.py:unprotect", case, key=kind + "-window"))
                return
            continue
        if m is None:
            want = echo == ECHO
            if want:
                m = Model(w, {n}, n)
        else:
            want = m.valid(n)
            if want:
                m.accept(n)
        if accepted != want:
            res.violate(Violation("arrival-outcome", "accepted" if want else "rejected", "accepted" if accepted else core.exc_desc(err),
                                  "oscore.py:unprotect", dict(case, at=list(a)),
                                  key=("init" if initialised else "uninit") + (":accepted-twice-or-old" if accepted else ":fresh-rejected")))
            return
        if not accepted and after != before:
            res.violate(Violation("rejected-arrival-moved-window", before, after, "oscore.py:unprotect", case, key="rej-window"))
            return
    res.traces += 1
    res.outcomes.add(("arr", initialised, None if m is None else len(m.S)))
    res.signatures.add(("arr", w, initialised, tuple(seq)))
    res.states.add(core.digest(("arr", w, None if m is None else m.key())))
    res.transitions += len(seq)


def alphabet(w, initialised):
    nums = sorted({0, 1, 2, w - 1, w, w + 1, 3 * w})
    A = [("gen", n) for n in nums]
    # the last number there is; recorded requests under outer codes no request carries (0.00, 7.01) and under a response code
    A += [("gen", TOP), ("recode", 1, 0), ("recode", w + 1, 0xE1), ("recode", 2, 0x44)]
    A += [("forge-tag", n) for n in (1, w, 3 * w)] + [("forge-piv", n) for n in (2, 10 * w)]
    if not initialised:
        A += [("gen", n, "right") for n in (1, w + 1)] + [("gen", 2, "wrong")] + [("resp-plain", 0)]
    else:
        A += [("resp", 1), ("resp", w), ("resp-plain", 0)]
    return A


def uninit_probe(res, size):
    """A window that lost its state stays 'uninitialised' through persist / reload, however often."""
    w = o.ReplayWindow(size, lambda: None)
    for gen in range(3):
        res.evaluations += 1
        if w.is_initialized():
            res.violate(Violation("uninitialised-window-became-initialised", "uninitialised after %d persist/reload cycles" % gen,
                                  w.persist(), "oscore.py:ReplayWindow.persist", {"family": "uninit", "size": size, "cycles": gen}, key="uninit-persist"))
            return
        p = w.persist()
        w = o.ReplayWindow(size, lambda: None)
        w.initialize_from_persisted(p)


def lost_state(res, k, start, respond, protect_first=False):
    """State lost for real: a file-backed context accepts k requests (answering them or not), the process dies without a clean
    stop, the context is loaded again.  Until the peer has echoed a value issued by the new process nothing is accepted -
    neither the requests seen before nor a fresh one - and the Echo exchange then lets exactly the echoing request in."""
    from .c13_nonce import Run
    case = {"family": "lost-state", "accepted_before": k, "chunk_start": start, "respond": respond, "protect_first": protect_first}
    res.evaluations += 1
    r = Run(start, 10000)
    try:
        if protect_first:
            r.op(("P",))       # the context sends something of its own before it receives anything (a store before the first strike-out)
        for n in range(k):
            r.op(("A", n))
            if respond:
                r.op(("R",))
        if len(r.accepted_ever) != k:
            res.violate(Violation("arrival-outcome", "fresh requests 0..%d accepted" % (k - 1), sorted(r.accepted_ever), "oscore.py:unprotect", case, key="lost:setup"))
            return
        r.die()
        r.load()
        c = r.ctx
        for n in list(range(k)) + [k + 7]:
            r.peer.sender_sequence_number = n
            outer, _ = r.peer.protect(Message(code=codes.GET, uri_path=["y"]))
            try:
                c.unprotect(wire(outer)[0])
                res.violate(Violation("accepted-while-state-lost", "refused until a fresh Echo exchange", "request %d accepted" % n,
                                      "oscore.py:FilesystemSecurityContext._replay_window_changed", case,
                                      key="lost:" + ("replay" if n < k else "fresh")))
                return
            except o.ProtectionInvalid:
                pass
        r.op(("AE", 0))
        for v in r.violations:
            v["case"] = core.jsonable(case)
            res.violate(v)
        res.traces += 1
        res.outcomes.add(("lost", k, len(r.accepted_ever)))
        res.signatures.add(("lost", k, start, respond, protect_first))
    finally:
        r.close()


def odd_start(res, seq):
    """A sequence file that says nothing (usable) about what has been received - written by a provisioning tool, or damaged: the
    context either refuses to load or starts with its window uninitialised; in no case does it accept requests the peer may have
    sent before without an Echo exchange."""
    from .c13_nonce import Run
    case = {"family": "odd-start", "seq": seq}
    res.evaluations += 1
    import gc
    import sys
    hook = sys.unraisablehook
    sys.unraisablehook = lambda u: None      # a context refused at load complains from its __del__ about its scratch directory: not our subject
    try:
        try:
            r = Run(1, 10000, seq_json=seq)
        except Exception as e:
            e = None
            gc.collect()
            res.outcomes.add(("odd-start", "refused"))
            res.signatures.add(("odd-start", repr(seq)))
            return            # refused at load: safe
    finally:
        gc.collect()
        sys.unraisablehook = hook
    try:
        for n in (0, 1, 5, 40):
            r.peer.sender_sequence_number = n
            outer, _ = r.peer.protect(Message(code=codes.GET, uri_path=["y"]))
            try:
                r.ctx.unprotect(wire(outer)[0])
                res.violate(Violation("accepted-while-state-lost", "refused until a fresh Echo exchange (nothing is known about what was received)",
                                      "request %d accepted" % n, "oscore.py:FilesystemSecurityContext._load", case, key="odd-start"))
                return
            except o.ProtectionInvalid:
                pass
        res.traces += 1
        res.outcomes.add(("odd-start", "uninitialised"))
        res.signatures.add(("odd-start", repr(seq)))
    finally:
        r.close()


def same_directory(res, history):
    """One context directory is one security context: while an instance holds it, opening it again is refused, whatever was
    tried and thrown away in between; a successor that opens it (after the holder's clean stop, or having waited for the holder
    to go) knows what the holder accepted.  No request is accepted twice by the instances together.
    Operations: O open (kept if it works), W open that finds the directory held and waits - meanwhile the holder accepts a fresh
    request and stops cleanly, A a fresh request to every live instance, R the last request again, S clean stop of the oldest
    instance, G the garbage collector runs."""
    from .c13_nonce import Run
    import filelock
    import gc
    import sys
    case = {"family": "same-directory", "history": list(history)}
    res.evaluations += 1
    hook = sys.unraisablehook
    noise = []
    sys.unraisablehook = lambda u: noise.append(u.exc_type.__name__)
    r = Run(1, 10000)
    live = [r.ctx]
    accepted = {}
    nxt = [10]
    last = [None]

    def open_():
        return o.FilesystemSecurityContext(r.dir, sequence_number_chunksize_start=r.start, sequence_number_chunksize_limit=r.limit)

    def deliver(n, to):
        r.peer.sender_sequence_number = n
        outer, _ = r.peer.protect(Message(code=codes.GET, uri_path=["y"]))
        for c in to:
            try:
                c.unprotect(wire(outer)[0])
                accepted[n] = accepted.get(n, 0) + 1
            except o.ProtectionInvalid:
                pass
        last[0] = n

    def stop(c):
        try:
            c._destroy()
        except Exception:
            # (a clean stop that fails is not this property's subject; the instance is gone either way)
            lf, c.lockfile = c.lockfile, None
            if lf is not None:
                lf.release()

    try:
        for i, op in enumerate(history):
            if op in ("O", "W"):
                held = bool(live)
                if op == "W" and live:
                    holder = live[0]

                    def meanwhile(holder=holder):
                        n = nxt[0]
                        nxt[0] += 1
                        deliver(n, [holder])
                        stop(holder)
                        live.remove(holder)
                    filelock._while_waiting.append(meanwhile)
                    held = len(live) > 1
                try:
                    c = open_()
                except Exception as e:
                    c = None
                    e = None
                del filelock._while_waiting[:]
                if c is not None and held:
                    live.append(c)
                    res.violate(Violation("directory-opened-twice", "refused: the directory is held by a live instance", "opened (step %d)" % i,
                                          "oscore.py:FilesystemSecurityContext.__init__", case, key="samedir:twice"))
                    return
                if c is None and not held:
                    res.violate(Violation("directory-not-opened", "opened: nobody holds the directory", "refused (step %d)" % i,
                                          "oscore.py:FilesystemSecurityContext.__init__", case, key="samedir:refused"))
                    return
                if c is not None:
                    live.append(c)
                    if op == "W" and last[0] is not None:
                        deliver(last[0], [c])       # what the predecessor accepted while this one waited
            elif op == "A":
                n = nxt[0]
                nxt[0] += 1
                deliver(n, list(live))
            elif op == "R" and last[0] is not None:
                deliver(last[0], list(live))
            elif op == "S" and live:
                stop(live.pop(0))
            elif op == "G":
                gc.collect()
            twice = sorted(n for n, k in accepted.items() if k > 1)
            if twice:
                res.violate(Violation("request-accepted-twice", "at most once per sender sequence number under one security context",
                                      "request(s) %s accepted twice by step %d" % (twice, i), "oscore.py:FilesystemSecurityContext", case, key="samedir:accepted-twice"))
                return
        res.traces += 1
        res.outcomes.add(("samedir", len(live), len(accepted)))
        res.signatures.add(("samedir", history))
    finally:
        for c in live:
            c.lockfile = None
        if r.ctx is not None and r.ctx not in live:
            r.ctx.lockfile = None
        live = None
        r.close()
        gc.collect()
        sys.unraisablehook = hook


def job(arg):
    kind, item, tier = arg
    res = Result()
    if kind == "lost":
        for seq in ({"next-to-send": 7}, {"next-to-send": 7, "received": None}, {"next-to-send": 0, "received": "unknown"},
                    {"next-to-send": 7, "received": {}}, {"next-to-send": 7, "received": "lost"}, {"next-to-send": 7, "received": []}):
            odd_start(res, seq)
        for k in (1, 2, 3):
            for start in (1, 10):
                for respond in (False, True):
                    lost_state(res, k, start, respond)
                    lost_state(res, k, start, respond, protect_first=True)
        res.sample({"lost_state": "k requests accepted, process death, reload", "k": [1, 2, 3]})
    elif kind == "samedir":
        for h in item:
            same_directory(res, h)
        res.sample({"same_directory": list(item[-1])})
    elif kind == "window":
        size, init, depth = item
        uninit_probe(res, size)
        window_bfs(res, size, init, depth)
        res.sample({"window_size": size, "init": list(init), "history": [0, size, 1, 3 * size]})
    else:
        w, initialised, first, L = item
        A = alphabet(w, initialised)
        for n in range(0, L):
            for rest in itertools.product(A, repeat=n):
                arrivals(res, w, (first,) + rest, initialised)
        res.sample({"window": w, "initialised": initialised, "arrivals": [list(first), list(A[1]), list(A[-1]), list(first)]})
    return res


def run(tier, seed, jobs):
    import shimtest
    shimtest.run()
    work = []
    for size in (1, 2, 3, 4, 8, 32):
        depth = (6 if size <= 4 else 4) if tier == "quick" else (8 if size <= 4 else 5)
        for init in (("empty",), ("fresh", 2), ("persisted", 3, 0b101 & ((1 << size) - 1))):
            work.append(("window", (size, init, depth), tier))
    L = 3 if tier == "quick" else 4
    for w in (2, 32):
        for initialised in (True, False):
            for first in alphabet(w, initialised):
                work.append(("arrivals", (w, initialised, first, L + (1 if (tier == "thorough" and w == 2) else 0)), tier))
    work.append(("lost", None, tier))
    L = 4 if tier == "quick" else 6
    hs = [h for n in range(1, L + 1) for h in itertools.product("OWARSG", repeat=n)
          if not any(h[i] == h[i + 1] == "G" for i in range(len(h) - 1))]
    for i in range(16):
        work.append(("samedir", hs[i::16], tier))
    res = core.prun(job, work, jobs)
    return res


def replay(case, scenario, seed):
    res = Result()
    if case["family"] == "same-directory":
        same_directory(res, tuple(case["history"]))
        return [v for v, n in res.violations.values()]
    if case["family"] == "odd-start":
        odd_start(res, case["seq"])
    elif case["family"] == "lost-state":
        lost_state(res, case["accepted_before"], case["chunk_start"], case["respond"], case.get("protect_first", False))
    elif case["family"] == "uninit":
        uninit_probe(res, case["size"])
    elif case["family"] == "window":
        window_bfs(res, case["size"], tuple(case["init"]), len(case["hist"]) + 1)
    else:
        arrivals(res, case["window"], [tuple(a) for a in case["seq"]], case["initialised"])
    return [v for v, n in res.violations.values()]
