"""C05 - block-wise client transfers deliver both bodies intact or fail loudly.

E1 over body sizes x size exponents x reductions against an independent strict RFC 7959 server (mcv/refpeer.py), a
complete sweep of server misbehaviours x positions, and E2 (drop/duplicate of individual block exchanges) on short
transfers."""

import itertools

from .. import core, refcodec as rc
from ..core import Result, Violation
from ..explore import explore_schedules, replay_schedule
from ..netscn import NetScenario
from ..refpeer import RefBlockServer
from ..world import World

from aiocoap import Message, GET, PUT, POST, FETCH, error

PROP = "C05"
LEVEL = "model_checking"
RULE = ("E1: product of method x request body length x response body length x server SZX x client maximum SZX x mid-transfer "
        "reduction point (boundary lengths 0,1,15-17,31-33,1023-1025,1124/1125,2048/2049,3000) run to completion against the "
        "strict server (also one that states its own larger SZX in its 2.31s); every server misbehaviour x block position (wrong NUM, M on the final "
        "ack, short block, ETag change/vanishing, skipped/stale block, M past the end, later block refused 4.08/5.03 or answered without Block2, empty non-final block); requests that carry the application's own Block2 option (NUM 0..n); requests carry Content-Format / Accept / query and follow-ups must repeat them; E2: all schedules with <= K drops/duplications of the "
        "individual datagrams of 3-5 block transfers; distinct = distinct parameter tuple / schedule")
ASSUMPTIONS = [
    "oracle: mcv/refpeer.RefBlockServer, written from RFC 7959 (offset contiguity, NUM*size, M flag, SZX monotonic)",
    "FETCH: Block2 follow-ups may or may not repeat the request body (RFC 8132 can be read either way)",
    "bodies <= 3000 bytes; position-coded contents make truncation, duplication and mixing visible",
    "don't-care: a later block request answered by a successful response without Block2 - that whole response may be returned",
]

CLI = ("2001:db8::c", 40000)
SRV = ("2001:db8::1", 5683)
METHODS = {"GET": GET, "PUT": PUT, "POST": POST, "FETCH": FETCH}
LENS_Q = (0, 1, 16, 17, 33, 1024, 1025, 1124, 1125, 2049)
# (plus two transfers of 65700 bytes in 16-byte blocks, see grid())
LENS_T = (0, 1, 15, 16, 17, 31, 32, 33, 1023, 1024, 1025, 1124, 1125, 2048, 2049, 3000)


def body(n, seed, salt):
    return bytes(((i * 7 + (i >> 8) * 13 + seed + salt) & 0xFF) for i in range(n))


def transfer(method, l1, l2, sszx, cexp, reduce_at, reduce_to, misbehave, seed, deliver_all=True):
    w = World()
    try:
        cli = w.add_context("cli", *CLI)
        rep = body(l2, seed, 101)
        app_b2 = misbehave[1] if misbehave and misbehave[0] == "ok-app-b2" else None
        srv = w.add_peer(RefBlockServer("srv", *SRV, representation=rep, szx=sszx, reduce_at=reduce_at, reduce_to=reduce_to,
                                        misbehave=None if app_b2 is not None else misbehave))
        pl = body(l1, seed, 7) if method != "GET" else b""
        m = Message(code=METHODS[method], uri_path=["res"], uri_query=["k=v"], payload=pl, accept=0)
        if pl:
            m.opt.content_format = 60     # a body comes with its format; like every other option it belongs to each follow-up request
        if app_b2 is not None:
            m.opt.block2 = (app_b2, False, sszx)     # the application itself names the block it wants the (managed) request to start at
        m.remote = cli.remote(SRV)
        m.remote.maximum_block_size_exp = cexp
        req = cli.ctx.request(m)
        w.loop.settle()
        n = 0
        while not req.response.done() and n < 40000:
            n += 1
            if w.pool:
                w.deliver(w.pool[0])
            elif not w.loop.fire_next_timer():
                break
        out = {"done": req.response.done(), "exc": None, "payload": None, "code": None}
        if req.response.done():
            if req.response.exception() is not None:
                out["exc"] = req.response.exception()
            else:
                out["payload"] = bytes(req.response.result().payload)
                out["code"] = int(req.response.result().code)
        out["srv_violations"] = list(srv.violations)
        out["bodies"] = [b for (_, _, b) in srv.bodies]
        out["size1"] = list(srv.size1)
        out["exchanges"] = len(srv.received)
        out["changed_served"] = srv.changed_served
        out["loopexc"] = [core.exc_desc(e) if e else msg for msg, e in w.loop_exceptions()]
        out["wire_blocks"] = [rc.unblock(rc.opt(mm[4], 27)) for (_, mm, _) in srv.received if mm and rc.opt(mm[4], 27) is not None][:8]
        return out, pl, rep
    finally:
        w.dispose()


def check_transfer(res, params, seed):
    method, l1, l2, sszx, cexp, rat, rto, mis = params
    out, pl, rep = transfer(method, l1, l2, sszx, cexp, rat, rto, mis, seed)
    case = {"transfer": list(params), "seed": seed}
    res.evaluations += 1
    res.traces += 1
    res.transitions += out["exchanges"]
    if mis is not None and mis[0] == "ok-app-b2" and mis[1] >= 1:
        # the application asked for block N >= 1 itself: an error, that block alone, or everything from that block on - never bytes
        # from elsewhere in the representation passed off as the answer
        size = 1 << (min(sszx, cexp) + 4)
        failed_loudly = out["exc"] is not None or (out["code"] is not None and out["code"] >= 128)
        if not out["done"]:
            res.violate(Violation("transfer-hangs", "ends", "pending", "protocol.py", case, key="hang-app-b2"))
        elif not failed_loudly and out["payload"] not in (rep[mis[1] * size:(mis[1] + 1) * size], rep[mis[1] * size:]):
            res.violate(Violation("corrupt-body-returned", "error, block %d alone, or the representation from block %d on" % (mis[1], mis[1]),
                                  "%d bytes, first difference from the representation at %s" % (len(out["payload"]), first_diff(out["payload"], rep)),
                                  "protocol.py:BlockwiseRequest._complete_by_requesting_block2", case, key="app-b2"))
    elif mis is None or mis[0].startswith("ok-"):
        if out["srv_violations"]:
            res.violate(Violation("wire-block-rules", "offsets contiguous, NUM*size==offset, M only on non-final blocks, SZX never grows",
                                  out["srv_violations"][:3], "protocol.py:BlockwiseRequest._run", case, key=out["srv_violations"][0][0].split(" ")[0] + out["srv_violations"][0][0].split(" ")[1]))
        if not out["done"] or out["exc"] is not None:
            res.violate(Violation("transfer-failed", "success against a conforming server",
                                  core.exc_desc(out["exc"]) if out["exc"] else "never completed",
                                  core.site_of(out["exc"]) if out["exc"] else "protocol.py", case, key="failed"))
        else:
            if out["payload"] != rep:
                res.violate(Violation("response-body", "representation (%d bytes)" % len(rep),
                                      "%d bytes, first difference at %s" % (len(out["payload"]), first_diff(out["payload"], rep)),
                                      "message.py:_append_response_block", case, key="respbody"))
            if method != "GET" and not (method == "FETCH" and not pl):
                want = [pl]
                got = out["bodies"]
                if got != want:
                    res.violate(Violation("request-body", "server reassembles exactly the payload (%d bytes) once" % len(pl),
                                          [len(b) for b in got] + ["first difference at %s" % (first_diff(got[0], pl) if got else "-")],
                                          "protocol.py:BlockwiseRequest._run", case, key="reqbody"))
                if out["size1"] and out["size1"][0] != len(pl):
                    res.violate(Violation("size1", len(pl), out["size1"], "protocol.py", case, key="size1"))
    else:
        # misbehaving server: an error, or (if the misbehaviour could not bite) exactly the representation -- never another body
        failed_loudly = out["exc"] is not None or (out["code"] is not None and out["code"] >= 128)
        # don't-care: a successful response without Block2 in the middle of a transfer may be taken as the (whole) answer
        whole_plain = mis[0] == "b2-plain-midway" and out["payload"] == b"plain"
        if out["done"] and not failed_loudly and out["payload"] != rep and not whole_plain:
            res.violate(Violation("corrupt-body-returned", "error or the exact representation",
                                  "%d bytes, first difference at %s" % (len(out["payload"]), first_diff(out["payload"], rep)),
                                  "message.py:_append_response_block", case, key=mis[0]))
        if mis[0] in ("b2-etag", "b2-etag-dropped") and 1 <= mis[1] and out["changed_served"] and not failed_loudly and out["done"]:
            res.violate(Violation("representation-change-accepted", "error when the ETag differs between blocks",
                                  "returned %r" % out["code"], "message.py:_append_response_block", case, key="etag"))
        if not out["done"]:
            res.violate(Violation("transfer-hangs", "ends", "pending", "protocol.py", case, key="hang-" + mis[0]))
        if out["done"] and not failed_loudly and mis[0] in ("b1-wrong-num", "b1-lower-num", "b1-more-on-final", "b1-continue-on-final") and method != "GET" and bit(params):
            res.violate(Violation("protocol-violation-accepted", "error", "returned %r" % out["code"], "protocol.py:BlockwiseRequest._run", case, key=mis[0]))
    if out["loopexc"]:
        res.violate(Violation("loop-exception", "none", out["loopexc"], "loop", case, key="loop"))
    res.outcomes.add(core.digest((out["done"], type(out["exc"]).__name__, out["code"], out["exchanges"] > 1, bool(out["srv_violations"]))))
    res.signatures.add(core.digest(params))
    res.states.add(core.digest((params, out["exchanges"], out["code"])))


def bit(params):
    """Does the Block1 misbehaviour position exist in this transfer?"""
    method, l1, l2, sszx, cexp, rat, rto, mis = params
    size = 1 << (min(sszx, cexp) + 4)
    nblocks = max(1, -(-l1 // size))
    if l1 <= (1124 if cexp >= 6 else (1 << (cexp + 4))):
        return False       # sent unfragmented: no Block1 acknowledgement to misbehave in
    if mis[0] == "b1-wrong-num":
        return mis[1] < nblocks      # intermediate acknowledgements and the final one
    if mis[0] == "b1-lower-num":
        return 1 <= mis[1] < nblocks - 1     # intermediate acknowledgements from block 1 on
    return True


def first_diff(a, b):
    for i, (x, y) in enumerate(zip(a, b)):
        if x != y:
            return i
    return min(len(a), len(b)) if len(a) != len(b) else None


def grid(tier):
    out = []
    lens = LENS_Q if tier == "quick" else LENS_T
    # full product of sizes at the default exponents
    for method in METHODS:
        for l1 in (lens if method != "GET" else (0,)):
            for l2 in lens:
                out.append((method, l1, l2, 6, 6, None, None, None))
    # exponent negotiation and reductions on boundary lengths that produce 3+ blocks
    small = (0, 1, 16, 17, 33, 47, 48, 49, 64, 100) if tier == "quick" else (0, 1, 15, 16, 17, 31, 32, 33, 47, 48, 49, 63, 64, 65, 100, 257)
    for method in ("PUT", "GET", "FETCH") if tier == "quick" else METHODS:
        for sszx in range(7):
            for cexp in range(7):
                for l1 in (small if method != "GET" else (0,)):
                    for l2 in ((0, 17, 64) if method != "GET" else small):
                        if tier == "quick" and (sszx + cexp) % 2 and l1 not in (0, 17, 49) and l2 not in (17, 49):
                            continue
                        out.append((method, l1, l2, sszx, cexp, None, None, None))
    # the client is limited to smaller blocks than the server picks for its first (unrequested) Block2 response
    for method in ("GET", "PUT"):
        for sszx in (6, 5, 3):
            for cexp in range(0, sszx):
                for l2 in ((1025, 2049, 3000) if sszx >= 5 else (129, 257, 400)):
                    if tier == "quick" and cexp not in (0, sszx - 1, sszx // 2):
                        continue
                    out.append((method, 20 if method != "GET" else 0, l2, sszx, cexp, None, None, None))
    # a conforming server that states its own, larger, size preference in the 2.31s (from block k on) to a client limited to
    # smaller blocks: the client must carry on with its size
    for method in ("PUT", "POST"):
        for cexp in (0, 2, 4):
            for sszx in sorted({cexp + 1, cexp + 2, 6}):
                for at in (0, 1, 2, 3):
                    for l1 in {0: (40, 100), 2: (150, 330), 4: (600, 1300)}[cexp]:
                        out.append((method, l1, 20, sszx, cexp, None, None, ("ok-own-szx", at)))
    # a conforming server that handles every block on its own (2.04 with M=0 for non-final blocks, from block k on)
    for method in ("PUT", "POST"):
        for szx in (0, 2, 6):
            for at in (0, 1, 2):
                for l1 in {0: (17, 40, 100), 2: (65, 150, 330), 6: (1125, 2049, 3000)}[szx]:
                    out.append((method, l1, 20, szx, szx, None, None, ("ok-stateless", at)))
    # block numbers that need the third byte of the option (4096 and up): 16-byte blocks of bodies beyond 64 KiB
    out.append(("GET", 0, 65700, 0, 6, None, None, None))
    out.append(("PUT", 65700, 20, 0, 0, None, None, None))
    # the application puts a Block2 option of its own on a managed request: NUM 0 is a size hint, NUM >= 1 asks for that block
    for method in ("GET", "FETCH"):
        for szx in (0, 2):
            size = 1 << (szx + 4)
            for nb in (1, 2, 3, 5):
                for tail in (0, 3):
                    for num in range(0, nb + 1):
                        out.append((method, 10 if method == "FETCH" else 0, size * (nb - 1) + (tail or size), szx, 6, None, None, ("ok-app-b2", num)))
    for method in ("PUT", "POST"):
        for sszx in (1, 2, 3, 6):
            for rto in range(0, sszx):
                for rat in (0, 1, 2, 3):
                    for l1 in ((100, 129, 256, 2049) if sszx < 6 else (2049, 3000, 4096)):
                        for cexp in (6, sszx):
                            out.append((method, l1, 20, sszx, cexp, rat, rto, None))
    return out


MISBEHAVIOURS = ("b1-wrong-num", "b1-lower-num", "b1-more-on-final", "b1-continue-on-final", "b2-short", "b2-etag", "b2-etag-dropped", "b2-skip", "b2-stale",
                 "b2-more-past-end", "b2-408-midway", "b2-503-midway", "b2-plain-midway", "b2-empty")


def misgrid(tier):
    out = []
    for mis in MISBEHAVIOURS:
        for at in range(0, 5 if tier == "quick" else 8):
            for method in ("PUT", "GET") if tier == "quick" else ("PUT", "POST", "FETCH", "GET"):
                for szx in (0, 2) if tier == "quick" else (0, 1, 2, 4):
                    size = 1 << (szx + 4)
                    for nb in (2, 4, 5) if tier == "quick" else (2, 3, 4, 5, 6, 7, 8):
                        for tail in (0, 3):
                            L = size * (nb - 1) + (tail or size)
                            l1 = L if method != "GET" else 0
                            l2 = L if mis.startswith("b2") else 10
                            if mis.startswith("b1") and method == "GET":
                                continue
                            if mis in ("b2-etag", "b2-etag-dropped") and at == 0:
                                continue   # a representation that is different from the start is simply another representation
                            # the client only fragments the request body when its own maximum block size asks for it
                            out.append((method, l1, l2, szx, szx if mis.startswith("b1") else 6, None, None, (mis, at)))
    return out


def job(arg):
    items, seed = arg
    res = Result()
    for p in items:
        check_transfer(res, p, seed)
    res.sample({"transfer(method,len1,len2,server_szx,client_szx,reduce_at,reduce_to,misbehaviour)": list(items[0])})
    return res


# ------------------------------------------------------------------------------------------ E2: loss / duplication

class BwScenario(NetScenario):
    names = {CLI: "cli", SRV: "srv"}
    menu = ("drop", "dup")
    horizon = 300.0
    max_steps = 200

    def __init__(self, method, l1, l2, szx, K, seed=0):
        self.params = {"method": method, "l1": l1, "l2": l2, "szx": szx}
        self.name = "S-BLK-%s-%d-%d-szx%d" % (method, l1, l2, szx)
        self.K = K
        self.seed = seed

    def build(self, st):
        p = self.params
        w = st.world = World()
        st.cli = w.add_context("cli", *CLI)
        st.rep = body(p["l2"], self.seed, 101)
        st.pl = body(p["l1"], self.seed, 7) if p["method"] != "GET" else b""
        st.srv = w.add_peer(RefBlockServer("srv", *SRV, representation=st.rep, szx=p["szx"]))

        def issue(st):
            m = Message(code=METHODS[p["method"]], uri_path=["res"], uri_query=["k=v"], payload=st.pl, accept=0)
            if st.pl:
                m.opt.content_format = 60
            m.remote = st.cli.remote(SRV)
            st.req = st.cli.ctx.request(m)
        st.script.append(("request", issue))
        st.req = None

    def enabled(self, st):
        if st.req is not None and st.req.response.done() and not st.world.pool:
            return []
        return super().enabled(st)

    def finish(self, st):
        f = st.req.response
        if not f.done():
            st.violations.append(Violation("transfer-hangs", "completes", "pending", "protocol.py", {}, key="hang"))
        elif f.exception() is not None:
            st.violations.append(Violation("loss-not-repaired", "success with <= 2 lost/duplicated datagrams", core.exc_desc(f.exception()),
                                           core.site_of(f.exception()), {}, key=type(f.exception()).__name__))
        else:
            if bytes(f.result().payload) != st.rep:
                st.violations.append(Violation("response-body", len(st.rep), len(f.result().payload), "message.py:_append_response_block", {}, key="respbody"))
            if self.params["method"] != "GET" and [b for (_, _, b) in st.srv.bodies] != [st.pl]:
                st.violations.append(Violation("request-body", "payload once", [len(b) for (_, _, b) in st.srv.bodies],
                                               "protocol.py:BlockwiseRequest._run", {}, key="reqbody"))
        if st.srv.violations:
            st.violations.append(Violation("wire-block-rules", "conforming", st.srv.violations[:2], "protocol.py", {}, key="wire"))
        for msg, e in st.world.loop_exceptions():
            st.violations.append(Violation("loop-exception", "none", core.exc_desc(e) if e else msg, core.site_of(e) if e else "loop", {},
                                           key=type(e).__name__ if e else msg[:40]))

    def outcome(self, st):
        f = st.req.response
        return (f.done(), None if not f.done() else type(f.exception()).__name__, len(st.srv.received))


def schedule_scenarios(tier, seed):
    K = 1 if tier == "quick" else 2
    s = [BwScenario("PUT", 50, 40, 0, K, seed), BwScenario("GET", 0, 70, 0, K, seed), BwScenario("POST", 35, 35, 0, K, seed)]
    if tier == "quick":
        s.append(BwScenario("PUT", 40, 10, 0, 2, seed))
    else:
        s += [BwScenario("FETCH", 40, 40, 0, K, seed), BwScenario("PUT", 100, 10, 1, K, seed), BwScenario("GET", 0, 100, 1, K, seed),
              BwScenario("PUT", 40, 10, 0, 3, seed), BwScenario("GET", 0, 40, 0, 3, seed)]
    return s


def run(tier, seed, jobs):
    g = grid(tier) + misgrid(tier)
    n = 64
    res = core.prun(job, [(g[i::n], seed) for i in range(n)], jobs)
    res.scenarios["grid"] = {"transfers": len(grid(tier)), "misbehaviour_runs": len(misgrid(tier))}
    scns = schedule_scenarios(tier, seed)
    for K in sorted({s.K for s in scns}):
        res.merge(explore_schedules([s for s in scns if s.K == K], K, jobs))
    return res


def replay(case, scenario, seed):
    res = Result()
    if "transfer" in case:
        p = case["transfer"]
        p = tuple(p[:7]) + ((tuple(p[7]) if p[7] else None),)
        out, pl, rep = transfer(*p, case.get("seed", 0))
        print("     outcome:", {k: (v if k not in ("payload", "bodies") else (len(v) if isinstance(v, bytes) else [len(b) for b in v] if v else v)) for k, v in out.items()})
        check_transfer(res, p, case.get("seed", 0))
        return [v for v, n in res.violations.values()]
    p = case["params"]
    return replay_schedule(BwScenario(p["method"], p["l1"], p["l2"], p["szx"], 9, seed), case["choices"])
