"""C13 - OSCORE nonces are never reused across restarts, crashes and exhaustion.

Fault enumeration on real files: every history of protect / accept / respond / clean-stop operations (up to a length)
on a FilesystemSecurityContext is run once to number its file-system effects (mkstemp, write, flush, fsync, close,
replace, unlink, lock creation) and then once per (effect, crash mode): the process "dies" before or after that effect
(or half-way through a write), the directory is left as it is, the context is reloaded and the history continues."""

import itertools
import json
import os
import shutil
import tempfile

from .. import core
from ..core import Result, Violation

import aiocoap.oscore as o
import filelock
from aiocoap import Message
from aiocoap.numbers import codes
from .c11_oscore import make, wire, SECRET, SALT

PROP = "C13"
LEVEL = "fault_enumeration"
RULE = ("fault enumeration: histories over {P protect request, A(n) accept genuine request n in {0,1,5}, AE(n) accept with fresh Echo, R "
        "respond to the last accepted request (twice: reuse then own number), Q / QP own request answered by the peer without / with its own Partial IV, S clean stop + reload, K process death between two operations + reload, X plant a stray temp file} up to "
        "length L (AR: the request that completed the last Echo exchange arrives again; in the quick tier the middle operation of the longest histories is one of P, AE, R, S, Q), chunk sizes start in {1,2,3,10} x limit in {4,10000}; for every history, every file-system effect k of every operation "
        "and every mode (before / after / half-written) one run with the process dying there, then reload and continue; plus "
        "exhaustion histories starting at 2^40-3..2^40-1 and histories across the numbers 2^8, 2^16, 2^24, 2^32, 0x1300. distinct = distinct (history, crash point)")
ASSUMPTIONS = [
    "every operation runs inside a running event loop (as the transports use a context); work handed to the loop's executor runs at the start of the next operation at the latest, and is lost if the process dies first",
    "crash = process death: completed file-system operations persist, nothing else does (power loss / un-fsynced directory entries are not modelled)",
    "file-system errors (ENOSPC etc.) are not injected",
    "stand-in cbor2 / cryptography / filelock modules as for C11 (filelock: held per process, released by process death)",
]

MAX = 2 ** 40 - 1
SID, RID = b"\x01", b"\x02"


class Crash(BaseException):
    pass


class FS:
    """Numbers file-system effects and kills the process at a chosen one."""

    def __init__(self, plan=None):
        self.n = 0
        self.plan = plan       # (k, mode) or None
        self.log = []

    def effect(self, name, do, half=None):
        self.n += 1
        k = self.n
        self.log.append(name)
        if self.plan is not None and self.plan[0] == k:
            mode = self.plan[1]
            if mode == "before":
                raise Crash()
            if mode == "half" and half is not None:
                half()
                raise Crash()
            r = do()
            raise Crash()
        return do()


class _File:
    def __init__(self, fs, f):
        self.fs, self.f = fs, f

    def write(self, data):
        return self.fs.effect("write", lambda: self.f.write(data), half=lambda: (self.f.write(data[:len(data) // 2]), self.f.flush()))

    def flush(self):
        return self.fs.effect("flush", self.f.flush)

    def fileno(self):
        return self.f.fileno()

    def __enter__(self):
        return self

    def __exit__(self, *a):
        try:
            self.f.flush()
        finally:
            self.f.close()
        if a[0] is None:
            self.fs.effect("close", lambda: None)
        return False


class _IO:
    def __init__(self, fs, real):
        self.fs, self.real = fs, real

    def open(self, *a, **k):
        return _File(self.fs, self.real.open(*a, **k))

    def __getattr__(self, n):
        return getattr(self.real, n)


class _OS:
    def __init__(self, fs, real):
        self.fs, self.real = fs, real

    def replace(self, a, b):
        return self.fs.effect("replace", lambda: self.real.replace(a, b))

    def unlink(self, p):
        return self.fs.effect("unlink", lambda: self.real.unlink(p))

    def fsync(self, fd):
        return self.fs.effect("fsync", lambda: None)     # process-death model: the data is in the page cache already

    def __getattr__(self, n):
        return getattr(self.real, n)


class _Tempfile:
    def __init__(self, fs, real):
        self.fs, self.real = fs, real

    def mkstemp(self, *a, **k):
        return self.fs.effect("mkstemp", lambda: self.real.mkstemp(*a, **k))

    def __getattr__(self, n):
        return getattr(self.real, n)


class Run:
    """One history on one scratch directory, with at most one planned crash."""

    def __init__(self, start, limit, seq_json=None):
        # (memory-backed scratch space where there is some: tens of thousands of short-lived context directories are slow on a disk
        # that other checks are using as well; what the property is about - the order of effects - is logged by the FS seam, not
        # left to the file system)
        shm = "/dev/shm"
        self.dir = tempfile.mkdtemp(prefix="c13-", dir=shm if os.path.isdir(shm) and os.access(shm, os.W_OK | os.X_OK) else None)
        json.dump({"sender-id_hex": SID.hex(), "recipient-id_hex": RID.hex(), "secret_hex": SECRET.hex(), "salt_hex": SALT.hex(), "window": 4},
                  open(os.path.join(self.dir, "settings.json"), "w"))
        if seq_json is not None:
            json.dump(seq_json, open(os.path.join(self.dir, "sequence.json"), "w"))
        self.start, self.limit = start, limit
        self.fs = FS()
        self.saved = (o.os, o.tempfile, o.io)
        o.os, o.tempfile, o.io = _OS(self.fs, os), _Tempfile(self.fs, tempfile), _IO(self.fs, __import__("io"))
        self.nonces = []          # (key, nonce) handed to encrypt under this context's sender key, all lifetimes
        self.issued = []          # sender numbers on the wire, all lifetimes: (lifetime, number)
        self.lifetime = 0
        self.accepted_ever = set()
        self.violations = []
        self.ctx = None
        self.peer = make(RID, SID, None, window=4)
        self.last_rid = None
        self.unclean = False      # a crash happened after a request was accepted since the last clean store
        self.accepted_since_clean = False
        self.trace = []
        self.deferred = []        # work handed to the loop's executor and not yet run
        run = self

        class _Loop:
            """What asyncio.get_running_loop() returns during an operation: enough of a loop to hand work to."""

            def run_in_executor(self, executor, fn, *a):
                run.deferred.append((fn, a))
                import concurrent.futures
                return concurrent.futures.Future()

            def call_soon(self, fn, *a, **k):
                run.deferred.append((fn, a))

            call_soon_threadsafe = call_soon

            def time(self):
                return 0.0

            def is_closed(self):
                return False

            def get_debug(self):
                return False
        self.loop = _Loop()
        self.fresh_n = 6          # numbers the peer uses for requests / responses it generates afresh (above 0, 1, 5)
        self.floor = -1           # highest peer number the window was legitimately re-initialised at
        try:
            self.load()
        except BaseException:
            self.close()
            raise

    def viol(self, clause, exp, obs, site, key):
        self.violations.append(Violation(clause, exp, obs, site, {}, key=key))

    def load(self):
        self.lifetime += 1
        self.last_number = None
        try:
            self.ctx = o.FilesystemSecurityContext(self.dir, sequence_number_chunksize_start=self.start,
                                                   sequence_number_chunksize_limit=self.limit)
        except Crash:
            raise
        real = self.ctx.alg_aead
        run = self

        class Logged(type(real)):
            def encrypt(self_, plaintext, aad, key, iv):
                if key == run.ctx.sender_key:
                    run.nonces.append((bytes(key), bytes(iv)))
                return real.encrypt(plaintext, aad, key, iv)
        Logged.__name__ = type(real).__name__
        self.ctx.alg_aead = Logged()
        self.last_rid = None

    def die(self):
        """Process death: nothing runs any more; the lock goes with the process."""
        c = self.ctx
        if c is not None:
            c.lockfile = None
        self.ctx = None
        filelock._process_died()
        if self.deferred:
            self.trace.append("   (%d executor job(s) die with the process)" % len(self.deferred))
        del self.deferred[:]
        if self.accepted_since_clean:
            self.unclean = True
        self.trace.append("-- process died; effects so far: %s" % self.fs.log[-6:])

    def number_of(self, outer):
        v = outer.opt.oscore
        if not v:
            return None
        n = v[0] & 7
        return int.from_bytes(v[1:1 + n], "big") if n else None

    def op(self, op):
        """Every operation runs the way the transports use a context: from inside a running event loop.  Work that the library hands
        to the loop's executor does not run at once: it runs at the start of the next operation at the latest (flush) - unless the
        process dies first, which drops it."""
        from asyncio import events
        prev = events._get_running_loop()
        events._set_running_loop(None)
        events._set_running_loop(self.loop)
        try:
            self.flush()
            return self._op(op)
        finally:
            events._set_running_loop(None)
            if prev is not None:
                events._set_running_loop(prev)

    def flush(self):
        while self.deferred:
            fn, a = self.deferred.pop(0)
            self.trace.append("   (executor job runs)")
            fn(*a)

    def _op(self, op):
        c = self.ctx
        self.trace.append("op %r" % (op,))
        if op[0] == "P":
            try:
                outer, _ = c.protect(Message(code=codes.GET, uri_path=["x"]))
            except o.ContextUnavailable:
                self.trace.append("   protect refused (exhausted)")
                return "exhausted"
            self.note_issue(self.number_of(outer))
        elif op[0] in ("A", "AE"):
            n = op[1]
            if op[0] == "AE":
                # a fresh Echo exchange is a *new* request of the peer: it carries a number the peer has not used before
                self.fresh_n += 1
                n = self.fresh_n
            self.peer.sender_sequence_number = n
            m = Message(code=codes.GET, uri_path=["y"])
            if op[0] == "AE":
                m.opt.echo = c.echo_recovery
            outer, _ = self.peer.protect(m)
            w, _ = wire(outer)
            if op[0] == "AE":
                self.last_ae = (n, w)
            try:
                inner, rid = c.unprotect(w)
                ok = True
            except o.ProtectionInvalid as e:
                ok = False
                if isinstance(e, o.ReplayErrorWithEcho):
                    # what a server does with it: render the 4.01 + Echo reply (protected under this context's sender key)
                    try:
                        reply = e.to_message()
                        self.note_issue(self.number_of(reply))
                        self.trace.append("   4.01 + Echo reply rendered")
                    except o.ContextUnavailable:
                        self.trace.append("   4.01 + Echo reply refused (exhausted)")
            self.trace.append("   request %d %s" % (n, "accepted" if ok else "refused"))
            if ok:
                if n in self.accepted_ever:
                    self.viol("request-accepted-twice", "number %d refused (accepted in an earlier or this lifetime)" % n, "accepted",
                              "oscore.py:FilesystemSecurityContext", "twice:%s" % ("after-crash" if self.unclean else "clean"))
                self.accepted_ever.add(n)
                self.accepted_since_clean = True
                self.last_rid = rid
            else:
                fresh = (not self.accepted_ever or n > max(self.accepted_ever)) and n > self.floor
                initialised = c.recipient_replay_window.is_initialized()
                if fresh and initialised and op[0] == "A" and n not in self.accepted_ever:
                    self.viol("fresh-request-refused", "accepted", "refused", "oscore.py:FilesystemSecurityContext", "fresh")
                if op[0] == "AE" and n not in self.accepted_ever and (not self.accepted_ever or n > max(self.accepted_ever)) and n > self.floor:
                    self.viol("echoed-request-refused", "accepted after echoing this process's value", "refused", "oscore.py:unprotect", "echo")
        elif op[0] == "AR":
            # the very request that completed an Echo exchange arrives again
            if getattr(self, "last_ae", None) is None:
                return
            n, w = self.last_ae
            try:
                c.unprotect(w)
                ok = True
            except o.ProtectionInvalid:
                ok = False
            self.trace.append("   replay of echo-carrying request %d %s" % (n, "accepted" if ok else "refused"))
            if ok:
                if n in self.accepted_ever:
                    self.viol("request-accepted-twice", "number %d refused (it completed the Echo exchange before)" % n, "accepted",
                              "oscore.py:ReplayWindow.initialize_from_freshlyseen", "twice:echo-request")
                self.accepted_ever.add(n)
                self.accepted_since_clean = True
        elif op[0] == "R":
            if self.last_rid is None:
                return
            for i in range(2):
                try:
                    outer, _ = c.protect(Message(code=codes.CONTENT, payload=b"r"), request_id=self.last_rid)
                except o.ContextUnavailable:
                    self.trace.append("   protect of a response refused (exhausted)")
                    return "exhausted"
                self.note_issue(self.number_of(outer))
        elif op[0] in ("Q", "QP"):
            # this node in the client role: an own request, answered by the peer without (Q) or with (QP) a Partial IV of its own
            try:
                outer, myrid = c.protect(Message(code=codes.GET, uri_path=["q"]))
            except o.ContextUnavailable:
                self.trace.append("   protect refused (exhausted)")
                return "exhausted"
            self.note_issue(self.number_of(outer))
            w, _ = wire(outer)
            _, prid = self.peer.unprotect(w)
            if op[0] == "QP":
                prid.can_reuse_nonce = False
                # the peer's numbers only ever grow: its own Partial IV is above everything it has sent before
                self.fresh_n += 1
                self.peer.sender_sequence_number = self.fresh_n
            was_initialised = c.recipient_replay_window.is_initialized()
            router, _ = self.peer.protect(Message(code=codes.CONTENT, payload=b"a"), request_id=prid)
            rw, _ = wire(router)
            try:
                inner, _ = c.unprotect(rw, myrid)
                self.trace.append("   response to own request accepted")
                if op[0] == "QP" and not was_initialised:
                    # a fresh response carrying the peer's own number legitimately re-initialises the window at that number
                    self.floor = self.fresh_n
            except o.ProtectionInvalid as e:
                self.viol("own-response-refused", "accepted", core.exc_desc(e), "oscore.py:unprotect", "ownresp")
        elif op[0] == "S":
            c._destroy()
            self.ctx = None
            self.unclean = False
            self.accepted_since_clean = False
            self.load()
        elif op[0] == "K":
            # the process dies between two operations, at a moment without any file-system effect, and is started again
            self.die()
            self.load()
        elif op[0] == "X":
            with open(os.path.join(self.dir, ".sequence-stray.json"), "w") as f:
                json.dump({"next-to-send": 0, "received": {"index": 0, "bitfield": 0}}, f)

    def note_issue(self, n):
        if n is None:
            return
        self.trace.append("   issued sender number %d" % n)
        if self.last_number is not None and n <= self.last_number:
            self.viol("sender-number-not-increasing", "> %d" % self.last_number, n, "oscore.py:new_sequence_number", "order")
        self.last_number = n
        if n >= MAX:
            self.viol("sender-number-beyond-maximum", "< 2^40-1", n, "oscore.py:new_sequence_number", "max")
        if n in [x for _, x in self.issued]:
            self.viol("sender-number-reissued", "never issued twice", {"number": n, "lifetimes": [l for l, x in self.issued if x == n] + [self.lifetime]},
                      "oscore.py:FilesystemSecurityContext.post_seqnoincrease", "reissued")
        self.issued.append((self.lifetime, n))

    def finish(self):
        seen = set()
        for kn in self.nonces:
            if kn in seen:
                self.viol("nonce-reused", "every (key, nonce) pair encrypts once", kn[1].hex(), "oscore.py:protect", "nonce")
                break
            seen.add(kn)

    def close(self):
        if self.ctx is not None:
            self.ctx.lockfile = None
        self.ctx = None
        filelock._process_died()
        o.os, o.tempfile, o.io = self.saved
        shutil.rmtree(self.dir, ignore_errors=True)


def execute(history, start, limit, plan, seq_json=None):
    """plan = None | (op index, effect number within that op, mode) | a list of such triples (several crashes).
    Returns (run, effects per op, effect names)."""
    plans = [] if plan is None else ([plan] if isinstance(plan, tuple) else list(plan))
    r = Run(start, limit, seq_json)
    per_op = []
    names = []
    try:
        for i, op in enumerate(history):
            base = r.fs.n
            mine = [p for p in plans if p[0] == i]
            if mine:
                r.fs.plan = (base + mine[0][1], mine[0][2])
            try:
                r.op(op)
            except Crash:
                r.fs.plan = None
                r.die()
                r.load()
            except Exception as e:
                r.viol("operation-raises", "the operation succeeds or refuses with a library error", core.exc_desc(e), core.site_of(e),
                       "%s@%s" % (type(e).__name__, core.site_of(e)))
                break
            r.fs.plan = None
            per_op.append(r.fs.n - base)
        r.finish()
    finally:
        names = list(r.fs.log)
        r.close()
    return r, per_op, names


OPS = [("P",), ("A", 0), ("A", 1), ("A", 5), ("AE", 6), ("AR",), ("R",), ("S",), ("X",), ("Q",), ("QP",), ("K",)]
CORE = [("P",), ("AE", 6), ("R",), ("S",), ("Q",)]     # middle operations of the longest quick histories


def check_history(res, history, start, limit, seq_json=None, crashes=True, double=False):
    base = {"history": [list(o_) for o_ in history], "start": start, "limit": limit, "seq": seq_json}
    r, per_op, names = execute(history, start, limit, None, seq_json)
    res.evaluations += 1
    res.traces += 1
    for v in r.violations:
        v["case"] = core.jsonable(dict(base, crash=None))
        v["trace"] = r.trace[-30:]
        res.violate(v)
    res.signatures.add(core.digest((history, start, limit, None)))
    res.outcomes.add(core.digest((len(r.issued), len(r.accepted_ever))))
    if not crashes:
        return r
    pos = 0
    for i, n in enumerate(per_op):
        for k in range(1, n + 1):
            name = names[pos + k - 1]
            for mode in ("before", "after") + (("half",) if name == "write" else ()):
                rr, _, _ = execute(history, start, limit, (i, k, mode), seq_json)
                res.evaluations += 1
                res.traces += 1
                for v in rr.violations:
                    v["case"] = core.jsonable(dict(base, crash=[i, k, mode, name]))
                    v["trace"] = rr.trace[-30:]
                    v["key"] = v["key"] + "@" + name + ":" + mode
                    res.violate(v)
                res.signatures.add(core.digest((history, start, limit, i, k, mode)))
                res.outcomes.add(core.digest((len(rr.issued), len(rr.accepted_ever), rr.unclean)))
                if double:
                    # a second crash in every later operation of the run that already crashed once
                    _, per2, names2 = execute(history, start, limit, (i, k, mode), seq_json)
                    pos2 = sum(per2[:i + 1])
                    for j in range(i + 1, len(per2)):
                        for k2 in range(1, per2[j] + 1):
                            for mode2 in ("before", "after"):
                                r2, _, _ = execute(history, start, limit, [(i, k, mode), (j, k2, mode2)], seq_json)
                                res.evaluations += 1
                                res.traces += 1
                                for v in r2.violations:
                                    v["case"] = core.jsonable(dict(base, crash=[[i, k, mode], [j, k2, mode2]]))
                                    v["trace"] = r2.trace[-30:]
                                    v["key"] = v["key"] + "@double"
                                    res.violate(v)
                                res.signatures.add(core.digest((history, start, limit, i, k, mode, j, k2, mode2)))
                        pos2 += per2[j]
        pos += n
    return r


def job(arg):
    kind, item, tier = arg
    res = Result()
    if kind == "hist":
        first, L, start, limit = item
        for n in range(0, L):
            for rest in itertools.product(OPS, repeat=n):
                if tier == "quick" and n == 2 and rest[0] not in CORE:
                    continue
                h = (first,) + rest
                if sum(1 for x in h if x[0] == "S") > 2:
                    continue
                # every history ends with activity after the last stop, so that re-issued numbers and replays show
                check_history(res, h + (("P",), ("A", 0), ("A", 1), ("A", 5)), start, limit)
        res.sample({"history": [list(first), ["A", 1], ["S"], ["P"]], "chunk_start": start, "chunk_limit": limit,
                    "crash": "every effect of every op x before/after/half"})
    elif kind == "long":
        start, limit = item
        # long runs of protects across several chunk boundaries, with a stop in the middle
        h = tuple([("P",)] * 12 + [("A", 1), ("S",)] + [("P",)] * 8)
        check_history(res, h, start, limit)
        # two crashes in one history (a crash during the recovery from a crash)
        h2 = (("P",), ("A", 1), ("P",), ("S",), ("P",), ("A", 0), ("A", 1), ("P",))
        check_history(res, h2, start, limit, double=(tier == "thorough" or (start, limit) == (1, 4)))
        # two process deaths around an Echo exchange: the request that completed the exchange of the second lifetime must not be
        # good for a third one (every process issues its own Echo value), nor may anything accepted in between
        for h3 in ((("A", 0), ("K",), ("AE", 6), ("A", 5), ("K",), ("AR",), ("A", 5), ("A", 0)),
                   (("A", 0), ("A", 1), ("K",), ("AE", 6), ("R",), ("K",), ("AR",), ("AE", 6), ("AR",)),
                   (("P",), ("K",), ("P",), ("K",), ("P",), ("A", 0), ("K",), ("P",), ("A", 0))):
            check_history(res, h3, start, limit, crashes=(tier == "thorough"))
        res.sample({"history": "12 x P, A1, S, 8 x P", "chunk_start": start, "chunk_limit": limit})
    else:
        for nts in (MAX - 3, MAX - 2, MAX - 1, MAX):
            for recv in ({"index": 0, "bitfield": 0}, "unknown"):
                r = check_history(res, (("P",), ("P",), ("P",), ("S",), ("P",), ("P",)), 1, 4, {"next-to-send": nts, "received": recv}, crashes=(nts < MAX))
        # ... and responses at the end of the number space: the second response to a request needs a number of its own and there is none
        for nts in (MAX - 2, MAX - 1, MAX):
            check_history(res, (("A", 0), ("R",), ("A", 1), ("R",), ("P",), ("A", 5), ("R",)), 1, 4, {"next-to-send": nts, "received": {"index": 0, "bitfield": 0}},
                          crashes=(tier == "thorough" and nts < MAX))
        # numbers whose encoding grows by a byte, or ends in zero bytes, part of the way through the history
        for nts in (254, 255, 65534, 65535, 2 ** 24 - 2, 2 ** 32 - 2, 0x12FE):
            for start, limit in ((1, 4), (10, 10000)):
                check_history(res, (("P",), ("P",), ("P",), ("S",), ("P",), ("P",)), start, limit, {"next-to-send": nts, "received": {"index": 0, "bitfield": 0}},
                              crashes=(tier == "thorough"))
        res.sample({"start_next_to_send": MAX - 2, "history": "P P P S P P"})
    return res


def run(tier, seed, jobs):
    import shimtest
    shimtest.run()
    L = 2 if tier == "quick" else 3
    work = []
    grid = [(1, 4), (2, 10000), (3, 4), (10, 10000)] if tier == "quick" else [(s, l) for s in (1, 2, 3, 10) for l in (4, 10000)]
    for (start, limit) in grid:
        for first in OPS:
            work.append(("hist", (first, L + (1 if (tier == "quick" and (start, limit) == (1, 4)) else 0), start, limit), tier))
        work.append(("long", (start, limit), tier))
    work.append(("exhaust", None, tier))
    return core.prun(job, work, jobs)


def replay(case, scenario, seed):
    h = tuple(tuple(x) for x in case["history"])
    plan = None
    if case.get("crash"):
        if isinstance(case["crash"][0], list):
            plan = [tuple(c[:3]) for c in case["crash"]]
        else:
            i, k, mode, name = case["crash"]
            plan = (i, k, mode)
    r, per_op, names = execute(h, case["start"], case["limit"], plan, case.get("seq"))
    for line in r.trace:
        print("    ", line)
    return r.violations
