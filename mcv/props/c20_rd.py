"""C20 - resource directory: lookups reflect exactly the live registrations.

E3 (BFS with dedup) over histories of registrations, re-registrations (valid and invalid), updates (POST/PUT, valid and
invalid), removals and clock steps across lifetime boundaries, pushed through Context.render_to_pipe into a real
StandaloneResourceDirectory; after every step both lookup interfaces are compared with a model, and every request
answered 4.xx must leave the directory's canonical state (tables, parameters, links, timers) untouched."""

from .. import core
from ..core import Result, Violation
from ..explore import bfs
from ..seam2 import SiteWorld, endpoint
from .c17_site import parse_linkformat

import logging

from aiocoap import Message, GET, POST, PUT, DELETE
from aiocoap.cli.rd import StandaloneResourceDirectory

logging.getLogger("resource-directory").addHandler(logging.NullHandler())
logging.getLogger("resource-directory").propagate = False

PROP = "C20"
LEVEL = "model_checking"
RULE = ("E3: BFS over all sequences to depth D of: 5 valid registrations over keys (e1), (e1,d1), (e2) with lt absent/60/120 and two "
        "link sets; 6 invalid registrations of a possibly live key (no ep, lt=abc, two lt, forbidden key, bad body, wrong content "
        "format); updates of the first/second location by POST (lt, parameter, illegal ep=, lt=abc, with body) and PUT (links, bad "
        "body, illegal parameter); DELETE; unknown location; clock steps to just before/after the earliest expiry; updates with several "
        "parameters (one unchanged, others new); simple registrations through /.well-known/rd and /.well-known/core whose link fetch "
        "is answered with link sets / 4.04 / a wrong content format / not link-format, or which carry base=; dedup on model + "
        "directory tables + timers")
ASSUMPTIONS = [
    "grace period 15 s and default lifetime 90000 s as documented in cli/rd.py / RFC 9176",
    "exact ties with an expiry instant are not explored (0.5 s before / after)",
    "registrations come from two endpoint addresses; base is always derived from the source address",
]

GRACE = 15
L1 = b'</a>;rt="x"'
L2 = b'</b>;if="y",</c>'
L3 = b'</q>;title="say \\"hi\\"",</r>'       # a quoted-string with escaped quotes
# (RFC 9176 section 5.3 example) a link whose target is elsewhere and whose anchor is relative: the anchor resolves against the
# registration's base, not against the target
L4 = b'<http://www.example.com/sensors/t123>;anchor="/sensors/temp";rel="describedby",</t>;anchor="x/y"'
L6 = b'</g>;hreflang="en";hreflang="de",</h>;rt="x"'      # one attribute name twice within a link: both values are the link's
L5 = b'</e>;title="",</f>;flag'        # an empty attribute value next to a value-less attribute
LINKS = {"L6": (L6, ["/g", "/h"]), "L5": (L5, ["/e", "/f"]), "L1": (L1, ["/a"]), "L2": (L2, ["/b", "/c"]), "L3": (L3, ["/q", "/r"]), "L4": (L4, ["http://www.example.com/sensors/t123", "/t"])}
LINK_ANCHORS = {"http://www.example.com/sensors/t123": "/sensors/temp", "/t": "/x/y"}
LINK_ATTRS = {"/g": {"hreflang": "de"}, "/h": {"rt": "x"}, "/e": {"title": ""}, "/f": {"flag": None}, "http://www.example.com/sensors/t123": {"rel": "describedby"}, "/t": {}, "/a": {"rt": "x"}, "/b": {"if": "y"}, "/c": {}, "/q": {"title": 'say "hi"'}, "/r": {}}
RDP = ["resourcedirectory", ""]
EPL = ["endpoint-lookup", ""]
RSL = ["resource-lookup", ""]

OPS = [
    ("reg", "e1", None, 60, "L1", None), ("reg", "e1", None, 120, "L2", None), ("reg", "e1", "d1", None, "L1", None),
    ("reg", "e2", None, 60, "L2", None), ("reg", "e1", None, None, "L1", "x=1"),
    # parameter values and link attributes that need quoting in a lookup result: a double quote, a trailing backslash
    ("reg", "e2", None, 60, "L3", 'x=a"b'), ("reg", "e1", "d1", 60, "L1", "x=q\\"),
    ("reg", "e2", None, 120, "L4", None),
    # the smallest lifetime there is: gone as soon as the grace period is over
    ("reg", "e1", None, 0, "L1", None), ("upd", 0, "lt=0"),
    ("badreg", "noep"), ("badreg", "lt=abc"), ("badreg", "twolt"), ("badreg", "rt=x"), ("badreg", "body"), ("badreg", "cf"),
    ("upd", 0, "lt=120"), ("upd", 0, "x=2"), ("upd", 0, "base=coap://[2001:db8::77]:1234"),
    # a valid new lifetime next to a parameter that makes the whole update invalid
    ("upd", 0, "lt=30&base=coap://[2001:db8::a]&base=coap://[2001:db8::b]"),
    # a re-registration that carries neither lt nor base nor anything else: default lifetime, base from the source address
    ("reg", "e1", None, None, "L1", None), ("upd", 0, "ep=e9"), ("upd", 0, "lt=abc"), ("upd", 0, "body"), ("upd", 1, "lt=60"),
    ("put", 0, "L2"), ("put", 0, "badbody"), ("put", 0, "L2+d=zz"),
    ("del", 0), ("del", 1), ("upd", "nowhere", "lt=60"),
    ("t", "before"), ("t", "after"),
    # updates that carry several parameters at once: one the registration already has, then new ones (every one of them counts)
    ("upd", 0, "x=1&y=2"), ("upd", 0, "y=2&x=3"),
    # simple registration (RFC 9176 section 5.1): the directory fetches the registrant's /.well-known/core itself; the outcome of
    # that fetch is the last-but-one field (link set / 4.04 / wrong content format / not link-format); "+base" is refused outright
    ("simple", "e1", None, 60, "L2", "rd"), ("simple", "e1", None, 60, "404", "rd"), ("simple", "e2", None, None, "cf", "core"),
    ("simple", "e1", "d1", 120, "garbage", "rd"), ("simple", "e1", None, 60, "L1+base", "rd"), ("simple", "e2", None, 60, "L1", "core"),
    # an endpoint name that spells like "name.sector" of another registration: (e1.d1, no sector) and (e1, d1) are two endpoints
    ("reg", "e1.d1", None, 60, "L2", None),
    # the endpoint has moved: its update (without any parameter / with one) comes from another address, and the base follows
    ("updfrom", 0, "", 3), ("updfrom", 0, "lt=60", 3),
    # an update that spells out, as its explicit base, exactly what has been derived from the source address so far
    ("upd", 0, "base=coap://[2001:db8::1]:40000"),
    # a parameter with an empty value is a parameter with an empty value (not a value-less flag) in every lookup
    ("reg", "e2", None, 60, "L5", "room="), ("upd", 0, "x="),
    ("reg", "e2", None, 120, "L6", None),
]
CORE4 = [("reg", "e1", None, 120, "L2", None), ("reg", "e1", "d1", None, "L1", None), ("reg", "e2", None, 60, "L2", None), ("reg", "e1", None, 0, "L1", None),
         ("badreg", "lt=abc"), ("badreg", "body"), ("upd", 0, "lt=120"), ("upd", 0, "x=2"), ("upd", 0, "ep=e9"), ("upd", 0, "body"), ("upd", 1, "lt=60"),
         ("upd", 0, "x=1&y=2"), ("simple", "e1", None, 60, "L2", "rd"), ("simple", "e1", None, 60, "404", "rd"), ("reg", "e1.d1", None, 60, "L2", None),
         ("upd", "nowhere", "lt=60")]
INVALID_UPDATES = ("ep=e9", "lt=abc", "lt=30&base=coap://[2001:db8::a]&base=coap://[2001:db8::b]")


class FakeFetch:
    """What SimpleRegistration gets from context.request(): the registrant's answer to GET /.well-known/core, chosen by the op."""

    def __init__(self, st, msg):
        from aiocoap import error
        from aiocoap.numbers.codes import Code
        st.fetches.append((int(msg.code), msg.get_request_uri() if msg.remote is None or msg.opt.uri_path else None, msg.opt.accept))
        out = st.fetch_outcome
        self.response = st.sw.loop.create_future()
        if out in LINKS:
            r = Message(code=Code.CONTENT, payload=LINKS[out][0], content_format=40)
        elif out == "404":
            r = Message(code=Code.NOT_FOUND)
        elif out == "cf":
            r = Message(code=Code.CONTENT, payload=L1, content_format=0)
        else:
            r = Message(code=Code.CONTENT, payload=b"<<<not link format", content_format=40)
        st.sw.loop.call_soon(self.response.set_result, r)
        self._error = error

    @property
    async def response_raising(self):
        r = await self.response
        if not r.code.is_successful():
            raise self._error.ResponseWrappingError(r)
        return r

    @property
    async def response_nonraising(self):
        return await self.response


class St:
    pass


EXTENDED_ALWAYS = [False]


def build(hist):
    st = St()
    holder = {}

    def factory(sw):
        rd = StandaloneResourceDirectory(context=sw.ctx)
        holder["rd"] = rd
        return rd
    st.sw = SiteWorld(factory)
    st.rd = holder["rd"]
    st.model = {}        # key -> dict(loc, params, links, lt, written)
    st.locs = []         # locations in order of first appearance
    st.violations = []
    st.last = []
    st.fetches = []
    st.fetch_outcome = None
    st.sw.ctx.request = lambda msg, **kw: FakeFetch(st, msg)
    for i, op in enumerate(hist):
        n = len(st.violations)
        # the lookups are compared in full after the last step only: every proper prefix is a state of its own and was judged there
        st.final = i == len(hist) - 1
        st.extended = EXTENDED_ALWAYS[0] or len(hist) <= 3     # attribute filters and pagination: on short histories in the quick tier
        apply(st, op)
        st.last = st.violations[n:]
    return st


def impl_canon(st):
    rd = st.rd.common_rd
    now = st.sw.loop.time()
    regs = []
    for key, r in rd._by_key.items():
        regs.append((key, r.path, r.lt, r.base, sorted((k, tuple(v)) for k, v in r.registration_parameters.items()), str(r.links)))
    return (sorted(regs, key=repr), sorted(rd._by_path), st.sw.loop.pending_timers())


def live(st):
    now = st.sw.loop.time()
    return {k: m for k, m in st.model.items() if now < m["written"] + m["lt"] + GRACE}


def request(st, code, path, query=(), payload=b"", cf=None, ep=1):
    m = Message(code=code, uri_path=list(path), uri_query=list(query), payload=payload)
    if cf is not None:
        m.opt.content_format = cf
    return st.sw.do(m, ep)


def viol(st, clause, exp, obs, site, key):
    st.violations.append(Violation(clause, exp, obs, site, {}, key=key))


def apply(st, op):
    if getattr(st, "diverged", False):
        return      # a rejected request already changed the directory: everything after it would only echo that finding
    sw = st.sw
    now = sw.loop.time()
    # expire in the model what has run out
    for k in [k for k, m in st.model.items() if now >= m["written"] + m["lt"] + GRACE]:
        del st.model[k]
    before = impl_canon(st)
    before_lookups = lookups(st) if st.final else None
    expect_error = False
    r = None
    if op[0] == "t":
        lv = live(st)
        if not lv:
            return
        t = min(m["written"] + m["lt"] + GRACE for m in lv.values())
        target = t - 0.5 if op[1] == "before" else t + 0.5
        if target > now:
            sw.loop.advance_to(target)
        now = sw.loop.time()
        for k in [k for k, m in st.model.items() if now >= m["written"] + m["lt"] + GRACE]:
            del st.model[k]
    elif op[0] == "reg":
        _, epn, d, lt, links, extra = op
        q = ["ep=" + epn] + (["d=" + d] if d else []) + (["lt=%d" % lt] if lt is not None else []) + ([extra] if extra else [])
        src = 1 if epn == "e1" else 2
        r = request(st, POST, RDP, q, LINKS[links][0], 40, ep=src)
        # (a registration is a complete new write: whatever an earlier update from elsewhere did to the base is over)
        key = (epn, d)
        loc = tuple(r.opt.location_path) if hasattr(r, "opt") else None
        if not (hasattr(r, "code") and int(r.code) == 65 and loc):
            viol(st, "valid-registration-refused", "2.01 with a location", repr(r), "cli/rd.py:DirectoryResource.render_post", "reg")
        else:
            old = st.model.get(key)
            if old is not None and old["loc"] != loc:
                viol(st, "re-registration-moved", old["loc"], loc, "cli/rd.py:CommonRD.initialize_endpoint", "moved")
            others = [m["loc"] for k, m in st.model.items() if k != key]
            if loc in others:
                viol(st, "location-shared", "distinct registrations have distinct locations", loc, "cli/rd.py:CommonRD._new_pathtail", "shared")
            params = {"ep": [epn]}
            if d:
                params["d"] = [d]
            if extra:
                k, v = extra.split("=", 1)
                params[k] = [v]
            st.model[key] = {"loc": loc, "params": params, "links": links, "lt": 90000 if lt is None else lt, "written": now,
                             "base": "coap://[2001:db8::%x]:40000" % src}
            if loc not in st.locs:
                st.locs.append(loc)
    elif op[0] == "simple":
        _, epn, d, lt, outcome, where = op
        q = ["ep=" + epn] + (["d=" + d] if d else []) + (["lt=%d" % lt] if lt is not None else [])
        src = 1 if epn == "e1" else 2
        refused = outcome.endswith("+base")
        if refused:
            q.append("base=coap://[2001:db8::99]")
            outcome = outcome[:-5]
        st.fetch_outcome = outcome
        n_f = len(st.fetches)
        r = request(st, POST, [".well-known", where], q, b"", None, ep=src)
        key = (epn, d)
        if refused or outcome not in LINKS:
            expect_error = True
        elif not (hasattr(r, "code") and int(r.code) == 68):
            viol(st, "valid-registration-refused", "2.04", repr(r), "cli/rd.py:SimpleRegistration.render_post", "simple")
        else:
            want_fetch = [(1, "coap://[2001:db8::%x]:40000/.well-known/core" % src, 40)]
            if st.fetches[n_f:] != want_fetch:
                viol(st, "simple-registration-fetch", want_fetch, st.fetches[n_f:], "cli/rd.py:SimpleRegistration.process_request", "fetch")
            reg = st.rd.common_rd._by_key.get(key)
            loc = tuple(reg.path) if reg is not None else None
            old = st.model.get(key)
            if loc is None:
                viol(st, "valid-registration-refused", "a registration for %r" % (key,), "none in the table", "cli/rd.py:SimpleRegistration.process_request", "simple-lost")
            else:
                if old is not None and old["loc"] != loc:
                    viol(st, "re-registration-moved", old["loc"], loc, "cli/rd.py:CommonRD.initialize_endpoint", "moved")
                if loc in [m["loc"] for k, m in st.model.items() if k != key]:
                    viol(st, "location-shared", "distinct registrations have distinct locations", loc, "cli/rd.py:CommonRD._new_pathtail", "shared")
                params = {"ep": [epn]}
                if d:
                    params["d"] = [d]
                st.model[key] = {"loc": loc, "params": params, "links": outcome, "lt": 90000 if lt is None else lt, "written": now,
                                 "base": "coap://[2001:db8::%x]:40000" % src}
                if loc not in st.locs:
                    st.locs.append(loc)
    elif op[0] == "badreg":
        kind = op[1]
        q, body, cf = ["ep=e1", "lt=60"], L1, 40
        if kind == "noep":
            q = ["lt=60"]
        elif kind == "lt=abc":
            q = ["ep=e1", "lt=abc"]
        elif kind == "twolt":
            q = ["ep=e1", "lt=60", "lt=70"]
        elif kind == "rt=x":
            q = ["ep=e1", "rt=x"]
        elif kind == "body":
            body = b"<<<not link format"
        elif kind == "cf":
            cf = 0
        r = request(st, POST, RDP, q, body, cf, ep=1)
        expect_error = True
    elif op[0] == "updfrom":
        _, which, arg, src = op
        if which >= len(st.locs):
            return
        loc = st.locs[which]
        target = [k for k, m in live(st).items() if m["loc"] == loc]
        m = st.model[target[0]] if target else None
        r = request(st, POST, loc, [arg] if arg else [], ep=src)
        if m is None:
            expect_error = True
        else:
            if int(r.code) != 68:
                viol(st, "valid-update-refused", "2.04", repr(r), "cli/rd.py:RegistrationResource.render_post", "updfrom")
            if arg:
                m["lt"] = int(arg.split("=")[1])
            if not m.get("explicit_base"):
                m["base"] = "coap://[2001:db8::%x]:40000" % src      # the base that was derived from the source address follows it
            m["written"] = now
    elif op[0] in ("upd", "put", "del"):
        which = op[1]
        if which == "nowhere":
            loc = ("reg", "77", "")
        elif which < len(st.locs):
            loc = st.locs[which]
        else:
            return
        target = [k for k, m in live(st).items() if m["loc"] == loc]
        m = st.model[target[0]] if target else None
        src = 1 if (m is None or m["params"]["ep"] == ["e1"]) else 2
        if op[0] == "del":
            r = request(st, DELETE, loc, ep=src)
            if m is None:
                expect_error = True
            else:
                if int(r.code) != 66:
                    viol(st, "delete-refused", "2.02", repr(r), "cli/rd.py:RegistrationResource.render_delete", "del")
                del st.model[target[0]]
        elif op[0] == "upd":
            arg = op[2]
            if arg == "body":
                r = request(st, POST, loc, ["lt=500"], b"junk", None, ep=src)
                expect_error = True
            else:
                r = request(st, POST, loc, arg.split("&"), ep=src)
                if m is None or arg in INVALID_UPDATES:
                    expect_error = True
                else:
                    if int(r.code) != 68:
                        viol(st, "valid-update-refused", "2.04", repr(r), "cli/rd.py:RegistrationResource.render_post", "upd")
                    for part in arg.split("&"):
                        k, v = part.split("=", 1)
                        if k == "lt":
                            m["lt"] = int(v)
                        elif k == "base":
                            m["base"] = v        # an explicit base replaces the one derived from the source address, for every link
                            m["explicit_base"] = True
                        else:
                            m["params"][k] = [v]
                    if not m.get("explicit_base"):
                        m["base"] = "coap://[2001:db8::%x]:40000" % src      # a base derived from the source address follows every write
                    m["written"] = now
        else:
            arg = op[2]
            if arg == "badbody":
                r = request(st, PUT, loc, [], b"<<<", 40, ep=src)
                expect_error = True
            elif arg == "L2+d=zz":
                r = request(st, PUT, loc, ["d=zz"], L2, 40, ep=src)
                expect_error = True
            else:
                r = request(st, PUT, loc, [], L2, 40, ep=src)
                if m is None:
                    expect_error = True
                else:
                    if int(r.code) != 68:
                        viol(st, "valid-update-refused", "2.04", repr(r), "cli/rd.py:RegistrationResource.render_put", "put")
                    m["links"] = "L2"
                    if not m.get("explicit_base"):
                        m["base"] = "coap://[2001:db8::%x]:40000" % src
                    m["written"] = now
    if expect_error:
        code = int(r.code) if hasattr(r, "code") else -1
        if not (128 <= code < 160):
            viol(st, "invalid-request-accepted", "4.xx", repr(r), "cli/rd.py", "%s:%s" % (op[0], op[-1]))
        after = impl_canon(st)
        if after != before or (st.final and lookups(st) != before_lookups):
            what = "tables" if after[:2] != before[:2] else "timers" if after[2] != before[2] else "lookups"
            viol(st, "rejected-request-changed-directory", "directory unchanged by a request answered 4.xx",
                 {"changed": what, "before": core.jsonable(before)[:2], "after": core.jsonable(after)[:2]},
                 "cli/rd.py", "%s:%s/%s" % (op[0], op[-1], what))
            st.diverged = True
            return      # the model no longer describes the directory; later lookups would only repeat this finding
    if st.final:
        check_lookups(st)
    for msg, e in sw.loop_exceptions():
        viol(st, "loop-exception", "none", core.exc_desc(e) if e else msg, core.site_of(e) if e else "loop", type(e).__name__ if e else msg[:40])
    sw.loop.exc.clear()


def lookups(st):
    a = request(st, GET, EPL)
    b = request(st, GET, RSL)
    return (bytes(a.payload), bytes(b.payload))


def check_lookups(st):
    a, b = lookups(st)
    lv = live(st)
    try:
        eps = parse_linkformat(a.decode("utf8"))
        ress = parse_linkformat(b.decode("utf8"))
    except Exception as e:
        viol(st, "lookup-unparsable", "link-format", core.exc_desc(e), "cli/rd.py", "parse")
        return
    want = []
    for key, m in lv.items():
        attrs = {"base": m["base"], "rt": "core.rd-ep"}
        for k, v in m["params"].items():
            attrs[k] = v[0]
        want.append(("/" + "/".join(m["loc"]), tuple(sorted(attrs.items()))))
    got = [(h, tuple(sorted(at.items()))) for h, at in eps]
    if sorted(got) != sorted(want):
        kind = "more" if len(got) > len(want) else "fewer" if len(got) < len(want) else "different"
        viol(st, "endpoint-lookup", sorted(want), sorted(got), "cli/rd.py:EndpointLookupInterface", kind)
    wantr = []
    for key, m in lv.items():
        for href in LINKS[m["links"]][1]:
            wantr.append(href if "://" in href else m["base"] + href)
    gotr = [h for h, at in ress]
    # anchors (where a link has one) come back resolved against the registration's base
    wanta = sorted((href if "://" in href else m["base"] + href, m["base"] + LINK_ANCHORS[href])
                   for key, m in lv.items() for href in LINKS[m["links"]][1] if href in LINK_ANCHORS)
    gota = sorted((h, at.get("anchor")) for h, at in ress if h.split("]:40000")[-1] in LINK_ANCHORS or h in LINK_ANCHORS or any(h.endswith(k) for k in LINK_ANCHORS))
    if gota != wanta:
        viol(st, "resource-lookup", wanta, gota, "cli/rd.py:Registration.get_based_links", "anchor")
    # a link registered with one attribute name twice comes back with both values (the dictionary view below cannot show that)
    if any(m["links"] == "L6" for m in lv.values()) and not (b'hreflang="en"' in b and b'hreflang="de"' in b):
        viol(st, "resource-lookup", 'hreflang="en";hreflang="de" on /g', b.decode("utf8", "replace")[:200], "util/linkformat.py:parse", "repeated-attribute")
    # each link comes back with the attributes it was registered with (an empty value stays an empty value, a flag stays a flag)
    for h, at in ress:
        local = h
        for key, m in lv.items():
            if h.startswith(m["base"]):
                local = h[len(m["base"]):]
        exp_at = LINK_ATTRS.get(local)
        got_at = {k: v for k, v in at.items() if k != "anchor"}
        if exp_at is not None and local != "/g" and got_at != exp_at:
            viol(st, "resource-lookup", {local: exp_at}, {local: got_at}, "util/linkformat.py:Link.__str__", "attributes")
            break
    if sorted(gotr) != sorted(wantr):
        kind = "more" if len(gotr) > len(wantr) else "fewer" if len(gotr) < len(wantr) else "different"
        viol(st, "resource-lookup", sorted(wantr), sorted(gotr), "cli/rd.py:ResourceLookupInterface", kind)
    # filtered lookups name exactly the matching subset
    for flt, pred in (("ep=e1", lambda k, m: k[0] == "e1"), ("d=d1", lambda k, m: k[1] == "d1"), ("ep=e*", lambda k, m: True),
                      # several criteria are a conjunction (RFC 9176 section 6.1), in either order
                      (("ep=e1", "d=d1"), lambda k, m: k[0] == "e1" and k[1] == "d1"),
                      (("d=d1", "ep=e1"), lambda k, m: k[0] == "e1" and k[1] == "d1"),
                      (("ep=e2", "ep=e*"), lambda k, m: k[0] == "e2")):
        r = request(st, GET, EPL, [flt] if isinstance(flt, str) else list(flt))
        try:
            g = sorted(h for h, at in parse_linkformat(r.payload.decode("utf8")))
        except Exception:
            g = ["unparsable"]
        w = sorted("/" + "/".join(m["loc"]) for k, m in lv.items() if pred(k, m))
        if g != w:
            viol(st, "endpoint-lookup-filter", w, g, "cli/rd.py:EndpointLookupInterface", flt if isinstance(flt, str) else "&".join(flt))
    rd = st.rd.common_rd
    if set(id(x) for x in rd._by_key.values()) != set(id(x) for x in rd._by_path.values()):
        viol(st, "tables-disagree", "by_key and by_path describe the same registrations", [list(rd._by_key), list(rd._by_path)],
             "cli/rd.py:CommonRD", "tables")
    if not getattr(st, "extended", True):
        return
    # resource lookups filtered by link attributes and by registration parameters; endpoint lookups filtered by link attributes
    def links_of(k, m):
        return [((h if "://" in h else m["base"] + h), LINK_ATTRS[h]) for h in LINKS[m["links"]][1]]
    for flt, pred in (("rt=x", lambda k, m, a: a.get("rt") == "x"), ("if=y", lambda k, m, a: a.get("if") == "y"),
                      ("ep=e1", lambda k, m, a: k[0] == "e1"), ("d=d1", lambda k, m, a: k[1] == "d1"),
                      (("rt=x", "ep=e2"), lambda k, m, a: a.get("rt") == "x" and k[0] == "e2"),
                      (("ep=e1", "rt=x"), lambda k, m, a: a.get("rt") == "x" and k[0] == "e1"),
                      ("rt=nope", lambda k, m, a: False)):
        q = [flt] if isinstance(flt, str) else list(flt)
        r = request(st, GET, RSL, q)
        try:
            g = sorted(h for h, at in parse_linkformat(r.payload.decode("utf8")))
        except Exception:
            g = ["unparsable"]
        w = sorted(h for k, m in lv.items() for h, a in links_of(k, m) if pred(k, m, a))
        if g != w:
            viol(st, "resource-lookup-filter", w, g, "cli/rd.py:ResourceLookupInterface", "&".join(q))
    for flt, pred in (("rt=x", lambda k, m: any(a.get("rt") == "x" for h, a in links_of(k, m))),
                      ("if=y", lambda k, m: any(a.get("if") == "y" for h, a in links_of(k, m)))):
        r = request(st, GET, EPL, [flt])
        try:
            g = sorted(h for h, at in parse_linkformat(r.payload.decode("utf8")))
        except Exception:
            g = ["unparsable"]
        w = sorted("/" + "/".join(m["loc"]) for k, m in lv.items() if pred(k, m))
        if g != w:
            viol(st, "endpoint-lookup-filter", w, g, "cli/rd.py:EndpointLookupInterface", "link-attr:" + flt)
    # pagination: the pages of size 1 (and of size 2) are the full listing cut into pieces; a page behind the end is empty
    for path, full, name in ((EPL, [h for h, at in eps], "endpoint"), (RSL, [h for h, at in ress], "resource")):
        for count in (1, 2):
            pages = []
            for page in range(0, (len(full) + count - 1) // count + 1):
                r = request(st, GET, path, ["page=%d" % page, "count=%d" % count])
                try:
                    pages.append([h for h, at in parse_linkformat(r.payload.decode("utf8"))])
                except Exception:
                    pages.append(["unparsable"])
            flat = [h for pg in pages for h in pg]
            if flat != full or any(len(pg) > count for pg in pages) or pages[-1] != []:
                viol(st, "lookup-pagination", {"full": full}, {"count": count, "pages": pages}, "cli/rd.py:_paginate", name + "-pages")
        r = request(st, GET, path, ["count=1"])
        try:
            first = [h for h, at in parse_linkformat(r.payload.decode("utf8"))]
        except Exception:
            first = ["unparsable"]
        if first != full[:1]:
            viol(st, "lookup-pagination", full[:1], first, "cli/rd.py:_paginate", name + "-count-only")


def canon(st):
    now = st.sw.loop.time()
    model = sorted((repr(k), m["loc"], sorted(m["params"].items()), m["links"], m["lt"], round(now - m["written"], 3)) for k, m in st.model.items())
    k = (model, impl_canon(st), tuple(st.locs))
    st.sw.dispose()
    return core.digest(k)


def job(arg):
    first, depth = arg[:2]
    ops = OPS if len(arg) < 3 else arg[2]
    prefix = first if isinstance(first[0], tuple) else (first,)      # one operation, or a tuple of operations
    first = prefix[0]
    res = Result()
    name = "S-RD-first=" + "+".join("_".join(str(x) for x in op) for op in prefix)

    def build2(hist):
        return build(tuple(prefix) + tuple(hist))

    def events(st):
        st.sw.dispose()
        return ops

    def check(hist, st):
        out = []
        for v in st.last:
            v["case"] = core.jsonable({"hist": [list(p_) for p_ in prefix] + [list(e) for e in hist]})
            v["scenario"] = name
            out.append(v)
        res.traces += 1
        res.signatures.add(core.digest((name, hist)))
        res.outcomes.add(core.digest((len(st.model), [x.sig for x in st.last])))
        return out
    st0 = build2(())
    for v in st0.last:
        v["case"] = core.jsonable({"hist": [list(p_) for p_ in prefix]})
        res.violate(v)
    st0.sw.dispose()
    bfs((), build2, events, canon, check, depth - len(prefix), res, name=name)
    res.sample({"history": [list(first), list(OPS[5]), list(OPS[23]), list(OPS[11])]})
    return res


def run(tier, seed, jobs):
    EXTENDED_ALWAYS[0] = tier == "thorough"
    depth = 3 if tier == "quick" else 4
    firsts = [op for op in OPS if op[0] in ("reg", "badreg")]
    work = [(op, depth) for op in firsts]
    # deeper over the operations that change what the directory holds in the most different ways (split by the second operation to
    # use all cores): one level from the two most productive starts in the quick tier, two levels from three valid registrations in
    # the thorough one
    core_ops = [op for op in OPS if op[0] in ("t", "del", "put", "updfrom") or op in CORE4]
    if tier == "quick":
        work += [((OPS[0], op2), 4, core_ops) for op2 in core_ops] + [((OPS[2], op2), 4, core_ops) for op2 in core_ops]
    else:
        work += [((f, op2), 5, core_ops) for f in (OPS[0], OPS[2], OPS[3]) for op2 in core_ops]
    return core.prun(job, work, jobs)


def replay(case, scenario, seed):
    hist = [tuple(e) for e in case["hist"]]
    st = build(hist)
    for op in hist:
        print("     op:", op)
    vs = list(st.violations)
    st.sw.dispose()
    return vs
