"""C16 - CoAP URIs and Uri-* options convert into each other without loss.

E1 over closed products of schemes x hosts x ports x path/query segment lists (given percent-encoded in URI text, and raw
in options) x userinfo/fragment toggles, plus every short string over a structural character set as a URI.  The model is
an independent reading of RFC 7252 sections 6.4 / 6.5 with its own percent codec."""

import itertools

from .. import core
from ..core import Result, Violation

from aiocoap import Message, GET, error
from aiocoap.message import UndecidedRemote
from aiocoap.util import hostportjoin, hostportsplit

PROP = "C16"
LEVEL = "exploration"
EXHAUSTIVE = True
RULE = ("E1: (a) 9 schemes x 28 hosts x 9 ports x {plain, userinfo, fragment} with two paths; (b) path lists of length <= 3 (4 in the thorough tier) and query "
        "lists of length <= 2 over a 23-segment alphabet (reserved characters, empty, dots, control characters below U+0010 followed by a hex digit, DEL, non-ASCII up to astral planes, literal percent text), given "
        "percent-encoded in URI text and raw in options, for three host kinds; (b2) sub-delims, ':' and '@' standing unescaped in path segments and query items; the "
        "destination (scheme, host, port) of every accepted authority; (c) verbatim bad escapes; (d) every string of length <= 3 (5 in the thorough tier) "
        "over {c o a p : / ? # @ [ ] % .} alone and behind 'coap:', 'coap://', 'coap://h', 'coap://h:', 'coaps+ws://[', 'coap://][', 'coap://@[', 'coap://[::1]'; (e) host/port split-join pairs; (f) composition with Uri-Host / Uri-Port options over 8 destinations. "
        "Every accepted CoAP URI is also set on a message that carried another URI before (set again, copy(uri=), after a CoAP and after a foreign-scheme URI) and must give the options of a fresh message. distinct = distinct (family, outcome class, shape)")
ASSUMPTIONS = [
    "incomplete percent sequences ('%zz') may be rejected or passed through literally (RFC 3986 makes them invalid; the library documents tolerance)",
    "IPvFuture literals may be rejected or accepted, but only with the documented URL errors",
    "degenerate option sets (a single empty path segment, a single empty query item) are outside the round-trip clause",
]

SCHEMES = ["coap", "coaps", "coap+tcp", "coaps+tcp", "coap+ws", "coaps+ws", "COAP", "http", None]
# (text, kind, expected Uri-Host or None)   kind: name | ip | bad | dontcare
HOSTS = [
    ("example.com", "name", "example.com"), ("EXAMPLE.com", "name", "example.com"), ("ex%41mple.com", "name", "example.com"),
    ("ö.example", "name", "ö.example"), ("%C3%B6.example", "name", "ö.example"), ("%FF.example", "bad", None),
    # (code points whose UTF-8 form contains the byte 0x80; raw upper-case non-ASCII is left out: URIs are ASCII, and what an
    # IRI-tolerant parser does to its case is not the RFC's subject)
    ("\u0140.example", "name", "\u0140.example"), ("%C3%80.example", "name", "\u00c0.example"), ("%C5%80%E2%80%80", "name", "\u0140\u2000"),
    ("[ff02::fd%25eth0]", "zone", None), ("[::1%25lo]", "zone", None), ("[fe80::1%25eth1]", "zone", None), ("[fe80::1%25enP2p1s0]", "zone", None),
    ("127.0.0.1", "ip", None), ("192.168.1.255", "ip", None), ("255.255.255.255", "ip", None), ("10.255.0.1", "ip", None), ("0.0.0.0", "ip", None),
    ("1.2.3.", "name", "1.2.3."), ("1..2.3", "name", "1..2.3"), ("256.1.1.1", "name", "256.1.1.1"),
    ("[::1]", "ip", None), ("[2001:db8::1]", "ip", None), ("[::ffff:1.2.3.4]", "ip", None), ("[fe80::1%25lo]", "dontcare", None),
    ("[fe80::1%lo]", "dontcare", None), ("[v1.fe]", "dontcare", None), ("[::1", "bad", None), ("", "bad", None),
    # every upper-case letter, literal and escaped, also behind a percent-escape (where a URI parser's own case folding may stop)
    ("m%C3%BCnchen.ABCDEFGHIJKLMNOPQRSTUVWXYZ.example", "name", "münchen.abcdefghijklmnopqrstuvwxyz.example"),
    ("%41b.%5Aone.QUIZ", "name", "ab.zone.quiz"),
]
PORTS = [(None, "ok"), ("", "ok"), ("5683", "ok"), ("5684", "ok"), ("61616", "ok"), ("0", "ok"), ("65535", "ok"), ("65536", "bad"), ("abc", "bad")]
SEGS = ["a", "", ".", "..", "a/b", "a?b", "a&b", "a=b", "a%b", "a#b", "a b", "ö", "%41", ":@", "+", "~", "A",
        "\x00A", "\n", "x\x0f", "\x7f", "\U0001F600", "\u0378\ufffd"]
UNRESERVED = set("abcdefghijklmnopqrstuvwxyzABCDEFGHIJKLMNOPQRSTUVWXYZ0123456789-._~")


PREDECESSOR = "coaps://old.example:7777/old/path?old=1&x"
PREDECESSOR_PROXY = "http://proxy.example/via?p=1"


def pct(s):
    """Own percent-encoder: everything but unreserved characters."""
    return "".join(c if c in UNRESERVED else "".join("%%%02X" % b for b in c.encode("utf8")) for c in s)


def outcome_of(call):
    try:
        return ("ok", call())
    except (error.MalformedUrlError, error.IncompleteUrlError) as e:
        return ("urlerror", type(e).__name__)
    except Exception as e:
        return ("other", e)


def decompose(uri):
    m = Message(code=GET)
    m.set_request_uri(uri)
    return m


def view(m):
    return {"host": m.opt.uri_host, "port": m.opt.uri_port, "path": tuple(m.opt.uri_path), "query": tuple(m.opt.uri_query),
            "proxy": m.opt.proxy_uri, "remote": (m.remote.scheme, m.remote.hostinfo) if isinstance(m.remote, UndecidedRemote) else None}


def check_text(res, fam, uri, expect, case, exp_view=None, stable=True):
    """expect: 'ok' | 'reject' | 'either'."""
    res.evaluations += 1
    kind, val = outcome_of(lambda: decompose(uri))
    case = dict(case, uri=uri)
    if kind == "other":
        res.violate(Violation("undocumented-exception", "MalformedUrlError / IncompleteUrlError or success", core.exc_desc(val),
                              core.site_of(val), case, key="%s@%s" % (type(val).__name__, core.site_of(val))))
        res.outcomes.add((fam, "other"))
        return None
    if kind == "urlerror":
        if expect == "ok":
            res.violate(Violation("valid-uri-rejected", "decomposes", val, "message.py:set_request_uri", case, key=fam))
        res.outcomes.add((fam, "rejected"))
        res.signatures.add((fam, "rej", val, case.get("shape")))
        return None
    m = val
    if expect == "reject":
        res.violate(Violation("invalid-uri-accepted", "MalformedUrlError / IncompleteUrlError", core.jsonable(view(m)), "message.py:set_request_uri", case,
                              key=fam + ":" + str(case.get("why"))))
        return None
    v = view(m)
    if exp_view is not None:
        for k, want in exp_view.items():
            if v[k] != want:
                res.violate(Violation("decomposition", {k: want}, {k: v[k]}, "message.py:set_request_uri", case, key="%s:%s" % (fam, k)))
                return None
    if stable and v["proxy"] is None:
        # section 6.5: composing back gives an equivalent URI that decomposes to the same thing
        k2, uri2 = outcome_of(lambda: m.get_request_uri())
        if k2 != "ok":
            res.violate(Violation("recompose-fails", "a URI", core.exc_desc(uri2) if k2 == "other" else uri2,
                                  core.site_of(uri2) if k2 == "other" else "message.py:get_request_uri", case, key=fam + ":recompose"))
            return None
        k3, m3 = outcome_of(lambda: decompose(uri2))
        if k3 != "ok" or view(m3) != view(decompose(uri2)) or {k: view(m3)[k] for k in ("host", "port", "path", "query")} != {k: v[k] for k in ("host", "port", "path", "query")} \
                or view(m3)["remote"][0] != v["remote"][0] or norm_hostinfo(view(m3)["remote"][1]) != norm_hostinfo(v["remote"][1]):
            res.violate(Violation("roundtrip-unstable", core.jsonable(v), {"uri2": uri2, "view": core.jsonable(view(m3)) if k3 == "ok" else str(m3)},
                                  "message.py:get_request_uri", case, key=fam + ":unstable"))
            return None
        res.traces += 1
    # the options are those of this URI whatever the message carried before: set on a message that was given another URI first, and
    # through copy(uri=...) of such a message, the outcome is that of a fresh message
    # (CoAP URIs only: a URI of another scheme becomes Proxy-Uri and is sent to whatever destination the message has)
    # the nearest possible predecessor: the same URI under another scheme (same authority, path and query)
    sch = uri.split(":", 1)[0]
    twin = ("coaps" if sch.lower() != "coaps" else "coap+tcp") + uri[len(sch):]
    for how, pred in (("set-again", PREDECESSOR), ("copy", PREDECESSOR), ("copy", PREDECESSOR_PROXY), ("copy", twin)) if v["proxy"] is None else ():
        def again():
            try:
                old = decompose(pred)
            except (error.MalformedUrlError, error.IncompleteUrlError):
                return decompose(uri)       # (the twin of a URI that is only acceptable under its own scheme: nothing to compare)
            if how == "copy":
                return old.copy(uri=uri)
            old.set_request_uri(uri)
            return old
        k4, m4 = outcome_of(again)
        if k4 != "ok" or view(m4) != v:
            res.violate(Violation("decomposition-depends-on-history", core.jsonable(v),
                                  core.jsonable(view(m4)) if k4 == "ok" else (core.exc_desc(m4) if k4 == "other" else m4),
                                  "message.py:set_request_uri", dict(case, how=how, predecessor=pred), key="history:" + how + (":proxy" if pred is PREDECESSOR_PROXY else "")))
            return None
    res.outcomes.add((fam, "accepted"))
    res.signatures.add((fam, "ok", case.get("shape"), v["host"] is None, len(v["path"]), len(v["query"])))
    return m


def norm_hostinfo(h):
    """The destination as a comparable value: case and percent-escaping of the name do not matter."""
    if h is None:
        return None
    try:
        host, port = hostportsplit(h)
    except ValueError:
        return h
    if host:
        raw = bytearray()
        i = 0
        hb = host
        while i < len(hb):
            if hb[i] == "%" and i + 2 < len(hb) + 0 and all(c in "0123456789abcdefABCDEF" for c in hb[i + 1:i + 3]) and len(hb[i + 1:i + 3]) == 2:
                raw.append(int(hb[i + 1:i + 3], 16))
                i += 3
            else:
                raw += hb[i].encode("utf8")
                i += 1
        host = raw.decode("utf8", "replace").lower()
    return (host, port)


def fam_authority(res):
    for scheme in SCHEMES:
        for (htext, hkind, hexp) in HOSTS:
            for (ptext, pkind) in PORTS:
                for extra in ("plain", "userinfo", "fragment", "emptyuserinfo", "emptyuserpw"):
                    for path, pexp in (("", ()), ("/x/y?k=v", ("x", "y"))):
                        netloc = htext + ("" if ptext is None else ":" + ptext)
                        if extra == "userinfo":
                            netloc = "user:pw@" + netloc
                        elif extra == "emptyuserinfo":
                            netloc = "@" + netloc          # user info present but empty: still user info
                        elif extra == "emptyuserpw":
                            netloc = ":@" + netloc
                        uri = ("" if scheme is None else scheme + ":") + "//" + netloc + path + ("#frag" if extra == "fragment" else "")
                        case = {"family": "authority", "scheme": scheme, "host": htext, "port": ptext, "extra": extra,
                                "shape": (hkind, pkind, extra, scheme is None, scheme == "http")}
                        if scheme is None:
                            # no scheme: a relative reference
                            check_text(res, "authority", uri, "reject", dict(case, why="no-scheme"))
                            continue
                        if extra == "fragment":
                            check_text(res, "authority", uri, "reject", dict(case, why="fragment"))
                            continue
                        if scheme == "http":
                            if hkind == "bad" or pkind == "bad":
                                check_text(res, "authority", uri, "either", case, stable=False)
                            else:
                                check_text(res, "authority", uri, "ok", case, {"proxy": uri, "path": (), "host": None}, stable=False)
                            continue
                        if hkind == "bad" or pkind == "bad" or extra in ("userinfo", "emptyuserinfo", "emptyuserpw"):
                            check_text(res, "authority", uri, "reject", dict(case, why=hkind + pkind + extra))
                            continue
                        if hkind == "dontcare":
                            check_text(res, "authority", uri, "either", case)
                            continue
                        if hkind == "zone":
                            # a zoned literal may be refused, but if it is accepted the zone stays part of the destination
                            m = check_text(res, "authority", uri, "either", case)
                            if m is not None and m.opt.proxy_uri is None:
                                zone = htext[htext.index("%25") + 3:-1]
                                hi = m.remote.hostinfo if isinstance(m.remote, UndecidedRemote) else ""
                                if zone not in hi or m.opt.uri_host is not None:
                                    res.violate(Violation("zone-lost", "destination keeps zone %r, no Uri-Host" % zone,
                                                          {"hostinfo": hi, "uri_host": m.opt.uri_host}, "message.py:UndecidedRemote", dict(case, uri=uri), key="zone"))
                            continue
                        exp = {"host": hexp, "path": pexp, "query": ("k=v",) if path else (), "proxy": None}
                        m = check_text(res, "authority", uri, "ok", case, exp)
                        if m is not None:
                            check_destination(res, m, scheme, htext, ptext, dict(case, uri=uri))


DEFAULT_PORT = {"coap": 5683, "coaps": 5684, "coap+tcp": 5683, "coaps+tcp": 5684, "coap+ws": 80, "coaps+ws": 443}


def check_destination(res, m, scheme, htext, ptext, case):
    """Section 6.4 step 7 / the statement's "the port kept with the destination": the scheme, the host and the port the URI names stay with
    the message's destination.  Dropping (or spelling out) exactly the scheme's own default port is the same destination."""
    res.evaluations += 1
    if not isinstance(m.remote, UndecidedRemote):
        res.violate(Violation("destination", "an undecided remote carrying scheme and authority", repr(m.remote), "message.py:set_request_uri", case, key="dest:type"))
        return
    want_port = int(ptext) if ptext else None
    got = norm_hostinfo(m.remote.hostinfo)
    want_host = norm_hostinfo(htext)[0] if norm_hostinfo(htext) and isinstance(norm_hostinfo(htext), tuple) else htext
    default = DEFAULT_PORT[scheme.lower()]
    ok_port = isinstance(got, tuple) and (got[1] == want_port or {got[1], want_port} == {None, default})
    ok_host = isinstance(got, tuple) and _same_host(got[0], want_host)
    if m.remote.scheme != scheme.lower() or not ok_port or not ok_host:
        res.violate(Violation("destination", {"scheme": scheme.lower(), "host": want_host, "port": want_port},
                              {"scheme": m.remote.scheme, "hostinfo": m.remote.hostinfo}, "message.py:UndecidedRemote", case,
                              key="dest:" + ("scheme" if m.remote.scheme != scheme.lower() else "port" if not ok_port else "host")))


def _same_host(a, b):
    """Names compare as normalised text, IP literals as addresses (any spelling of the same address is the same host)."""
    import ipaddress
    if a == b:
        return True
    try:
        za, zb = (a.split("%", 1) + [""])[:2], (b.split("%", 1) + [""])[:2]
        return ipaddress.ip_address(za[0]) == ipaddress.ip_address(zb[0]) and za[1] == zb[1]
    except (ValueError, AttributeError):
        return False


# characters that may stand unescaped in a path segment / query item (RFC 3986 pchar: sub-delims, ':' and '@'; in a query also '/' and '?')
VERBATIM = ["a;b", ";", "a;b=c", "p;x;y", "a,b", "a!b", "a$b", "a'b", "(a)", "a*b", "a+b", "a=b", "a:b", "a@b", ":", "@", "~a", "-._~"]


def fam_verbatim(res):
    for hostpart, hexp in (("example.com", "example.com"), ("[2001:db8::1]", None)):
        for scheme in ("coap", "coaps", "coap+tcp", "coaps+ws"):
            for v in VERBATIM:
                for path in ((v,), ("x", v), (v, "x"), (v, v)):
                    for q in ((), (v,), ("k=" + v,), (v, "a/b?c")):
                        if scheme != "coap" and (len(path) > 1 and path[0] != "x" or len(q) > 1):
                            continue
                        uri = scheme + "://" + hostpart + "".join("/" + s_ for s_ in path) + ("?" + "&".join(q) if q else "")
                        case = {"family": "verbatim", "path": path, "query": q, "host": hostpart, "shape": ("verbatim", v, len(path), len(q))}
                        check_text(res, "verbatim", uri, "ok", case, {"host": hexp, "path": path, "query": q})


def fam_segments(res, first, tier="quick"):
    for hostpart, hexp in (("example.com", "example.com"), ("[2001:db8::1]:61616", None), ("10.0.0.7", None)):
        for n in range(0, 3 if tier == "quick" else 4):
            for rest in itertools.product(SEGS, repeat=n):
                path = (first,) + rest
                for q in [()] + [(s,) for s in SEGS] + ([(a, b) for a in SEGS[:8] for b in SEGS[8:]] if n < 2 else []):
                    if hostpart != "example.com" and (n >= 2 or len(q) == 2):
                        continue
                    if n == 3 and len(q) > 1:
                        continue
                    uri = "coap://" + hostpart + "".join("/" + pct(s) for s in path) + ("?" + "&".join(pct(s) for s in q) if q else "")
                    exp_path = () if path == ("",) else path
                    exp_q = q
                    if q == ("",):
                        exp_q = ()
                    case = {"family": "segments", "path": path, "query": q, "host": hostpart,
                            "shape": (tuple(_cls(s) for s in path), tuple(_cls(s) for s in q))}
                    check_text(res, "segments", uri, "ok", case, {"host": hexp, "path": exp_path, "query": exp_q})
                    # options -> URI -> options
                    if path != ("",) and q != ("",):
                        check_options(res, "coap", hostpart, path, q, case)


def _cls(s):
    return "empty" if s == "" else "dots" if s in (".", "..") else "reserved" if any(c in s for c in "/?&=%# #") else "nonascii" if any(ord(c) > 127 for c in s) else "plain"


def check_options(res, scheme, hostinfo, path, query, case):
    res.evaluations += 1
    m = Message(code=GET)
    m.remote = UndecidedRemote(scheme, hostinfo)
    m.opt.uri_path = list(path)
    m.opt.uri_query = list(query)
    if not hostinfo.startswith("[") and not hostinfo[0].isdigit():
        m.opt.uri_host = hostinfo
    k, uri = outcome_of(lambda: m.get_request_uri())
    if k != "ok":
        res.violate(Violation("compose-fails", "a URI", core.exc_desc(uri) if k == "other" else uri, "message.py:get_request_uri", case, key="compose"))
        return
    k2, m2 = outcome_of(lambda: decompose(uri))
    if k2 != "ok" or tuple(m2.opt.uri_path) != tuple(path) or tuple(m2.opt.uri_query) != tuple(query) or m2.opt.uri_host != m.opt.uri_host:
        res.violate(Violation("options-roundtrip", {"path": path, "query": query},
                              {"uri": uri, "got": core.jsonable(view(m2)) if k2 == "ok" else str(m2)}, "message.py:get_request_uri", case,
                              key="opt-roundtrip:" + ("path" if k2 == "ok" and tuple(m2.opt.uri_path) != tuple(path) else "query")))
        return
    res.traces += 1
    res.outcomes.add(("options", "roundtrip"))


def fam_option_authority(res):
    """Section 6.5 with Uri-Host / Uri-Port options present: the composed URI names host = Uri-Host (else the destination's host),
    port = Uri-Port (else the destination's port) - IP literals in brackets - and decomposes to that same authority."""
    for scheme in ("coap", "coaps", "coap+tcp"):
        for hostinfo in ("[2001:db8::1]", "[2001:db8::1]:61616", "[::ffff:1.2.3.4]:5683", "[fe80::1%eth0]:5683", "10.0.0.7", "10.0.0.7:61616", "example.com", "example.com:5684"):
            for uri_host in (None, "other.example", "2001:db8::2", "192.0.2.9"):
                for uri_port in (None, 5683, 5684, 61616):
                    for path in ((), ("a", "b")):
                        res.evaluations += 1
                        case = {"family": "option-authority", "scheme": scheme, "hostinfo": hostinfo, "uri_host": uri_host, "uri_port": uri_port, "path": path}
                        m = Message(code=GET)
                        m.remote = UndecidedRemote(scheme, hostinfo)
                        if uri_host is not None:
                            m.opt.uri_host = uri_host
                        if uri_port is not None:
                            m.opt.uri_port = uri_port
                        m.opt.uri_path = list(path)
                        k, uri = outcome_of(lambda: m.get_request_uri())
                        if k != "ok":
                            res.violate(Violation("compose-fails", "a URI", core.exc_desc(uri) if k == "other" else uri, "message.py:get_request_uri", case, key="oa-compose"))
                            continue
                        dhost, dport = hostportsplit(hostinfo)
                        want_host = (uri_host or dhost).lower()
                        want_port = uri_port or dport
                        k2, m2 = outcome_of(lambda: decompose(uri))
                        if k2 != "ok":
                            res.violate(Violation("options-roundtrip", {"host": want_host, "port": want_port}, {"uri": uri, "got": str(m2)},
                                                  "message.py:get_request_uri", case, key="oa-undecomposable"))
                            continue
                        got = norm_hostinfo(m2.remote.hostinfo) if isinstance(m2.remote, UndecidedRemote) else None
                        ghost = (m2.opt.uri_host or (got[0] if isinstance(got, tuple) else None))
                        gport = got[1] if isinstance(got, tuple) else None
                        default = DEFAULT_PORT[scheme]
                        ok = ghost is not None and _same_host(ghost, want_host) and (gport == want_port or {gport, want_port} == {None, default}) \
                            and tuple(m2.opt.uri_path) == path and m2.remote.scheme == scheme
                        if ":" in want_host and (m2.opt.uri_host is not None or "[" not in uri):
                            ok = False      # an IPv6 address is an IP-literal in the URI (brackets) and never comes back as a Uri-Host name
                        if not ok:
                            res.violate(Violation("options-roundtrip", {"scheme": scheme, "host": want_host, "port": want_port, "path": path},
                                                  {"uri": uri, "host": ghost, "port": gport, "path": tuple(m2.opt.uri_path)}, "message.py:get_request_uri", case,
                                                  key="oa:" + ("literal" if ":" in want_host or want_host[0].isdigit() else "name")))
                            continue
                        res.traces += 1
                        res.signatures.add(("option-authority", ":" in want_host, uri_port is None, dport is None))
    res.outcomes.add(("option-authority", "done"))


def fam_badescapes(res):
    for where in ("path", "query", "host"):
        for esc, expect in (("%ff", "reject"), ("%C3", "reject"), ("%zz", "either"), ("%", "either"), ("%4", "either"), ("%e2%82%ac", "ok")):
            if where == "path":
                uri = "coap://h.example/a" + esc
            elif where == "query":
                uri = "coap://h.example/?k=" + esc
            else:
                uri = "coap://h" + esc + ".example/"
            case = {"family": "escapes", "where": where, "escape": esc, "shape": (where, esc), "why": "bad-escape-" + where}
            check_text(res, "escapes", uri, expect, case, stable=(expect == "ok"))


CHARS = "coap:/?#@[]%."


def fam_strings(res, prefix, tier="quick"):
    for n in range(0, 4 if tier == "quick" else 6):
        for t in itertools.product(CHARS, repeat=n):
            s = prefix + "".join(t)
            case = {"family": "strings", "prefix": prefix, "shape": (prefix, n)}
            check_text(res, "strings", s, "either", case)


def fam_hostport(res):
    hosts = ["example.com", "a", "127.0.0.1", "2001:db8::1", "::1", "fe80::1%lo", "fe80::1%eth0", "::ffff:1.2.3.4"]
    for h in hosts:
        for p in (None, 5683, 0, 1, 65535):
            res.evaluations += 1
            case = {"family": "hostport", "host": h, "port": p}
            k, j = outcome_of(lambda: hostportjoin(h, p))
            if k != "ok":
                res.violate(Violation("hostportjoin-fails", "string", core.exc_desc(j), "util/__init__.py:hostportjoin", case, key="join"))
                continue
            k2, sp = outcome_of(lambda: hostportsplit(j))
            if k2 != "ok" or sp != (h, p):
                res.violate(Violation("hostport-roundtrip", (h, p), {"joined": j, "split": sp if k2 == "ok" else core.exc_desc(sp)},
                                      "util/__init__.py:hostportsplit", case, key="hp:" + ("zone" if "%" in h else "v6" if ":" in h else "name")))
                continue
            if ":" in h and not j.startswith("["):
                res.violate(Violation("ipv6-not-bracketed", "[...]", j, "util/__init__.py:hostportjoin", case, key="bracket"))
            res.traces += 1
            res.signatures.add(("hostport", ":" in h, "%" in h, p is None))
    res.outcomes.add(("hostport", "done"))


def job(arg):
    kind, item, tier = arg
    res = Result()
    if kind == "authority":
        fam_authority(res)
        res.sample({"uri": "coaps+tcp://EX%41MPLE.com:61616/x/y?k=v", "expected": {"Uri-Host": "example.com", "Uri-Path": ["x", "y"]}})
    elif kind == "segments":
        fam_segments(res, item, tier)
        res.sample({"uri": "coap://example.com/" + pct(item) + "/" + pct("a/b") + "?" + pct("a&b"), "expected_path": [item, "a/b"], "expected_query": ["a&b"]})
    elif kind == "strings":
        fam_strings(res, item, tier)
        res.sample({"uri_string": item + "?#@"})
    elif kind == "verbatim":
        fam_verbatim(res)
        res.sample({"uri": "coap://example.com/x/a;b=c?k=a;b", "expected_path": ["x", "a;b=c"], "expected_query": ["k=a;b"]})
    else:
        fam_badescapes(res)
        fam_hostport(res)
        fam_option_authority(res)
    return res


def run(tier, seed, jobs):
    work = [("authority", None, tier), ("misc", None, tier), ("verbatim", None, tier)]
    work += [("segments", s, tier) for s in SEGS]
    work += [("strings", p, tier) for p in ("", "coap:", "coap://", "coap://h", "coaps+ws://[", "coap://h:", "coap://][", "coap://@[", "coap://[::1]")]
    res = core.prun(job, work, jobs)
    res.scenarios["space"] = {"schemes": len(SCHEMES), "hosts": len(HOSTS), "ports": len(PORTS), "segments": len(SEGS), "chars": len(CHARS)}
    return res


def replay(case, scenario, seed):
    res = Result()
    case = {k: v for k, v in case.items() if k != "shape"}
    if "uri" in case:
        print("     uri:", case["uri"])
        m = check_text(res, case.get("family", "replay"), case["uri"], "either" if case.get("family") in ("strings",) else "ok", {k: v for k, v in case.items() if k != "uri"})
        if m is not None and case.get("family") == "authority" and case.get("scheme"):
            check_destination(res, m, case["scheme"], case["host"], case["port"], case)
        kind, val = outcome_of(lambda: decompose(case["uri"]))
        print("     outcome:", kind, val if kind != "ok" else view(val))
    elif case.get("family") == "hostport":
        fam_hostport(res)
    elif case.get("family") == "option-authority":
        fam_option_authority(res)
    else:
        check_options(res, "coap", case["host"], tuple(case["path"]), tuple(case["query"]), case)
    return [v for v, n in res.violations.values()]
