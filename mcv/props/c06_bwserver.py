"""C06 - block-wise server: handlers see only complete bodies, blocks are exact slices.

E3 (BFS with dedup) over histories of block requests from 1-3 endpoints pushed through Context.render_to_pipe, with
clock jumps around the state lifetime; a reference model written from the statement is stepped alongside."""

from .. import core
from ..core import Result, Violation
from ..explore import bfs
from ..seam2 import SiteWorld, endpoint

from aiocoap import Message, GET, PUT, POST, resource
from aiocoap.numbers.codes import NOT_FOUND

PROP = "C06"
LEVEL = "model_checking"
RULE = ("E3: BFS over all sequences to depth D of an operation alphabet (Block1 PUT/POST blocks num 0-2 x M x size 16/32 x full/"
        "short / empty / double payload from endpoints 1-2 (same IP, other port: 3) to /a, /b, /a?q=1, /a with Request-Tag, /a with Accept; Block2 GETs num 0-4 x SZX 0-2; plain "
        "requests; clock jumps 92.9 / 93.2 / 186.1 s) with dedup on (model, spool, cache, recently-accessed sets, timers); E1: combined transfers (POST in 1-3 Block1 blocks with the Block2 size wish on the last / every block, "
        "responses of 0-100 bytes fetched to the end)")
ASSUMPTIONS = [
    "state lifetime bounds 93 s / 186 s = MAX_TRANSMIT_WAIT and twice that, computed from RFC 7252 defaults",
    "don't-care: block 0 with M=1 and a short payload; continuation that is both mis-sized and mis-placed (4.00 or 4.08); "
    "Block2 num>0 when the rendering fitted one block and was never cached (4.00 or 4.08)",
    "between 93 s and 186 s of idleness either answer is accepted and the model follows the implementation",
]

MTW = 2.0 * (2 ** 5 - 1) * 1.5   # MAX_TRANSMIT_WAIT = 93 s


class St:
    pass


def make_world(rlen):
    st = St()
    st.handled = []      # (path, query, method, body) seen by the handler
    st.renders = [0]

    def factory(sw):
        class R(resource.Resource):
            def __init__(self, name):
                super().__init__()
                self.name = name

            async def render_put(self, request):
                st.handled.append((self.name, tuple(request.opt.uri_query), "PUT", bytes(request.payload)))
                return Message(payload=b"ok")

            async def render_post(self, request):
                st.handled.append((self.name, tuple(request.opt.uri_query), "POST", bytes(request.payload)))
                return Message(payload=b"ok")

            async def render_get(self, request):
                st.renders[0] += 1
                if rlen < 0 and st.renders[0] % 2 == 0:
                    # a resource that is sometimes gone: every second rendering is a short unsuccessful response
                    return Message(code=NOT_FOUND, payload=b"gone")
                if rlen >= 1000 and st.renders[0] % 2 == 0:
                    # a resource whose representation is sometimes empty: every second rendering is a successful response without payload
                    return Message(payload=b"")
                L = abs(rlen) % 1000
                return Message(payload=bytes([st.renders[0] & 0xFF]) + bytes((i * 3 + st.renders[0]) & 0xFF for i in range(1, L)) if L else b"")
        site = resource.Site()
        site.add_resource(["a"], R("a"))
        site.add_resource(["b"], R("b"))
        return site
    st.sw = SiteWorld(factory)
    st.violations = []
    st.asm = {}      # model: key -> [body, last_use]
    st.rend = {}     # model: key -> [rendering, last_use]
    st.m_handled = []
    st.rlen = rlen
    return st


def set_variant(msg, variant):
    """The request variants that must keep transfers apart: a query, or another cache-key option (Request-Tag, Accept)."""
    if not variant:
        return
    if variant == "@tag":
        msg.opt.request_tag = [b"T"]
    elif variant == "@acc":
        msg.opt.accept = 0
    elif variant in ("@q2a", "@q2b"):
        # a repeatable cache-key option: two operations that differ in a value that is not the last one
        msg.opt.uri_query = ["job=1" if variant == "@q2a" else "job=2", "part=x"]
    else:
        msg.opt.uri_query = [variant]


def qtuple(variant):
    if variant in ("@q2a", "@q2b"):
        return ("job=1" if variant == "@q2a" else "job=2", "part=x")
    return (variant,) if variant and not variant.startswith("@") else ()


def payload_for(ep, num, plen):
    return bytes([(ep << 4 | num) & 0xFF]) * plen


def alive(entry, now):
    """True / False / None(either) by the lifetime rule."""
    idle = now - entry[1]
    if idle < MTW - 1e-6:
        return True
    if idle > 2 * MTW + 1e-6:
        return False
    return None


def apply(st, op):
    sw = st.sw
    now = sw.loop.time()
    case_v = []

    def viol(clause, exp, obs, site, key):
        st.violations.append(Violation(clause, exp, obs, site, {}, key=key))
    if op[0] == "t":
        sw.advance(op[1])
        return
    if op[0] == "b1":
        _, ep, num, m, szx, plen, path, query, method = op
        size = 1 << (szx + 4)
        pl = payload_for(ep, num, plen)
        msg = Message(code=PUT if method == "PUT" else POST, uri_path=[path], payload=pl)
        set_variant(msg, query)
        msg.opt.block1 = (num, bool(m), szx)
        nh = len(st.handled)
        r = sw.do(msg, ep)
        code = r.code.dotted if hasattr(r, "code") else repr(r)
        key = (ep, method, path, query)
        # ---- model
        exp = None
        entry = st.asm.get(key)
        if num == 0:
            st.asm[key] = [pl, now]
            exp = "2.31" if m else "done"
        else:
            a = alive(entry, now) if entry is not None else False
            if entry is not None and len(entry) > 2 and entry[2] and a is not False:
                a = None                      # an earlier grey-zone step could not tell whether the entry had expired
            ambiguous = False
            if a is None:
                misplaced_ = num * size != len(entry[0])
                if code == "4.08" and misplaced_:
                    # grey zone and the block does not fit anyway: 4.08 says nothing about expiry; stay undecided
                    ambiguous = True
                else:
                    a = code != "4.08"        # grey zone: follow the implementation
                    if a and len(entry) > 2:
                        entry[2] = False
                    if not a:
                        st.asm.pop(key, None)
            if ambiguous:
                entry[1] = now
                if len(entry) > 2:
                    entry[2] = True
                else:
                    entry.append(True)
                exp = "4.08"
            elif not a:
                st.asm.pop(key, None)
                exp = "4.08"
            else:
                missized = bool(m) and plen != size
                misplaced = num * size != len(entry[0])
                if missized and misplaced:
                    exp = ("4.00", "4.08")
                    entry[1] = now
                elif missized:
                    exp = "4.00"
                    entry[1] = now
                elif misplaced:
                    exp = "4.08"
                    entry[1] = now
                else:
                    entry[0] += pl
                    entry[1] = now
                    exp = "2.31" if m else "done"
        if exp == "done":
            st.m_handled.append((path, qtuple(query), method, st.asm[key][0]))
        # ---- compare
        if exp == "done":
            ok = code == "2.04" and st.handled[nh:] == st.m_handled[-1:] and r.opt.block1 is not None and tuple(r.opt.block1)[:2] == (num, False)
        elif exp == "2.31":
            ok = code == "2.31" and r.opt.block1 is not None and (r.opt.block1.block_number, bool(r.opt.block1.more), r.opt.block1.size_exponent) == (num, True, szx) \
                and st.handled[nh:] == []
        elif isinstance(exp, tuple):
            ok = code in exp and st.handled[nh:] == []
        else:
            ok = code == exp and st.handled[nh:] == []
        if not ok:
            what = "handler" if st.handled[nh:] != ([st.m_handled[-1]] if exp == "done" else []) else "code"
            viol("block1-step", exp if exp != "done" else "2.04 + handler(%d bytes)" % len(st.asm[key][0]),
                 {"code": code, "handler_calls": [(h[0], h[2], len(h[3])) for h in st.handled[nh:]],
                  "block1": tuple(r.opt.block1) if hasattr(r, "opt") and r.opt.block1 else None},
                 "blockwise.py:Block1Spool.feed_and_take", "%s->%s/%s" % (exp if not isinstance(exp, tuple) else "4.0x", code, what))
        if code.startswith("5."):
            viol("server-error-on-block", "never 5.xx", code, "blockwise.py:Block1Spool.feed_and_take", "5xx-b1")
    elif op[0] == "b2":
        _, ep, num, szx = op[:4]
        variant = op[4] if len(op) > 4 else None
        msg = Message(code=GET, uri_path=["a"])
        set_variant(msg, variant)
        size = None
        if num is not None:
            msg.opt.block2 = (num, False, szx)
            size = 1 << (szx + 4)
        before = st.renders[0]
        r = sw.do(msg, ep)
        code = r.code.dotted
        key = (ep, "GET", "a", variant)
        body = bytes(r.payload)
        b2 = None if r.opt.block2 is None else (r.opt.block2.block_number, bool(r.opt.block2.more), r.opt.block2.size_exponent)
        rendered = st.renders[0] - before
        if num is None or num == 0:
            # a fresh rendering; what it is we learn from the render counter (the handler is ours)
            if rendered != 1:
                viol("render-count", 1, rendered, "blockwise.py:Block2Cache.extract_or_insert", "render")
                return
            n = st.renders[0]
            L = abs(st.rlen) % 1000
            R = (bytes([n & 0xFF]) + bytes((i * 3 + n) & 0xFF for i in range(1, L))) if L else b""
            if st.rlen >= 1000 and n % 2 == 0:
                R = b""
            okcode = "2.05"
            if st.rlen < 0 and n % 2 == 0:
                R, okcode = b"gone", "4.04"
            sz = size if num is not None else 1024
            if len(R) > sz:
                st.rend[key] = [R, now, True]
                ok = code == "2.05" and body == R[:sz] and b2 == (0, True, szx if num is not None else 6)
                exp = ("2.05", (0, True), "slice[0:%d]" % sz)
            else:
                if num is not None:
                    st.rend[key] = [R, now, False]     # block-0 request whose rendering fitted: may or may not be cached
                # (a request without Block2 that is answered whole is not a block request: earlier renderings stay as they are)
                ok = code == okcode and body == R and (b2 is None or b2[:2] == (0, False))
                exp = (okcode, "whole rendering")
            if not ok:
                viol("block2-first", exp, {"code": code, "block2": b2, "len": len(body)}, "blockwise.py:Block2Cache.extract_or_insert", "first")
        else:
            if rendered:
                viol("render-for-later-block", "later blocks come from the single rendering", rendered, "blockwise.py:Block2Cache", "rerender")
            entry = st.rend.get(key)
            a = alive(entry, now) if entry is not None else False
            if entry is not None and not entry[2]:
                # rendering fitted its block: either nothing is cached (4.08) or the cached one is consulted
                R = entry[0]
                if num * size >= len(R):
                    allowed = {"4.00", "4.08"}
                else:
                    allowed = {"4.08", "slice"}
                a = None
            if entry is None or a is False:
                st.rend.pop(key, None)
                ok = code == "4.08"
                exp = "4.08"
            else:
                R = entry[0]
                if a is None and entry[2] and code == "4.08":
                    st.rend.pop(key, None)
                    ok, exp = True, "4.08 (grey zone)"
                elif num * size >= len(R):
                    ok = code == "4.00" or (not entry[2] and code == "4.08")
                    exp = "4.00 (beyond the end)"
                    entry[1] = now
                else:
                    want = R[num * size:(num + 1) * size]
                    more = (num + 1) * size < len(R)
                    ok = (code == "2.05" and body == want and b2 == (num, more, szx)) or (not entry[2] and code == "4.08")
                    exp = ("2.05", (num, more, szx), "slice[%d:%d]" % (num * size, (num + 1) * size))
                    entry[1] = now
            if not ok:
                viol("block2-later", exp, {"code": code, "block2": b2, "len": len(body)}, "blockwise.py:Block2Cache.extract_or_insert",
                     "%s->%s%s" % (exp if isinstance(exp, str) else "slice", code, "" if b2 else "/noblock2"))
        if code.startswith("5."):
            viol("server-error-on-block", "never 5.xx", code, "blockwise.py:Block2Cache", "5xx-b2")
    for msg, e in sw.loop_exceptions():
        viol("loop-exception", "none", core.exc_desc(e) if e else msg, core.site_of(e) if e else "loop", "loop")
    sw.loop.exc.clear()


def ops_b1():
    ops = []
    for ep in (1, 2):
        for num in (0, 1, 2):
            for m in (0, 1):
                ops.append(("b1", ep, num, m, 0, 16, "a", None, "PUT"))
    ops += [("b1", 1, 1, 1, 0, 15, "a", None, "PUT"), ("b1", 1, 1, 0, 0, 3, "a", None, "PUT"), ("b1", 1, 2, 0, 0, 0, "a", None, "PUT"),
            ("b1", 1, 0, 1, 0, 16, "a", None, "POST"), ("b1", 1, 1, 0, 0, 16, "a", None, "POST"),
            ("b1", 1, 0, 1, 0, 16, "b", None, "PUT"), ("b1", 1, 1, 0, 0, 16, "b", None, "PUT"),
            ("b1", 1, 1, 0, 0, 16, "a", "q=1", "PUT"), ("b1", 1, 0, 1, 0, 16, "a", "q=1", "PUT"),
            ("b1", 1, 0, 1, 1, 32, "a", None, "PUT"), ("b1", 1, 1, 0, 1, 5, "a", None, "PUT"),
            ("b1", 3, 1, 0, 0, 16, "a", None, "PUT"), ("b1", 3, 0, 1, 0, 16, "a", None, "PUT"),
            # non-final continuations whose payload is a whole multiple of the block size other than 1 (0x, 2x), and the
            # final block that would fit behind an over-long one
            ("b1", 1, 1, 1, 0, 32, "a", None, "PUT"), ("b1", 1, 1, 1, 0, 0, "a", None, "PUT"), ("b1", 1, 3, 0, 0, 5, "a", None, "PUT"),
            # the same transfer under another cache-key option (Request-Tag, Accept) is another transfer
            ("b1", 1, 0, 1, 0, 16, "a", "@tag", "PUT"), ("b1", 1, 1, 0, 0, 16, "a", "@tag", "PUT"),
            ("b1", 1, 1, 0, 0, 16, "a", "@acc", "PUT"),
            ("b1", 1, 0, 1, 0, 16, "a", "@q2a", "PUT"), ("b1", 1, 0, 1, 0, 16, "a", "@q2b", "PUT"), ("b1", 1, 1, 0, 0, 16, "a", "@q2a", "PUT"),
            ("t", MTW - 0.1), ("t", MTW + 0.2), ("t", 2 * MTW + 0.1)]
    return ops


def ops_b2():
    ops = [("b2", 1, None, None), ("b2", 2, None, None)]
    for num in range(0, 5):
        for szx in (0, 1, 2):
            ops.append(("b2", 1, num, szx))
    ops += [("b2", 2, 0, 0), ("b2", 2, 1, 0), ("b2", 3, 1, 0), ("b2", 1, 0, 0, "@tag"), ("b2", 1, 1, 0, "@tag"), ("b2", 1, 1, 0, "@acc"),
            ("b2", 1, 0, 0, "@q2a"), ("b2", 1, 1, 0, "@q2b"),
            ("t", MTW - 0.1), ("t", MTW + 0.2), ("t", 2 * MTW + 0.1)]
    return ops


EP = {1: (1, 40000), 2: (2, 40000), 3: (1, 40001)}


def make_build(rlen):
    from ..seam2 import endpoint as mk

    def build(hist):
        st = make_world(rlen)
        # endpoints: 1 and 2 differ in IP, 3 shares endpoint 1's IP on another port
        realdo = st.sw.do
        st.sw.do = lambda msg, ep: realdo(msg, mk(EP[ep][0], EP[ep][1]))
        st.last = []
        for op in hist:
            n = len(st.violations)
            apply(st, op)
            st.last = st.violations[n:]
        return st
    return build


def canon(st):
    sw = st.sw
    now = sw.loop.time()
    res_a = sw.site._resources[("a",)]
    res_b = sw.site._resources[("b",)]

    def td(d):
        return (sorted((repr(k), len(v.payload)) for k, v in d._items.items()),
                None if d._recently_accessed is None else sorted(repr(k) for k in d._recently_accessed))
    k = (td(res_a._block1._assemblies), td(res_b._block1._assemblies), td(res_a._block2._completes),
         sorted((repr(k), v[0], round(now - v[1], 3), tuple(v[2:])) for k, v in st.asm.items()),
         sorted((repr(k), len(v[0]), v[0][:1], round(now - v[1], 3), v[2]) for k, v in st.rend.items()),
         sw.loop.pending_timers(), st.renders[0] if st.rend else 0)
    sw.dispose()
    return core.digest(k)


def combined(res, rlen, szx2, where, nblocks1):
    """RFC 7959 section 3.3: a body uploaded in Block1 blocks whose response needs Block2 - the size wish for the response (Block2
    NUM 0) rides on the last Block1 request only, or on every one of them.  The response to the last block is the first slice of
    the handler's response in the wished size; the later slices follow on Block2 requests for the same operation."""
    from ..seam2 import SiteWorld
    handled = []
    R = bytes((i * 5 + 1) & 0xFF for i in range(rlen))

    class Big(resource.Resource):
        async def render_post(self, request):
            handled.append(bytes(request.payload))
            return Message(payload=R)
    sw = SiteWorld(lambda sw: _site_with(Big()))
    case = {"family": "combined", "rlen": rlen, "szx2": szx2, "where": where, "blocks1": nblocks1}
    res.evaluations += 1
    try:
        size2 = 1 << (szx2 + 4)
        body = b""
        r = None
        for num in range(nblocks1):
            last = num == nblocks1 - 1
            pl = bytes([0x40 + num]) * (16 if not last else 5)
            body += pl
            m = Message(code=POST, uri_path=["big"], payload=pl)
            m.opt.block1 = (num, not last, 0)
            if where == "every" or last:
                m.opt.block2 = (0, False, szx2)
            r = sw.do(m, 1)
            if not last and r.code.dotted != "2.31":
                res.violate(Violation("block1-step", "2.31", r.code.dotted, "blockwise.py:Block1Spool.feed_and_take", case, key="combined-2.31"))
                return
        got = [bytes(r.payload)]
        b2 = r.opt.block2
        more_want = rlen > size2
        first_ok = r.code.dotted == "2.04" and handled == [body] and bytes(r.payload) == R[:size2] and \
            ((b2 is None and not more_want) or (b2 is not None and (b2.block_number, bool(b2.more), b2.size_exponent) == (0, more_want, szx2)))
        if not first_ok:
            res.violate(Violation("block2-first", {"code": "2.04", "slice": [0, min(size2, rlen)], "block2": [0, more_want, szx2]},
                                  {"code": r.code.dotted, "len": len(r.payload), "block2": None if b2 is None else [b2.block_number, bool(b2.more), b2.size_exponent],
                                   "handler_calls": len(handled)}, "message.py:_append_request_block", case, key="combined-first"))
            return
        num = 1
        while more_want and num * size2 < rlen:
            m = Message(code=POST, uri_path=["big"])
            m.opt.block2 = (num, False, szx2)
            r = sw.do(m, 1)
            want = R[num * size2:(num + 1) * size2]
            b2 = r.opt.block2
            if r.code.dotted != "2.04" or bytes(r.payload) != want or b2 is None or (b2.block_number, bool(b2.more)) != (num, (num + 1) * size2 < rlen) or len(handled) != 1:
                res.violate(Violation("block2-later", {"code": "2.04", "slice": [num * size2, num * size2 + len(want)]},
                                      {"code": r.code.dotted, "len": len(r.payload), "handler_calls": len(handled)}, "blockwise.py:Block2Cache.extract_or_insert",
                                      case, key="combined-later"))
                return
            num += 1
        res.traces += 1
        res.transitions += nblocks1 + num
        res.signatures.add(core.digest(("combined", rlen, szx2, where, nblocks1)))
        res.outcomes.add(core.digest(("combined", more_want)))
    finally:
        sw.dispose()


def szx7(res, rlen):
    """Block2 requests that name SZX 7 over a transport without BERT (UDP): treated as a wish for the largest block there is
    (1024 bytes) - slices of the single rendering, 4.00 beyond its end, never an internal error."""
    from ..seam2 import SiteWorld
    R = bytes((i * 11 + 5) & 0xFF for i in range(rlen))
    renders = []

    class Big(resource.Resource):
        async def render_get(self, request):
            renders.append(1)
            return Message(payload=R)
    sw = SiteWorld(lambda sw: _site_with(Big()))
    case = {"family": "szx7", "rlen": rlen}
    res.evaluations += 1
    try:
        nblocks = max(1, -(-rlen // 1024))
        for start_szx in (7, 6):
            for num in list(range(nblocks)) + [nblocks + 1]:
                m = Message(code=GET, uri_path=["big"])
                m.opt.block2 = (num, False, 7 if (num > 0 or start_szx == 7) else 6)
                r = sw.do(m, 1)
                code = r.code.dotted
                want = R[num * 1024:(num + 1) * 1024]
                if num < nblocks:
                    b2 = r.opt.block2
                    ok = code == "2.05" and bytes(r.payload) == want and (
                        (b2 is None and nblocks == 1) or (b2 is not None and (b2.block_number, bool(b2.more)) == (num, num < nblocks - 1) and b2.size_exponent in (6, 7)))
                else:
                    ok = code in ("4.00", "4.08")
                if not ok:
                    res.violate(Violation("block2-later" if num else "block2-first", "slice [%d:%d] (or 4.00 beyond the end)" % (num * 1024, num * 1024 + len(want)),
                                          {"code": code, "len": len(r.payload)}, "blockwise.py:Block2Cache.extract_or_insert", dict(case, num=num, start=start_szx),
                                          key="szx7-" + ("5xx" if code.startswith("5.") else "other")))
                    return
        res.traces += 1
        res.signatures.add(core.digest(("szx7", rlen)))
        res.outcomes.add(core.digest(("szx7", nblocks)))
    finally:
        sw.dispose()


def _site_with(r):
    site = resource.Site()
    site.add_resource(["big"], r)
    return site


def job(arg):
    if arg[0] == "combined":
        res = Result()
        for rlen in (0, 1, 16, 17, 40, 100):
            for szx2 in (0, 1, 2):
                for where in ("last", "every"):
                    for nb in (1, 2, 3):
                        combined(res, rlen, szx2, where, nb)
        for rlen in (100, 1024, 1025, 2048, 3000):
            szx7(res, rlen)
        res.sample({"combined": "POST in 1-3 Block1 blocks, Block2 wish on the last / every block, response of 0..100 bytes"})
        return res
    family, first, rlen, depth = arg
    res = Result()
    build = make_build(rlen)
    ops = ops_b1() if family == "b1" else ops_b2()
    prefix = first if isinstance(first[0], tuple) else (first,)
    name = "S-BWS-%s-r%d-prefix=%s" % (family, rlen, "|".join("_".join(str(x) for x in op) for op in prefix))

    def build2(hist):
        return build(tuple(prefix) + tuple(hist))

    def events(st):
        st.sw.dispose()
        return ops

    def check(hist, st):
        out = []
        for v in st.last:
            v["case"] = core.jsonable({"family": family, "rlen": rlen, "hist": [list(p) for p in prefix] + [list(e) for e in hist]})
            v["scenario"] = name
            out.append(v)
        res.traces += 1
        res.signatures.add(core.digest((name, hist)))
        res.outcomes.add(core.digest((len(st.handled), [x.sig for x in st.last], st.renders[0] > 0)))
        return out
    st0 = build2(())
    for v in st0.last:
        v["case"] = core.jsonable({"family": family, "rlen": rlen, "hist": [list(p) for p in prefix]})
        res.violate(v)
    st0.sw.dispose()
    bfs((), build2, events, canon, check, depth - 1, res, name=name)
    res.sample({"family": family, "rendering_length": rlen, "history": [list(p) for p in prefix] + [list(ops[1]), list(ops[-2]), list(ops[3])]})
    return res


def run(tier, seed, jobs):
    # thorough: depth 4 over the whole alphabet (every first operation, then every pair of first operations as a prefix to use the
    # cores); depth 5 only from the in-order starts of a transfer
    d1 = 3 if tier == "quick" else 4
    d2 = 3 if tier == "quick" else 4
    work = [("b1", op, 20, d1) for op in ops_b1()]
    if tier == "thorough":
        starts = [op for op in ops_b1() if op[0] == "b1" and op[2] == 0 and op[3] == 1][:6]
        work += [("b1", (a, b), 20, 4) for a in starts[:2] for b in ops_b1()]      # (behind a prefix of two: total depth 5)
    for rlen in (17, 64, -64, 1064):
        work += [("b2", op, rlen, d2) for op in ops_b2()]
    if tier == "thorough":
        for rlen in (0, 200):
            work += [("b2", op, rlen, 3) for op in ops_b2()]
    # long transfers: every gap short, total duration beyond the lifetime (state must be refreshed by each use)
    long1 = (("b1", 1, 0, 1, 0, 16, "a", None, "PUT"), ("t", MTW - 0.1), ("b1", 1, 1, 1, 0, 16, "a", None, "PUT"))
    long2 = (("b2", 1, 0, 0), ("t", MTW - 0.1), ("b2", 1, 1, 0))
    work.append(("b1", long1, 20, 3 if tier == "quick" else 4))
    work.append(("b1", long1 + (("t", MTW - 0.1), ("b1", 1, 2, 1, 0, 16, "a", None, "PUT")), 20, 3))
    work.append(("b2", long2, 64, 3 if tier == "quick" else 4))
    work.append(("b2", long2 + (("t", MTW - 0.1), ("b2", 1, 2, 0)), 64, 3))
    # the cache runs empty (a block-0 request answered whole drops the entry), is filled again 0.7 lifetimes later, and the new
    # entry is used 0.6 lifetimes after that: whatever was armed for the old entry has come due in between
    refill = (("b2", 1, 0, 0), ("b2", 1, 0, 2), ("t", 0.7 * MTW), ("b2", 1, 0, 0), ("t", 0.6 * MTW))
    work.append(("b2", refill, 64, 2 if tier == "quick" else 3))
    work.append(("b2", (("b2", 1, 0, 1),) + refill[1:], 64, 2))
    refill1 = (("b1", 1, 0, 1, 0, 16, "a", None, "PUT"), ("b1", 1, 1, 0, 0, 16, "a", None, "PUT"), ("t", 0.7 * MTW),
               ("b1", 1, 0, 1, 0, 16, "a", None, "PUT"), ("t", 0.6 * MTW))
    work.append(("b1", refill1, 20, 2 if tier == "quick" else 3))
    # the state has expired and drained once; a new transfer is then left alone for more than twice the lifetime: it is gone as well
    drained1 = (("b1", 1, 0, 1, 0, 16, "a", None, "PUT"), ("t", 2 * MTW + 0.1), ("b1", 1, 0, 1, 0, 16, "a", None, "PUT"), ("t", 2 * MTW + 0.1))
    drained2 = (("b2", 1, 0, 0), ("t", 2 * MTW + 0.1), ("b2", 1, 0, 0), ("t", 2 * MTW + 0.1))
    work.append(("b1", drained1, 20, 2))
    work.append(("b2", drained2, 64, 2))
    # state of an unfinished transfer that has just survived a sweep is replaced by a new block 0 shortly before the next sweep; the
    # new transfer carries on after that sweep: replacing an entry is a use of it
    # (the second use right at the start is what carries the first entry over its first sweep)
    over1 = (("b1", 1, 0, 1, 0, 16, "a", None, "PUT"), ("b1", 1, 1, 1, 0, 16, "a", None, "PUT"), ("t", MTW - 0.1), ("t", MTW - 0.1),
             ("b1", 1, 0, 1, 0, 16, "a", None, "PUT"), ("t", MTW - 0.1))
    over2 = (("b2", 1, 0, 0), ("b2", 1, 1, 0), ("t", MTW - 0.1), ("t", MTW - 0.1), ("b2", 1, 0, 0), ("t", MTW - 0.1))
    work.append(("b1", over1, 20, 2))
    work.append(("b2", over2, 64, 2))
    work.append(("combined", None, 0, 0))
    return core.prun(job, work, jobs)


def replay(case, scenario, seed):
    if case.get("family") == "szx7":
        res = Result()
        szx7(res, case["rlen"])
        return [v for v, n in res.violations.values()]
    if case.get("family") == "combined":
        res = Result()
        combined(res, case["rlen"], case["szx2"], case["where"], case["blocks1"])
        return [v for v, n in res.violations.values()]
    st = make_build(case["rlen"])([tuple(e) for e in case["hist"]])
    vs = list(st.violations)
    for op in case["hist"]:
        print("     op:", op)
    st.sw.dispose()
    return vs
