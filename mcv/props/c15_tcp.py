"""C15 - CoAP over TCP: framing independent of segmentation, signalling rules enforced.

E1 over frame sequences x chunkings on a real TcpConnection (server and client role) attached to a real TCPServer/TCPClient
pool object, a real TokenManager and Context, over a fake asyncio.Transport.  The expectation comes from the independent
RFC 8323 framer in mcv/refcodec.py; every chunking of one stream must give the identical (dispatch, write, closed) triple."""

import itertools

from .. import core, refcodec as rc
from ..core import Result, Violation
from ..vloop import VLoop

import asyncio
import gc
import logging

from aiocoap import Context, Message, GET, error, resource
from aiocoap.tokenmanager import TokenManager
from aiocoap.transports import tcp

PROP = "C15"
LEVEL = "model_checking"
RULE = ("E1: all sequences up to length L over a frame alphabet (CSM plain / elective option / critical option / announcing a small Max-Message-Size, requests with "
        "length field 0,12,13,268,269, response with unknown token, Ping, Pong, Release, Abort, Empty, unknown signalling code, "
        "oversized frame, TKL 9, three kinds of unparsable options) with and without a leading CSM, each fed under every chunking "
        "of a family (all compositions for streams <= 12 bytes; else whole, bytewise, fixed sizes, every single cut, strided pairs "
        "of cuts); client role with pending requests (also with a peer that has stopped reading); serialisation at the 13/269/65805 boundaries; frames of 65 kB - 1 MB cut inside their header; "
        "states = distinct (stream, outcome) pairs")
ASSUMPTIONS = [
    "after transport.close() nothing more is delivered (what asyncio does)",
    "local maximum message size set to 300 bytes per instance (1 MiB in two serialisation cases)",
    "the oracle is the RFC 8323 framer in mcv/refcodec.py plus the signalling rules of the statement",
]

CSM, PING, PONG, RELEASE, ABORT = 225, 226, 227, 228, 229
MAXSIZE = 300


class FakeTransport:
    def __init__(self, loop, conn):
        self.loop, self.conn = loop, conn
        self.written = []
        self.closed = False
        self.late_writes = 0

    def write(self, data):
        if self.closed:
            self.late_writes += 1      # asyncio discards data written to a closing transport
            return
        self.written.append(bytes(data))

    stuck = False      # True: the peer has stopped reading - the write buffer never drains, so asyncio never gets to connection_lost

    def close(self):
        if not self.closed:
            self.closed = True
            if not self.stuck:
                self.loop.call_soon(self.conn.connection_lost, None)

    def get_extra_info(self, name, default=None):
        if name == "sockname":
            return ("2001:db8::5", 5683, 0, 0)
        if name == "peername":
            return ("2001:db8::9", 45000, 0, 0)
        return default

    def is_closing(self):
        return self.closed


class Harness:
    def __init__(self, is_server=True, maxsize=MAXSIZE):
        gc.disable()
        self.loop = VLoop()
        lg = logging.getLogger("coap-c15")
        lg.propagate = False
        if not lg.handlers:
            lg.addHandler(logging.NullHandler())

        class R(resource.Resource):
            async def render_get(self, request):
                n = int(request.opt.uri_query[0]) if request.opt.uri_query else 2
                return Message(payload=b"k" * n)
        site = resource.Site()
        site.add_resource(["r"], R())
        self.ctx = Context(loop=self.loop, serversite=site, loggername="coap-c15")
        self.tman = TokenManager(self.ctx)
        self.pool = tcp.TCPServer() if is_server else tcp.TCPClient()
        self.pool._tokenmanager = self.tman
        self.pool.log = self.ctx.log
        self.pool.loop = self.loop
        self.tman.token_interface = self.pool
        self.ctx.request_interfaces.append(self.tman)
        self.dispatched = []
        for name in ("process_request", "process_response"):
            real = getattr(self.tman, name)

            def rec(msg, real=real, name=name):
                self.dispatched.append((name, int(msg.code), bytes(msg.token),
                                        [(int(o.number), bytes(o.encode())) for o in msg.opt.option_list()], bytes(msg.payload)))
                return real(msg)
            setattr(self.tman, name, rec)
        self.errors = []
        real_err = self.tman.dispatch_error

        def rec_err(exc, remote):
            self.errors.append(type(exc).__name__ if exc is not None else None)
            return real_err(exc, remote)
        self.tman.dispatch_error = rec_err
        self.conn = tcp.TcpConnection(self.pool, self.ctx.log, self.loop, is_server=is_server)
        self.conn._my_max_message_size = maxsize
        if is_server:
            self.pool._pool.add(self.conn)
        else:
            self.pool._pool[("2001:db8::9", 45000)] = self.conn
        self.tr = FakeTransport(self.loop, self.conn)
        self.conn.connection_made(self.tr)
        self.loop.settle()
        self.escaped = []

    def feed(self, chunks):
        for c in chunks:
            if self.tr.closed:
                break
            try:
                self.conn.data_received(c)
            except Exception as e:
                self.escaped.append(e)
                break
            self.loop.settle()
        self.loop.settle()

    def outcome(self):
        stream = b"".join(self.tr.written)
        frames, rest = rc.split_tcp(stream)
        out = []
        for (p, ln, tkl, length, total) in frames:
            f = stream[p:p + total]
            extl = {13: 1, 14: 2, 15: 4}.get(ln, 0)
            code = f[1 + extl]
            tok = f[2 + extl:2 + extl + tkl]
            body = f[2 + extl + tkl:]
            out.append((code, tok, body))
        return (self.dispatched, out, rest, self.tr.closed, self.errors)

    def dispose(self):
        for t in list(asyncio.all_tasks(self.loop)):
            t._log_destroy_pending = False
        self.loop.dispose()
        gc.enable()


def frames_alphabet():
    F = {}
    F["csm"] = rc.encode_tcp(CSM, b"", [(2, rc.uint(1152))], b"")
    F["csm-elective"] = rc.encode_tcp(CSM, b"", [(2, rc.uint(1152)), (8, b"x")], b"")
    F["csm-critical"] = rc.encode_tcp(CSM, b"", [(7, b"x")], b"")
    # a CSM is a CSM whatever it carries: no option at all, or only an unknown elective one
    F["csm-bare"] = rc.encode_tcp(CSM, b"", [], b"")
    F["csm-elective-only"] = rc.encode_tcp(CSM, b"", [(8, b"x")], b"")
    # the peer can only take small messages: that bounds what is sent to it, not what it may send
    F["csm-small"] = rc.encode_tcp(CSM, b"", [(2, rc.uint(64))], b"")
    for n in (0, 12, 13, 268, 269):
        if n == 0:
            F["req0"] = rc.encode_tcp(1, b"\x70", [], b"")
        else:
            F["req%d" % n] = rc.encode_tcp(1, bytes([0x70 + (n % 7)]), [(11, b"r")], b"p" * (n - 3))
    F["resp-unknown"] = rc.encode_tcp(69, b"\x99", [], b"zz")
    F["ping"] = rc.encode_tcp(PING, b"\x31\x32", [], b"")
    F["pong"] = rc.encode_tcp(PONG, b"\x33", [], b"")
    F["release"] = rc.encode_tcp(RELEASE, b"", [], b"")
    F["abort"] = rc.encode_tcp(ABORT, b"", [], b"bye")
    F["empty"] = rc.encode_tcp(0, b"", [], b"")
    F["sig-unknown"] = rc.encode_tcp(230, b"", [], b"")
    # an Empty message is ignored whatever it carries (RFC 8323 section 3.4): a token, an option, a payload
    F["empty-token"] = rc.encode_tcp(0, b"\x61\x62", [], b"")
    F["empty-option"] = rc.encode_tcp(0, b"", [(11, b"x")], b"")
    F["empty-payload"] = rc.encode_tcp(0, b"\x63", [], b"padding" * 3)
    # ... but only if it can be parsed: an Empty message whose option area is broken is an unparsable frame like any other
    F["empty-bad-nibble"] = bytes([0x10, 0x00, 0xF0])
    F["empty-opt-past-end"] = bytes([0x37, 0x00]) + b"tokenAB" + bytes([0x15, 0x61, 0x62])
    F["big"] = rc.encode_tcp(1, b"\x71", [(11, b"r")], b"B" * (MAXSIZE))
    F["tkl9"] = bytes([0x09, 0x01]) + b"T" * 9
    F["bad-nibble"] = bytes([0x11, 0x01, 0x72, 0xF1])[:3] + b""    # placeholder, replaced below
    # length 1 body: a single option byte with delta nibble 15 and length nibble 1 (not a payload marker)
    F["bad-nibble"] = bytes([0x11, 0x01, 0x72, 0xF1])
    F["opt-past-end"] = bytes([0x21, 0x01, 0x73, 0xB5, 0x61])      # Uri-Path announcing 5 bytes, 1 present
    F["bad-utf8"] = bytes([0x21, 0x01, 0x74, 0xB1, 0xFF])          # Uri-Path that is not UTF-8
    F["ping-critical"] = rc.encode_tcp(PING, b"\x35", [(9, b"")], b"")
    F["pong-critical"] = rc.encode_tcp(PONG, b"\x36", [(9, b"")], b"")
    F["pong-elective"] = rc.encode_tcp(PONG, b"\x37", [(2, b"")], b"")     # Custody: elective, ignored
    # elective options do not change what a signalling message means (Custody, Hold-Off, Bad-CSM-Option); a critical one behind
    # an elective one is still critical
    F["ping-elective"] = rc.encode_tcp(PING, b"\x38", [(2, b"")], b"")
    F["release-elective"] = rc.encode_tcp(RELEASE, b"", [(4, rc.uint(3))], b"")
    F["abort-elective"] = rc.encode_tcp(ABORT, b"", [(2, rc.uint(7))], b"bye")
    F["ping-elective-critical"] = rc.encode_tcp(PING, b"\x39", [(2, b""), (9, b"")], b"")
    F["release-critical"] = rc.encode_tcp(RELEASE, b"", [(7, b"x")], b"")
    F["abort-critical"] = rc.encode_tcp(ABORT, b"", [(7, b"x")], b"")
    # the last frame that still fits and the first that does not (the limit counts the whole frame)
    for tkl, tag in ((0, "a"), (8, "b")):
        for total in (MAXSIZE, MAXSIZE + 1):
            F["edge%d%s" % (total - MAXSIZE, tag)] = sized_frame(total, tkl)
    return F


def sized_frame(total, tkl, first=0x60):
    """A request frame for /r of exactly `total` bytes with a token of tkl bytes."""
    tok = bytes([first + i for i in range(tkl)])
    for pl in range(max(0, total - 16 - tkl), total):
        f = rc.encode_tcp(1, tok, [(11, b"r")], b"E" * pl)
        if len(f) == total:
            return f
    raise AssertionError("no frame of %d bytes" % total)


def expectation(names, F, leading_own_csm=True):
    """Reference processing of a frame sequence -> (dispatch list, expected writes as (code, token) list, closed, errors)."""
    disp, writes, errors = [], [(CSM, b"")], []
    csm = False
    closed = False
    for nm in names:
        if closed:
            break
        f = F[nm]
        fr, rest = rc.split_tcp(f)
        p, ln, tkl, length, total = fr[0]
        extl = {13: 1, 14: 2, 15: 4}.get(ln, 0)
        code = f[1 + extl]
        if total > MAXSIZE:
            writes.append((ABORT, b""))
            closed = True
            break
        if tkl > 8:
            writes.append((ABORT, b""))
            closed = True
            break
        tok = f[2 + extl:2 + extl + tkl]
        try:
            opts, pl = rc.decode_options(f, 2 + extl + tkl)
            bad = False
        except rc.FormatError:
            bad = True
        if bad:
            writes.append((ABORT, b""))
            closed = True
            break
        if code >= 224:
            if code == CSM:
                if any(n % 2 == 1 and n not in (2, 4) for n, v in opts):
                    writes.append((ABORT, b""))
                    closed = True
                    break
                csm = True
            elif code in (PING, PONG, RELEASE, ABORT):
                if any(n % 2 == 1 for n, v in opts):
                    writes.append((ABORT, b""))
                    closed = True
                    if code in (RELEASE, ABORT):
                        errors = None      # the peer is leaving anyway: which network error the pending requests see is open
                    break
                if code == PING:
                    writes.append((PONG, tok))
                elif code in (RELEASE, ABORT):
                    errors.append("RemoteServerShutdown")
                    closed = True
                    break
            else:
                writes.append((ABORT, b""))
                closed = True
                break
            continue
        if not csm:
            writes.append((ABORT, b""))
            closed = True
            break
        if code == 0:
            continue
        if 64 <= code < 192:
            disp.append(("process_response", code, tok, opts, pl))
        elif 1 <= code < 32:
            disp.append(("process_request", code, tok, opts, pl))
            path = [v for n, v in opts if n == 11]
            writes.append((69 if path == [b"r"] else 132, tok))
    return disp, writes, closed, errors


def chunkings(stream, tier):
    n = len(stream)
    out = []
    if n <= 12:
        for mask in range(1 << (n - 1)) if n > 0 else [0]:
            cuts = [i + 1 for i in range(n - 1) if mask >> i & 1]
            out.append(cuts)
        return out
    out.append([])
    out.append(list(range(1, n)))
    for k in (2, 3, 5, 7, 16):
        out.append(list(range(k, n, k)))
    for i in range(1, n):
        out.append([i])
    stride = 3 if tier == "quick" else 1
    for i in range(1, min(n, 40), stride):
        for j in range(i + 1, min(n, 60), stride + 1):
            out.append([i, j])
    return out


def cut(stream, cuts):
    parts, last = [], 0
    for c in cuts:
        parts.append(stream[last:c])
        last = c
    parts.append(stream[last:])
    return [p for p in parts if p] or [b""]


def run_sequence(res, names, F, tier, only=None):
    stream = b"".join(F[n] for n in names)
    want = expectation(names, F)
    ref_outcome = None
    case = {"frames": list(names)}
    for cuts in (only if only is not None else chunkings(stream, tier)):
        h = Harness(True)
        try:
            h.feed(cut(stream, cuts))
            res.evaluations += 1
            res.traces += 1
            if h.escaped:
                e = h.escaped[0]
                res.violate(Violation("exception-leaves-data_received", "none", core.exc_desc(e), core.site_of(e), dict(case, cuts=cuts),
                                      key=type(e).__name__))
                continue
            disp, writes, rest, closed, errors = h.outcome()
            # responses to requests are produced by handler tasks: whether one made it out before a later frame closed the
            # connection is timing, not framing.  Signalling reactions are compared exactly; responses must all be there
            # when the connection stayed open, and must be a prefix-respecting subset otherwise.
            sig = [(c, t) for c, t, b in writes if c >= 224]
            resp = [(c, t) for c, t, b in writes if c < 224]
            wsig = [(c, t) for c, t in want[1] if c >= 224]
            wresp = [(c, t) for c, t in want[1] if c < 224]
            errors = [e for e in errors if e is not None]     # (connection_lost(None) after a close reports None)
            if want[3] is None:
                errors = None
            got = (disp, sig, closed, errors)
            # a repeated token supersedes the request still in its handler: its response may legitimately be missing
            it = iter(wresp)
            subseq = all(any(x == y for y in it) for x in resp)
            last = {t: (c, t) for c, t in wresp}
            resp_ok = subseq and (closed or all(v in resp for v in last.values()))
            if got != (want[0], wsig, want[2], want[3]) or not resp_ok:
                which = "dispatch" if got[0] != want[0] else "signalling" if sig != wsig else "closed" if got[2] != want[2] else "errors" if errors != want[3] else "responses"
                res.violate(Violation("frame-processing", core.jsonable((want[0], wsig, want[2], want[3], wresp)), core.jsonable(got + (resp,)),
                                      "transports/tcp.py:data_received", dict(case, cuts=cuts), key="%s/%s" % (which, bad_frame(names))))
            full = (disp, sig, closed, errors)
            if ref_outcome is None:
                ref_outcome = (full, cuts)
            elif full != ref_outcome[0]:
                res.violate(Violation("segmentation-dependent", {"cuts": ref_outcome[1], "outcome": core.jsonable(ref_outcome[0])},
                                      {"cuts": cuts, "outcome": core.jsonable(full)}, "transports/tcp.py:data_received",
                                      dict(case, cuts=cuts), key="seg/%s" % bad_frame(names)))
            if rest:
                res.violate(Violation("written-stream-not-framed", "whole frames", rest.hex(), "transports/tcp.py:_serialize", dict(case, cuts=cuts), key="rest"))
            res.outcomes.add(core.digest(got))
        finally:
            h.dispose()
    res.signatures.add(core.digest(names))
    res.states.add(core.digest((names, ref_outcome and ref_outcome[0][2])))
    res.transitions += len(names)


def bad_frame(names):
    for n in names:
        if n in ("csm-critical", "big", "tkl9", "bad-nibble", "opt-past-end", "bad-utf8", "sig-unknown", "empty", "release", "abort", "ping-critical",
                 "pong-critical", "release-critical", "abort-critical", "edge1a", "edge1b", "release-elective", "abort-elective",
                 "ping-elective-critical"):
            return n
        if n.startswith("sz"):
            return "size-boundary"
    return "plain"


def client_role(res):
    """Pending client requests fail with a network error on Release/Abort; matching responses are delivered."""
    for ender, with_csm, displaced, stuck in itertools.product(("release", "abort", "eof-close", "release-elective", "abort-elective"), (True, False), (False, True),
                                                               (False, True)):
        if stuck and ender == "eof-close":
            continue
        if True:
            h = Harness(False)
            h.tr.stuck = stuck      # (the peer sends its Release / Abort and neither reads nor closes: the requests fail on the message itself)
            try:
                F = frames_alphabet()
                m = Message(code=GET, uri_path=["x"])
                m.remote = h.conn
                r1 = h.ctx.request(m, handle_blockwise=False)
                m2 = Message(code=GET, uri_path=["y"])
                m2.remote = h.conn
                r2 = h.ctx.request(m2, handle_blockwise=False)
                h.loop.settle()
                frames, _ = rc.split_tcp(b"".join(h.tr.written))
                case = {"client": [ender, with_csm, displaced, stuck]}
                if displaced:
                    # a second connection to the same host took this one's place in the pool (two first requests raced);
                    # the displaced connection is still in use and its end must reach its requests all the same
                    other = tcp.TcpConnection(h.pool, h.ctx.log, h.loop, is_server=False)
                    h.pool._pool[("2001:db8::9", 45000)] = other
                res.evaluations += 1
                res.traces += 1
                if len(frames) != 3:
                    res.violate(Violation("client-requests-not-written", 3, len(frames), "transports/tcp.py", case, key="cw"))
                    continue
                tok1 = bytes(m.token)
                stream = (F["csm"] if with_csm else b"") + rc.encode_tcp(69, tok1, [], b"answer") if with_csm else b""
                if ender != "eof-close":
                    stream += F[ender]
                h.feed([stream] if stream else [])
                if ender == "eof-close":
                    h.conn.connection_lost(None)
                    h.loop.settle()
                if with_csm:
                    ok1 = r1.response.done() and r1.response.exception() is None and r1.response.result().payload == b"answer"
                else:
                    ok1 = r1.response.done() and isinstance(r1.response.exception(), error.NetworkError)
                ok2 = r2.response.done() and isinstance(r2.response.exception(), error.NetworkError)
                if not ok1 or not ok2:
                    res.violate(Violation("pending-requests-on-connection-end", "delivered response / NetworkError for the rest",
                                          [repr(r1.response), repr(r2.response)], "transports/tcp.py:_dispatch_error", case,
                                          key=ender + ("-displaced" if displaced else "") + ("-stuck" if stuck else "")))
                res.outcomes.add(core.digest(("client", ender, with_csm, displaced, stuck, ok1, ok2)))
                res.signatures.add(core.digest(("client", ender, with_csm, displaced, stuck)))
            finally:
                h.dispose()


def serialisation(res):
    """Outgoing frames at the extended-length boundaries equal the independent encoder."""
    for blen in (0, 1, 12, 13, 14, 268, 269, 270, 65535, 65536, 65537, 65700, 65804, 65805, 65806):
        for tkl in (0, 1, 8):
            tok = b"t" * tkl
            pl = b"q" * (blen - 1) if blen else b""
            m = Message(code=69, _token=tok, payload=pl)
            want = rc.encode_tcp(69, tok, [], pl)
            res.evaluations += 1
            try:
                got = tcp._serialize(m)
            except Exception as e:
                res.violate(Violation("serialisation", want[:12].hex(), core.exc_desc(e), core.site_of(e), {"body_len": blen, "tkl": tkl}, key="ser-raises"))
                continue
            if got != want:
                res.violate(Violation("serialisation", want[:12].hex(), got[:12].hex(), "transports/tcp.py:_serialize", {"body_len": blen, "tkl": tkl}, key="ser"))
            sz = tcp._extract_message_size(got)
            if sz is None or sum(sz) != len(got):
                res.violate(Violation("own-frame-size", len(got), sz, "transports/tcp.py:_extract_message_size", {"body_len": blen}, key="size"))
            res.signatures.add(core.digest(("ser", blen, tkl)))
    # through the connection, with the 1 MiB default limit
    for n in (9, 10, 265, 266):
        h = Harness(True, maxsize=1024 * 1024)
        try:
            F = frames_alphabet()
            req = rc.encode_tcp(1, b"\x42", [(11, b"r"), (15, str(n).encode())], b"")
            h.feed([F["csm"] + req])
            disp, writes, rest, closed, errors = h.outcome()
            res.evaluations += 1
            want = rc.encode_tcp(69, b"\x42", [], b"k" * n)
            got = h.tr.written[-1] if h.tr.written else b""
            if got != want:
                res.violate(Violation("serialisation", want[:8].hex(), got[:8].hex(), "transports/tcp.py:_serialize", {"payload": n}, key="ser-conn"))
            res.signatures.add(core.digest(("serc", n)))
        finally:
            h.dispose()
    res.outcomes.add("ser")


def big_frames(res):
    """Frames that need the four-byte extended length (bodies of 70 kB to 1 MB, all within the local maximum of 1 MiB), cut at
    every position inside their header: where the cut falls makes no difference - the request is dispatched, nothing is aborted."""
    F = frames_alphabet()
    etag = b"\x01\xff\x02"       # a 0xFF byte inside an option value is not a payload marker
    for n in (5000, 65805 + 1, 70000, 140000, 1000000):
        req = rc.encode_tcp(1, b"\x42", [(4, etag), (11, b"r")], b"B" * n)
        stream = F["csm"] + req
        L0 = len(F["csm"])
        for cuts in [[L0 + k] for k in range(1, 9)] + [[L0 + 1, L0 + 2, L0 + 3, L0 + 4, L0 + 5, L0 + 6], [L0 + 2, L0 + 4], [L0 + 3, L0 + 5, len(stream) - 1]]:
            h = Harness(True, maxsize=1024 * 1024)
            try:
                chunks, prev = [], 0
                for c in cuts + [len(stream)]:
                    chunks.append(stream[prev:c])
                    prev = c
                h.feed(chunks)
                disp, writes, rest, closed, errors = h.outcome()
                res.evaluations += 1
                res.traces += 1
                reqs = [d for d in disp if d[0] == "process_request"]
                aborts = [w_ for w_ in writes if w_[0] == ABORT]
                if len(reqs) != 1 or aborts or closed or len(reqs[0][4]) != n or (4, etag) not in [(o[0], bytes(o[1])) for o in reqs[0][3]]:
                    res.violate(Violation("frame-processing", "one request of %d payload bytes dispatched, no Abort" % n,
                                          {"dispatched": len(reqs), "aborts": len(aborts), "closed": bool(closed)}, "transports/tcp.py:data_received",
                                          {"big_frame": n, "cuts": [c - L0 for c in cuts]}, key="big-frame"))
                res.signatures.add(core.digest(("bigframe", n, tuple(cuts))))
                res.outcomes.add(core.digest(("bigframe", len(reqs), len(aborts))))
            finally:
                h.dispose()


def size_boundary(res, tier):
    """Every frame size around the local limit, for every token length: dispatched iff the whole frame fits."""
    F = frames_alphabet()
    for tkl in range(0, 9):
        for total in range(MAXSIZE - 2, MAXSIZE + 16):
            name = "sz%d-%d" % (total, tkl)
            F2 = dict(F)
            F2[name] = sized_frame(total, tkl)
            run_sequence(res, ("csm", name, "ping"), F2, "quick", only=[[], [3], [5], [MAXSIZE // 2], list(range(1, total, 97))])


def job(arg):
    kind, items, tier = arg
    res = Result()
    F = frames_alphabet()
    if kind == "seq":
        for names in items:
            run_sequence(res, names, F, tier)
        res.sample({"frames": list(items[-1]), "chunkings": "all in family"})
    elif kind == "client":
        client_role(res)
        serialisation(res)
        size_boundary(res, tier)
        big_frames(res)
    return res


def sequences(tier):
    F = frames_alphabet()
    names = list(F)
    out = []
    L = 2 if tier == "quick" else 3
    for n in range(0, L + 1):
        for seq in itertools.product(names, repeat=n):
            out.append(("csm",) + seq)
    core8 = ["csm", "req12", "ping", "empty", "csm-critical", "release", "resp-unknown", "big"]
    for n in range(1, 4):
        for seq in itertools.product(core8 if n == 3 else names, repeat=n):
            if n == 3 and tier == "quick" and seq[0] != "csm":
                continue
            out.append(seq)
    return sorted(set(out))


def run(tier, seed, jobs):
    seqs = sequences(tier)
    n = 96
    work = [("seq", seqs[i::n], tier) for i in range(n)] + [("client", None, tier)]
    res = core.prun(job, work, jobs)
    res.scenarios["space"] = {"frame_kinds": len(frames_alphabet()), "sequences": len(seqs)}
    return res


def replay(case, scenario, seed):
    res = Result()
    if "frames" in case:
        F = frames_alphabet()
        for nm in case["frames"]:
            if nm.startswith("sz"):
                total, tkl = nm[2:].split("-")
                F[nm] = sized_frame(int(total), int(tkl))
        run_sequence(res, tuple(case["frames"]), F, "quick")
    elif "big_frame" in case:
        big_frames(res)
    elif "client" in case:
        client_role(res)
    else:
        serialisation(res)
    return [v for v, n in res.violations.values()]
