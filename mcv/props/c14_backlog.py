"""C14 - NSTART=1: one open confirmable exchange per peer, FIFO backlog, none forgotten.

E2 over a UDP client world with two scripted servers; the monitor rebuilds the per-remote exchange/queue state
from the wire and from the events the harness applies, and checks it after every step."""

import errno

from .. import core, refcodec as rc
from ..core import Violation
from ..explore import explore_schedules, replay_schedule
from ..netscn import NetScenario, RefServer

from aiocoap import Message, GET, NON, CON, error

PROP = "C14"
LEVEL = "model_checking"
RULE = ("E2: all schedules with <= K deviations (drop / duplicate / reorder / delay / early submission / server reply mode "
        "piggyback, separate CON, separate NON, silent / RST / ICMP error / sendmsg OSError / withdrawal of a held-back request or of the request whose exchange is open) of scripted submissions of CON and "
        "NON requests to two peers (two ports of one host), among them client requests behind the node's own separate response (acknowledged late, or never);  distinct = distinct schedule; states = world digests at choice points")
ASSUMPTIONS = [
    "exchange time-outs are recognised by the head request failing with a time-out error (their timing is C03's subject)",
    "client-originated requests only; a server's separate CON response shares the same code path (MessageManager.send_message)",
]

CLI = ("2001:db8::c", 40000)
A = ("2001:db8::a", 5683)
B = ("2001:db8::a", 5684)      # the other endpoint is another port of A's host: an endpoint is address and port
SRV = {"A": A, "B": B}

SCENARIOS = {
    "S-BL-all": [[("c0", "CON", "A"), ("c1", "CON", "A"), ("c2", "CON", "B"), ("n3", "NON", "A"), ("c4", "CON", "A")]],
    "S-BL-split": [[("c0", "CON", "A"), ("c1", "CON", "A")], [("c2", "CON", "A"), ("n3", "NON", "A")]],
    "S-BL-three": [[("c0", "CON", "A"), ("c1", "CON", "A"), ("c2", "CON", "A")], [("c3", "CON", "B")]],
    # the other endpoint's exchange ends first while a message for A is held back behind A's open exchange
    "S-BL-wrap": [[("c0", "CON", "A"), ("c1", "CON", "A"), ("c2", "CON", "A"), ("c3", "CON", "A")]],
    "S-BL-cross": [[("c0", "CON", "B"), ("c1", "CON", "A"), ("c2", "CON", "A")]],
    # server role: the node's own separate CON response to A competes with its client requests to A
    "S-BL-server": [[("c0", "CON", "A")], "A-requests-slow", [("c1", "CON", "A")]],
    # ... and with that separate response on the wire already when the client request is submitted (which then waits behind it,
    # also when nobody ever acknowledges the response)
    "S-BL-server-open": ["A-requests-slow", "wait", [("c1", "CON", "A"), ("c2", "CON", "A")]],
    # ... and with a peer that never acknowledges a response: the response is given up after MAX_TRANSMIT_WAIT, and what waited
    # behind it is not forgotten
    "S-BL-server-deaf": ["A-requests-slow", "wait", [("c1", "CON", "A"), ("c2", "CON", "A")]],
}


class DeafServer(RefServer):
    """Never acknowledges a confirmable response."""

    def on_message(self, src, msg, dg):
        if msg[0] == rc.CON and msg[1] >= 64:
            return
        super().on_message(src, msg, dg)



class Sub:
    def __init__(self, name, mtype, srv, order):
        self.name, self.mtype, self.srv, self.order = name, mtype, srv, order
        self.obj = None
        self.msg = None
        self.first_tx = None
        self.mid = None
        self.bytes = None
        self.token = None
        self.dropped = False


class BacklogScenario(NetScenario):
    names = {CLI: "cli", A: "A", B: "B"}
    deliver_variants = {"A": ["sepcon", "sepnon", "respfirst", "silent"], "B": ["silent"]}
    horizon = 200.0
    max_steps = 160

    def __init__(self, name, K):
        self.name = name
        self.params = {"submissions": SCENARIOS[name]}
        self.K = K

    def build(self, st):
        from ..world import World
        # (S-BL-wrap: the node's message-ID counter is about to wrap, so that held-back messages carry the IDs 0xFFFF, 0 and 1)
        w = st.world = World(mid0=0xFFFE) if self.name == "S-BL-wrap" else World()
        site = None
        st.resp = None
        if self.name.startswith("S-BL-server"):
            import asyncio
            from aiocoap import resource

            class Slow(resource.Resource):
                async def render_get(self_, request):
                    await asyncio.sleep(0.5)
                    # the separate response is submitted now: the model queues it like any other CON to A
                    st.resp = Sub("resp", "CON", "A", 99)
                    st.resp.token = bytes(request.token)
                    st.subs.append(st.resp)
                    st.queue["A"].append(st.resp)
                    return Message(payload=b"late")
            site = resource.Site()
            site.add_resource(["slow"], Slow())
        st.cli = w.add_context("cli", *CLI, site=site)
        w.add_peer((DeafServer if self.name.endswith("-deaf") else RefServer)("A", *A))
        w.add_peer(RefServer("B", *B))
        st.subs = []
        st.open = {"A": None, "B": None}      # model: the Sub whose exchange is open, per remote
        st.used = set()
        st.queue = {"A": [], "B": []}         # model: submitted CONs not yet transmitted, FIFO
        w.on_emit.append(lambda dg: self.on_wire(st, dg))
        n = 0
        for g in SCENARIOS[self.name]:
            if g == "wait":
                def wait(st):
                    # the request is delivered, 0.6 s pass: empty ACK after 0.1 s, the separate response after 0.5 s
                    for dg in list(st.world.pool):
                        self.before_deliver(st, dg)
                        st.world.deliver(dg)
                        self.after_deliver(st, dg)
                    st.world.loop.advance_to(st.world.loop.time() + 0.6)
                st.script.append(("0.6 s pass", wait))
                continue
            if g == "A-requests-slow":
                st.script.append(("A requests /slow", lambda st: st.world.emit(A, CLI, rc.encode((rc.CON, 1, 0x1001, b"\xa5", [(11, b"slow")], b"")))))
                continue
            subs = []
            for (name, mt, srv) in g:
                s = Sub(name, mt, srv, n)
                n += 1
                subs.append(s)
                st.subs.append(s)
            st.script.append(("submit " + "+".join(s.name for s in subs), lambda st, subs=subs: self.submit(st, subs)))

    def submit(self, st, subs):
        w = st.world
        for s in subs:
            m = Message(code=GET, uri_path=[s.name], _mtype=CON if s.mtype == "CON" else NON)
            m.remote = st.cli.remote(SRV[s.srv])
            s.msg = m
            s.obj = st.cli.ctx.request(m, handle_blockwise=False)
            if s.mtype == "CON":
                st.queue[s.srv].append(s)
            nf = len(w.fault_fired)
            w.loop.settle()
            # not delayed: NON, and CON to a remote without an open exchange, go out in the settle of their submission
            if len(w.fault_fired) > nf:
                self.remote_error(st, s.srv, "sendmsg error")
                continue
            if s.mtype == "NON" or (st.open[s.srv] in (None, s) and not [q for q in st.queue[s.srv] if q.order < s.order]):
                if s.first_tx is None and not s.obj.response.done():
                    st.violations.append(Violation("undelayed-message-not-sent-at-once", "transmitted in the settle of its submission",
                                                   "not on the wire", "messagemanager.py:send_message", {}, key=s.mtype))

    def on_wire(self, st, dg):
        if dg.src != CLI:
            return
        d = dg.data
        m = rc.decode(d, check_formats=False)
        if d[1] >= 64 and m[0] == rc.CON:
            s = next((x for x in st.subs if x.token is not None and x.token == m[3] and x.name == "resp"), None)
            if s is None:
                st.violations.append(Violation("unexplained-con-response", "a separate response the handler produced", rc.describe(m), "messagemanager.py", {}, key="resp"))
                return
        elif not (1 <= d[1] < 32):
            return
        else:
            path = rc.opt(m[4], 11, b"").decode()
            s = next(x for x in st.subs if x.name == path)
        if getattr(s, "cancelled", False):
            st.violations.append(Violation("withdrawn-message-transmitted", "never on the wire", s.name, "messagemanager.py:send_message", {}, key="withdrawn"))
            return
        if s.first_tx is None:
            s.first_tx, s.mid, s.bytes = dg.t, m[2], d
            if s.mtype == "CON":
                if st.open[s.srv] is not None:
                    st.violations.append(Violation("two-open-exchanges", "at most one CON awaiting its ACK per remote",
                                                   [st.open[s.srv].name, s.name], "messagemanager.py:send_message", {}, key="nstart"))
                q = st.queue[s.srv]
                if q and q[0] is not s:
                    st.violations.append(Violation("backlog-order", q[0].name, s.name, "messagemanager.py:_continue_backlog", {}, key="fifo"))
                if s in q:
                    q.remove(s)
                st.open[s.srv] = s
        else:
            # a retransmission: only of the open exchange
            if s.mtype == "CON" and st.open[s.srv] is not s:
                st.violations.append(Violation("retransmission-of-closed-exchange", "no copy after ACK/RST/failure", s.name,
                                               "messagemanager.py:_retransmit", {}, key="zombie"))

    def faults(self, st):
        out = []
        for srv in ("A", "B"):
            s = st.open[srv]
            if s is not None:
                out.append(("rst:" + srv, 1))
                out.append(("icmp:" + srv, 1))
                out.append(("senderr:" + srv, 1))
                if s.obj is not None and not s.obj.response.done() and "cancel-head" not in st.used:
                    # the sender loses interest in the request whose exchange is open: the exchange itself goes on until it is
                    # acknowledged (by whatever the peer sends under that message ID), reset or given up
                    out.append(("cancel-head:" + srv, 1))
            # the sender withdraws a request that is still held back
            for q in st.queue[srv]:
                if q.obj is not None and q.first_tx is None and not q.obj.response.done():
                    out.append(("cancel:" + q.name, 1))
        return out

    def remote_error(self, st, srv, why):
        """A transport error was reported for the remote: everything pending towards it fails now."""
        for s in st.subs:
            if s.srv == srv and s.obj is None and s.first_tx is None:
                s.dropped = True        # a held-back response goes down with its remote
            if s.srv == srv and s.obj is not None and not s.obj.response.done():
                st.violations.append(Violation("error-leaves-request-pending", "every request to the remote fails (%s)" % why,
                                               s.name + " pending", "messagemanager.py:dispatch_error", {}, key=why))
            elif s.srv == srv and s.obj is not None and not getattr(s, "judged", False) and not s.obj.response.cancelled() \
                    and s.obj.response.exception() is not None and s.first_tx is None:
                # a request that never made it onto the wire fails for the reason the remote became unreachable - a network
                # error - and not as if the peer had reset it
                s.judged = True
                e = s.obj.response.exception()
                if not isinstance(e, error.NetworkError) or isinstance(e, error.MessageError) or (why == "timeout" and not isinstance(e, error.TimeoutError)):
                    st.violations.append(Violation("held-back-request-fails-with-wrong-error", "a network error (%s), not a message-level one - nothing was ever sent, let alone reset" % why,
                                                   core.exc_desc(e), "messagemanager.py:_retransmit", {}, key="class:" + why))
        st.open[srv] = None
        st.queue[srv] = []

    def apply_fault(self, st, label):
        w = st.world
        kind, srv = label.split(":")
        if kind == "cancel":
            q = next(x for x in st.subs if x.name == srv)
            q.obj.response.cancel()
            w.loop.settle()
            st.queue[q.srv].remove(q)
            q.cancelled = True
            return
        s = st.open[srv]
        if kind == "cancel-head":
            st.used.add("cancel-head")
            s.obj.response.cancel()
            w.loop.settle()
            s.cancelled_head = True
            return
        if kind == "rst":
            st.open[srv] = None     # the model closes the exchange when the RST is processed
            w.inject(SRV[srv], CLI, rc.encode((rc.RST, 0, s.mid, b"", [], b"")))
            self.closed(st, srv, s, rst=True)
        elif kind == "icmp":
            st.cli.receive_error(SRV[srv], errno.EHOSTUNREACH)
            w.loop.settle()
            self.remote_error(st, srv, "icmp")
        elif kind == "senderr":
            w.send_faults[("cli", SRV[srv])] = errno.ENETUNREACH

    def closed(self, st, srv, s, rst=False):
        """The open exchange ended by ACK/RST: the next queued CON must go out in this very step."""
        if self.fired(st):
            self.remote_error(st, srv, "sendmsg error")
            return
        if rst and s.obj is not None and not s.obj.response.done():
            st.violations.append(Violation("rst-does-not-fail-request", "failed", "pending", "messagemanager.py:_remove_exchange", {}, key="rst"))
        if st.queue[srv] and st.open[srv] is None:
            st.violations.append(Violation("held-back-message-not-released", st.queue[srv][0].name + " transmitted when the exchange ahead ended",
                                           "still held back", "messagemanager.py:_continue_backlog", {}, key="stuck"))

    def before_deliver(self, st, dg):
        st._closing = []
        if dg.dst != CLI:
            return
        d = dg.data
        mtype = (d[0] >> 4) & 3
        mid = (d[2] << 8) | d[3]
        if mtype in (rc.ACK, rc.RST):
            for srv in ("A", "B"):
                s = st.open[srv]
                if s is not None and s.mid == mid and SRV[srv] == dg.src:
                    st.open[srv] = None    # model: the exchange ends when this datagram is processed
                    st._closing.append((srv, s, mtype == rc.RST))

    def after_deliver(self, st, dg):
        if dg.dst != CLI:
            return
        if self.fired(st):
            for node, dst in self.fired(st):
                self.remote_error(st, "A" if dst == A else "B", "sendmsg error")
            return
        for srv, s, rst in st._closing:
            self.closed(st, srv, s, rst=rst)

    def after_timer(self, st):
        if self.fired(st):
            for node, dst in self.fired(st):
                self.remote_error(st, "A" if dst == A else "B", "sendmsg error")
            return
        for srv in ("A", "B"):
            s = st.open[srv]
            if s is not None and s.obj is not None and s.obj.response.done() and not s.obj.response.cancelled() and isinstance(s.obj.response.exception(), error.TimeoutError):
                self.remote_error(st, srv, "timeout")
            elif s is not None and (s.obj is None or getattr(s, "cancelled_head", False)) \
                    and not any(r.sockaddr[:2] == SRV[srv] for (r, mid) in st.cli.mman._active_exchanges) \
                    and s.first_tx is not None and st.world.loop.time() - s.first_tx > 40:
                self.remote_error(st, srv, "timeout")     # the separate response (or a request nobody waits for any more) ran out of retransmissions
        # a separate response produced by a handler in this step goes out at once unless an exchange is open
        r = st.resp
        if r is not None and r.first_tx is None and not r.dropped and st.open["A"] is None and st.queue["A"] and st.queue["A"][0] is r:
            st.violations.append(Violation("undelayed-message-not-sent-at-once", "separate response transmitted when produced", "held back",
                                           "messagemanager.py:send_message", {}, key="resp"))

    def on_step(self, st, label):
        mm = st.cli.mman
        act = {r.sockaddr[:2] for (r, mid) in mm._active_exchanges}
        bl = {r.sockaddr[:2] for r in mm._backlogs}
        if act != bl:
            st.violations.append(Violation("backlog-keys-vs-active-exchanges", sorted(act), sorted(bl), "messagemanager.py", {}, key="inv"))
        want_open = {SRV[k] for k, v in st.open.items() if v is not None}
        if act != want_open:
            st.violations.append(Violation("open-exchanges-vs-model", sorted(want_open), sorted(act), "messagemanager.py", {},
                                           key="more" if act - want_open else "fewer"))
        for s in st.subs:
            if s.obj is not None and s.obj.response.done() and not s.obj.response.cancelled() and s.obj.response.exception() is not None \
                    and not isinstance(s.obj.response.exception(), error.Error):
                st.violations.append(Violation("foreign-exception-type", "error.Error", core.exc_desc(s.obj.response.exception()),
                                               core.site_of(s.obj.response.exception()), {}, key="type"))

    def finish(self, st):
        w = st.world
        if not st.horizon_hit:
            for s in st.subs:
                if s.obj is None and s.first_tx is None and not s.dropped:
                    st.violations.append(Violation("message-forgotten", "transmitted or dropped with its remote", s.name + " neither", "messagemanager.py", {}, key="forgotten-resp"))
                if s.obj is not None and s.first_tx is None and not s.obj.response.done():
                    st.violations.append(Violation("message-forgotten", "transmitted or failed", s.name + " neither", "messagemanager.py", {}, key="forgotten"))
        for msg, e in w.loop_exceptions():
            st.violations.append(Violation("loop-exception", "none", core.exc_desc(e) if e else msg,
                                           core.site_of(e) if e else "loop", {}, key=type(e).__name__ if e else msg[:50]))

    def outcome(self, st):
        return tuple((s.name, s.first_tx is not None, s.dropped if s.obj is None else None if not s.obj.response.done() else
                      "withdrawn" if s.obj.response.cancelled() else ("ok" if s.obj.response.exception() is None else type(s.obj.response.exception()).__name__)) for s in st.subs)


def run(tier, seed, jobs):
    if tier == "quick":
        res = explore_schedules([BacklogScenario(n, 1) for n in SCENARIOS], 1, jobs)
        res.merge(explore_schedules([BacklogScenario("S-BL-split", 2)], 2, jobs, cap=60000))
        return res
    res = explore_schedules([BacklogScenario(n, 2) for n in SCENARIOS], 2, jobs)
    res.merge(explore_schedules([BacklogScenario("S-BL-split", 3)], 3, jobs, cap=600000))
    return res


def replay(case, scenario, seed):
    return replay_schedule(BacklogScenario(case["scenario"], 9), case["choices"])
