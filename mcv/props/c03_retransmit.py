"""C03 - CON retransmission: bounded exponential back-off that always terminates.

E2 on one confirmable exchange (three sources of the CON message), complete over injection positions:
between any two timer firings, at the midpoint, and on the tie instant just before the timer, one of a menu of
acknowledgements is injected (K injections per run).  A reference model of RFC 7252 section 4.2 is stepped with
the same events and compared after every step and on the full wire timeline at the end."""

import asyncio

from .. import core, refcodec as rc
from ..core import Result, Violation
from ..explore import Scenario, explore_schedules, replay_schedule
from ..world import World, Peer

import aiocoap
from aiocoap import Message, GET, error, resource
from aiocoap.numbers.constants import TransportTuning

PROP = "C03"
LEVEL = "model_checking"
RULE = ("E2: per (source: client request, library-generated Block2 follow-up request, separate response, notification; TransportTuning; "
        "random-seam answer) scenario every run with <= K injected acknowledgements "
        "(menu: matching ACK/RST/piggybacked response, ACK with mid+-1, ACK/RST from another port or IP, the separate response to an older request) at every "
        "inter-timer position (right after a firing, midpoint, tie instant before the timer); distinct = distinct schedule")
ASSUMPTIONS = [
    "virtual clock: timers fire exactly at their deadline; ties are explored on both sides explicitly",
    "loss of a copy or of an ACK is the peer not reacting (covered by the no-injection default)",
    "TransportTuning grid {ACK_TIMEOUT 0.5,2,7} x {ACK_RANDOM_FACTOR 1,1.5,3} x {MAX_RETRANSMIT 0,1,4,6} only",
]

SERVER = ("2001:db8::1", 5683)
CLIENT = ("2001:db8::c", 40000)
OTHERPORT = ("2001:db8::1", 5684)
OTHERIP = ("2001:db8::2", 5683)

INJ = ("ack", "rst", "resp", "ackresp-badtoken", "ack+1", "ack-1", "ack@port", "ack@ip", "rst@port", "rst+1", "rst@ip", "oldresp-non", "oldresp-con", "oldresp-non-samemid", "oldresp-con-samemid")
POS = ("now", "mid", "tie")


def tuning(at, arf, mr):
    return type("T", (TransportTuning,), {"ACK_TIMEOUT": at, "ACK_RANDOM_FACTOR": arf, "MAX_RETRANSMIT": mr})()


class Silent(Peer):
    pass


class St:
    pass


class ConScenario(Scenario):
    def __init__(self, source, at, arf, mr, uni, K, pre="none"):
        # pre: what happened on this (endpoint, message ID) before the exchange under test
        #   strayack/strayrst: an unmatched empty ACK/RST carrying the very ID the CON is going to use arrived earlier
        #   collide: the peer's own request carried the ID the CON is going to use (separate ID spaces must not mix)
        #   class: the tuning is handed over as a TransportTuning subclass, not an instance (as aiocoap-client does)
        #   queued: the CON under test had to wait behind two earlier requests to the same endpoint, each answered in turn
        #   default-after-edit: the CON has no tuning of its own (defaults 2 / 1.5 / 4), and another message's default tuning was edited before
        #   mtype-arg: the message is created with the deprecated mtype=CON keyword next to its tuning
        #   follower-withdrawn: a second request to the same endpoint was held back behind the CON under test and then withdrawn
        self.params = {"source": source, "ACK_TIMEOUT": at, "ACK_RANDOM_FACTOR": arf, "MAX_RETRANSMIT": mr, "uniform": uni, "pre": pre}
        self.name = "S-CON-%s-%s-%s-%s-%s-%s" % (source, at, arf, mr, uni, pre)
        self.K = K
        self.max_steps = 40

    # -- build the closed system up to the first transmission of the CON message
    def start(self):
        p = self.params
        st = St()
        st.violations = []
        st.horizon_hit = False
        pre = p.get("pre", "none")
        w = st.world = World(uniform=p["uniform"], mid0=0x4242 if pre == "collide" else 0x1000)
        st.bystander = None
        tt = tuning(p["ACK_TIMEOUT"], p["ACK_RANDOM_FACTOR"], p["MAX_RETRANSMIT"])
        st.tt = tt
        if pre == "class":
            tt = type(tt)        # the model keeps reading the instance st.tt
        st.expect_payload = b"ok"
        st.old = None
        st.allowed_acks = set()
        st.allowed_rsts = set()
        if p["source"] in ("request", "block2"):
            st.node = w.add_context("cli", *CLIENT)
            st.peer = w.add_peer(Silent("srv", *SERVER))
            if pre == "strayack":
                w.inject(SERVER, CLIENT, rc.encode((rc.ACK, 0, 0x1000, b"", [], b"")))
            elif pre == "strayrst":
                w.inject(SERVER, CLIENT, rc.encode((rc.RST, 0, 0x1000, b"", [], b"")))
            elif pre == "collide":
                w.inject(SERVER, CLIENT, rc.encode((rc.NON, 1, 0x4242, b"\x01", [(11, b"nothing")], b"")))
            elif pre == "older":
                # an older request to the same endpoint, already acknowledged, still waiting for its separate response
                om = Message(code=GET, uri_path=["old"])
                om.remote = st.node.remote(SERVER)
                st.old = st.node.ctx.request(om, handle_blockwise=False)
                w.loop.settle()
                od = [d for d in w.sent if d.src == CLIENT][-1].data
                st.old_token = od[4:4 + (od[0] & 15)]
                w.inject(SERVER, CLIENT, rc.encode((rc.ACK, 0, (od[2] << 8) | od[3], b"", [], b"")))
                w.rnd_mm.uniform_calls.clear()
            elif pre == "queued":
                early = []
                for nm in ("qa", "qb"):
                    em = Message(code=GET, uri_path=[nm])
                    em.remote = st.node.remote(SERVER)
                    early.append(st.node.ctx.request(em, handle_blockwise=False))
                w.loop.settle()
                st.early = early
                qa = [d for d in w.sent if d.src == CLIENT][-1].data
            w.sent.clear()
            if pre == "default-after-edit":
                # some other message's default tuning was edited in place before; the CON under test is created without any tuning of
                # its own and follows the protocol defaults
                other = Message(code=GET, uri_path=["other"])
                other.transport_tuning.ACK_TIMEOUT = 0.05
                other.transport_tuning.ACK_RANDOM_FACTOR = 1.0
                other.transport_tuning.MAX_RETRANSMIT = 1
                tt = None
            if pre == "mtype-arg":
                # the sender states the type the old way (deprecated keyword) next to its tuning: the tuning still is the one it gave
                import warnings
                from aiocoap import CON as _CON
                with warnings.catch_warnings():
                    warnings.simplefilter("ignore")
                    m = Message(code=GET, uri_path=["x"], transport_tuning=tt, mtype=_CON)
            else:
                m = Message(code=GET, uri_path=["x"], transport_tuning=tt)
            m.remote = st.node.remote(SERVER)
            if p["source"] == "block2":
                # the CON under test is the follow-up request for block 1 that the library generates itself
                st.req = st.node.ctx.request(m)
                w.loop.settle()
                fd = [d for d in w.sent if d.src == CLIENT][-1].data
                w.sent.clear()
                w.rnd_mm.uniform_calls.clear()
                w.pool.clear()
                w.inject(SERVER, CLIENT, rc.encode((rc.ACK, 69, (fd[2] << 8) | fd[3], fd[4:4 + (fd[0] & 15)], [(23, rc.block(0, True, 0))], b"0123456789abcdef")))
                st.expect_payload = b"0123456789abcdefok"
            else:
                st.req = st.node.ctx.request(m, handle_blockwise=False)
            w.loop.settle()
            if pre == "queued":
                # the two requests ahead are answered in turn; each answer lets the next message out
                if w.sent:
                    st.violations.append(Violation("queued-message-sent-early", "held back", [repr(d) for d in w.sent], "messagemanager.py:send_message", {}, key="early"))
                w.inject(SERVER, CLIENT, rc.encode((rc.ACK, 69, (qa[2] << 8) | qa[3], qa[4:4 + (qa[0] & 15)], [], b"a")))
                qb = [d for d in w.sent if d.src == CLIENT][-1].data
                w.sent.clear()
                w.inject(SERVER, CLIENT, rc.encode((rc.ACK, 69, (qb[2] << 8) | qb[3], qb[4:4 + (qb[0] & 15)], [], b"b")))
                del w.rnd_mm.uniform_calls[:-1]
                if not all(f.response.done() and f.response.exception() is None for f in st.early):
                    st.violations.append(Violation("earlier-request-unanswered", "both answered", [repr(f.response) for f in st.early], "tokenmanager.py", {}, key="early-unanswered"))
            if pre == "follower-withdrawn":
                fm = Message(code=GET, uri_path=["follower"])
                fm.remote = st.node.remote(SERVER)
                fr = st.node.ctx.request(fm, handle_blockwise=False)
                w.loop.settle()
                fr.response.cancel()
                w.loop.settle()
            # a bystander: an unrelated request to another endpoint, registered later, that must not be touched
            b = Message(code=GET, uri_path=["by"], _mtype=1)
            b.remote = st.node.remote(OTHERIP)
            st.bystander = st.node.ctx.request(b, handle_blockwise=False)
            st.done_count = [0]
            st.req.response.add_done_callback(lambda f: st.done_count.__setitem__(0, st.done_count[0] + 1))
            w.loop.settle()
            st.peer_addr = SERVER
        else:
            site = resource.Site()
            st.handler_cancelled = [0]

            class Slow(resource.Resource):
                async def render_get(self, request):
                    await asyncio.sleep(0.5)
                    return Message(payload=b"late", transport_tuning=tt)

            class Obs(resource.ObservableResource):
                async def render_get(self, request):
                    return Message(payload=b"v", transport_tuning=tt)
            site.add_resource(["slow"], Slow())
            st.obs = Obs()
            site.add_resource(["obs"], st.obs)
            st.node = w.add_context("srv", *SERVER, site=site)
            st.peer = w.add_peer(Silent("cli", *CLIENT))
            st.peer_addr = CLIENT
            st.req = None
            if p["source"] == "separate":
                w.inject(CLIENT, SERVER, rc.encode((rc.CON, 1, 0x4242, b"\x77", [(11, b"slow")], b"")))
                w.loop.advance_to(0.5)
            else:
                w.inject(CLIENT, SERVER, rc.encode((rc.CON, 1, 0x4242, b"\x77", [(6, b""), (11, b"obs")], b"")))
                w.loop.advance_to(0.05)
                st.obs.updated_state()
                w.loop.settle()
        cons = [d for d in w.sent if d.src == st.node.addr and d.data[0] & 0x30 == 0x00 and d.dst == st.peer_addr]
        if pre == "queued" and not cons:
            # what was ahead of it has been answered and the confirmable message under test still is not on the wire: there is
            # nothing to retransmit or to give up - the request can only hang (the execution ends here)
            st.never_sent = True
            st.violations.append(Violation("confirmable-message-never-sent", "transmitted once the requests ahead of it are answered", "not transmitted",
                                           "messagemanager.py:_continue_backlog", {}, key="never-sent"))
            return st
        if len(cons) != 1:
            raise core.HarnessFault if False else RuntimeError("setup of %s did not produce exactly one CON: %r" % (self.name, w.trace))
        first = cons[0]
        st.t0 = first.t
        st.con_bytes = first.data
        st.mid = (first.data[2] << 8) | first.data[3]
        tkl = first.data[0] & 15
        st.token = first.data[4:4 + tkl]
        w.pool.clear()
        calls = w.rnd_mm.uniform_calls
        if len(calls) != 1:
            st.violations.append(Violation("initial-timeout-source", "one draw from [ACK_TIMEOUT, ACK_TIMEOUT*ACK_RANDOM_FACTOR]",
                                           calls, "messagemanager.py:_add_exchange", {}))
            g0 = st.tt.ACK_TIMEOUT
        else:
            a, b, g0 = calls[0]
            if abs(a - st.tt.ACK_TIMEOUT) > 1e-12 or abs(b - st.tt.ACK_TIMEOUT * st.tt.ACK_RANDOM_FACTOR) > 1e-12:
                st.violations.append(Violation("initial-timeout-range", [st.tt.ACK_TIMEOUT, st.tt.ACK_TIMEOUT * st.tt.ACK_RANDOM_FACTOR],
                                               [a, b], "messagemanager.py:_add_exchange", {}))
        # reference model (RFC 7252 4.2)
        st.m_active = True
        st.m_k = 0
        st.m_gap = g0
        st.m_due = st.t0 + g0
        st.m_times = [st.t0]
        st.m_end = None          # ("ack"|"rst"|"resp"|"timeout", time)
        st.injected = 0
        st.horizon = st.t0 + st.tt.MAX_TRANSMIT_WAIT + 5.0
        return st

    def enabled(self, st):
        w = st.world
        if getattr(st, "never_sent", False):
            return []
        tn = w.loop.next_timer()
        if tn is None or tn > st.horizon:
            return []
        en = [("timer", 0)]
        if st.injected < self.K:
            for pos in POS:
                if pos == "mid" and tn - w.loop.time() < 1e-6:
                    continue
                if pos == "tie" and tn - w.loop.time() < 1e-9:
                    continue
                for inj in INJ:
                    if inj in ("resp", "ackresp-badtoken") and self.params["source"] not in ("request", "block2"):
                        continue
                    if inj.startswith("oldresp") and st.old is None:
                        continue
                    en.append(("inj:%s:%s" % (pos, inj), 1))
        return en

    def _datagram(self, st, inj):
        mid = st.mid
        src = st.peer_addr
        kind = inj.split("@")[0]
        if "@port" in inj:
            src = (src[0], src[1] + 1)
        if "@ip" in inj:
            src = ("2001:db8::99", src[1])
        if kind == "ack+1":
            return src, (rc.ACK, 0, (mid + 1) & 0xFFFF, b"", [], b"")
        if kind == "ack-1":
            return src, (rc.ACK, 0, (mid - 1) & 0xFFFF, b"", [], b"")
        if kind == "rst+1":
            return src, (rc.RST, 0, (mid + 1) & 0xFFFF, b"", [], b"")
        if kind == "ack":
            return src, (rc.ACK, 0, mid, b"", [], b"")
        if kind == "rst":
            return src, (rc.RST, 0, mid, b"", [], b"")
        if kind == "resp":
            return src, (rc.ACK, 69, mid, st.token, [(23, rc.block(1, False, 0))] if self.params["source"] == "block2" else [], b"ok")
        if kind in ("oldresp-non-samemid", "oldresp-con-samemid"):
            # ... and that response happens to carry, in the peer's own ID space, the very message ID of the CON under test: it is
            # neither an ACK nor a Reset for it
            if mid in st.allowed_acks or getattr(st, "old_answered", False):
                st.allowed_rsts.add(mid)       # (the older request has been answered already, under whichever message ID: its token is retired)
            st.old_answered = True
            st.allowed_acks.add(mid)
            return src, (rc.NON if "non" in kind else rc.CON, 69, mid, st.old_token, [], b"old")
        if kind in ("oldresp-non", "oldresp-con"):
            # the separate response to the *older* request: it answers (and confirms) that one only
            if 0x7001 in st.allowed_acks or getattr(st, "old_answered", False):
                # a second copy arrives after the older request has been answered: its token is retired, so a
                # confirmable copy is rejected like any unknown response (C02) - a Reset with its message ID
                st.allowed_rsts.add(0x7001)
            st.old_answered = True
            st.allowed_acks.add(0x7001)
            return src, (rc.NON if kind.endswith("non") else rc.CON, 69, 0x7001, st.old_token, [], b"old")
        if kind == "ackresp-badtoken":
            # an ACK with the right ID from the right endpoint acknowledges the message whatever it carries
            return src, (rc.ACK, 69, mid, b"\xde\xad", [], b"stray")
        raise ValueError(inj)

    def apply(self, st, i, label):
        w = st.world
        tn = w.loop.next_timer()
        if label == "timer":
            w.log("fire timer @%.6f" % tn)
            w.loop.fire_next_timer()
        else:
            _, pos, inj = label.split(":")
            now = w.loop.time()
            if pos == "mid":
                w.loop._vtime = (now + tn) / 2
            elif pos == "tie":
                w.loop._vtime = tn   # the datagram is processed first, then the timer due at this very instant
            src, msg = self._datagram(st, inj)
            st.injected += 1
            w.inject(src, st.node.addr, rc.encode(msg))
            if inj in ("ack", "rst", "resp", "ackresp-badtoken") and st.m_active:
                st.m_active = False
                st.m_end = ("ack" if inj == "ackresp-badtoken" else inj, w.loop.time())
        # reference model: every retransmission deadline that has been reached has fired
        now = w.loop.time()
        while st.m_active and st.m_due <= now + 1e-12:
            if st.m_k < st.tt.MAX_RETRANSMIT:
                st.m_k += 1
                st.m_times.append(st.m_due)
                st.m_gap *= 2
                st.m_due = st.m_due + st.m_gap
            else:
                st.m_active = False
                st.m_end = ("timeout", st.m_due)
        self.check_step(st, label)

    def copies(self, st):
        return [d for d in st.world.sent if d.src == st.node.addr and d.data[0] & 0x30 == 0x00 and d.dst == st.peer_addr]

    def check_step(self, st, label):
        w = st.world
        cp = self.copies(st)
        tt = st.tt
        if len(cp) > 1 + tt.MAX_RETRANSMIT:
            st.violations.append(Violation("too-many-copies", 1 + tt.MAX_RETRANSMIT, len(cp), "messagemanager.py:_retransmit", {}, key="count"))
        if len(cp) != len(st.m_times):
            st.violations.append(Violation("copies-vs-model", len(st.m_times), len(cp), "messagemanager.py", {},
                                           key="after " + (st.m_end[0] if st.m_end else "nothing") + (" more" if len(cp) > len(st.m_times) else " fewer")))
        if any(d.data != st.con_bytes for d in cp):
            st.violations.append(Violation("copies-not-identical", st.con_bytes.hex(), [d.data.hex() for d in cp], "messagemanager.py", {}, key="bytes"))
        if st.req is not None:
            f = st.req.response
            end = st.m_end[0] if st.m_end else None
            if end in (None, "ack"):
                if f.done():
                    st.violations.append(Violation("request-ended-early", "pending", repr(f), "tokenmanager.py", {}, key=str(end)))
            elif end == "resp":
                if not (f.done() and f.exception() is None and f.result().payload == st.expect_payload):
                    st.violations.append(Violation("response-not-delivered", "result", repr(f), "tokenmanager.py", {}, key="resp"))
            elif end == "rst":
                if not (f.done() and isinstance(f.exception(), error.MessageError)):
                    st.violations.append(Violation("rst-does-not-fail-request", "error.MessageError", repr(f), "messagemanager.py:_remove_exchange", {}, key="rst"))
            elif end == "timeout":
                ok = f.done() and isinstance(f.exception(), error.TimeoutError) and isinstance(f.exception(), error.NetworkError)
                if not ok:
                    st.violations.append(Violation("timeout-does-not-fail-request", "TimeoutError+NetworkError at %.3f" % st.m_end[1],
                                                   repr(f), "messagemanager.py:_retransmit", {}, key="timeout"))
            if st.bystander is not None and st.bystander.response.done():
                st.violations.append(Violation("bystander-request-touched", "pending", repr(st.bystander.response), "tokenmanager.py:dispatch_error", {}, key="bystander"))
            if st.done_count[0] > 1:
                st.violations.append(Violation("completed-twice", 1, st.done_count[0], "protocol.py:Request", {}, key="twice"))

    def finish(self, st):
        w = st.world
        if getattr(st, "never_sent", False):
            return
        tt = st.tt
        cp = self.copies(st)
        times = [d.t for d in cp]
        if len(times) == len(st.m_times) and any(abs(a - b) > 1e-9 for a, b in zip(times, st.m_times)):
            st.violations.append(Violation("timeline", st.m_times, times, "messagemanager.py:_schedule_retransmit", {}, key="times"))
        gaps = [b - a for a, b in zip(times, times[1:])]
        for g1, g2 in zip(gaps, gaps[1:]):
            if abs(g2 - 2 * g1) > 1e-9:
                st.violations.append(Violation("gap-not-doubled", 2 * g1, g2, "messagemanager.py:_retransmit", {}, key="gap"))
        if gaps and not (tt.ACK_TIMEOUT - 1e-9 <= gaps[0] <= tt.ACK_TIMEOUT * tt.ACK_RANDOM_FACTOR + 1e-9):
            st.violations.append(Violation("first-gap-range", [tt.ACK_TIMEOUT, tt.ACK_TIMEOUT * tt.ACK_RANDOM_FACTOR], gaps[0],
                                           "messagemanager.py:_add_exchange", {}, key="g0"))
        if st.m_end and st.m_end[0] == "timeout" and st.m_end[1] > st.t0 + tt.MAX_TRANSMIT_WAIT + 1e-9:
            st.violations.append(Violation("gives-up-late", st.t0 + tt.MAX_TRANSMIT_WAIT, st.m_end[1], "messagemanager.py", {}, key="late"))
        if st.m_end is None and not st.horizon_hit:
            st.violations.append(Violation("exchange-abandoned", "retransmissions until ACK, RST or give-up",
                                           "no timer of the exchange is left although neither ACK nor RST arrived and it has not given up",
                                           "messagemanager.py:_schedule_retransmit", {}, key="abandoned"))
        mm = st.node.mman
        if mm._active_exchanges or mm._backlogs:
            st.violations.append(Violation("exchange-state-left", "no active exchange/backlog after the end",
                                           [len(mm._active_exchanges), len(mm._backlogs)], "messagemanager.py", {}, key="left"))
        if any(name.endswith("retr") for _, name in w.loop.pending_timers()):
            st.violations.append(Violation("retransmission-timer-left", "none", w.loop.pending_timers(), "messagemanager.py", {}, key="timer"))
        if st.req is None and st.m_end and st.m_end[0] in ("rst", "timeout"):
            if st.node.tman.incoming_requests:
                st.violations.append(Violation("server-exchange-not-ended", "no incoming request left",
                                               len(st.node.tman.incoming_requests), "tokenmanager.py", {}, key="incoming"))
        for msg, e in w.loop_exceptions():
            st.violations.append(Violation("loop-exception", "none", core.exc_desc(e) if e else msg,
                                           core.site_of(e) if e else "loop", {}, key=type(e).__name__ if e else msg[:40]))
        # replies the endpoint itself sent besides the copies: nothing is expected for empty ACK/RST
        others = [d for d in w.sent if d.src == st.node.addr and d not in cp and d.t > st.t0 and d.dst == st.peer_addr
                  and not (d.data[0] & 0x30 == 0x20 and ((d.data[2] << 8) | d.data[3]) in st.allowed_acks)
                  and not (d.data[0] & 0x30 == 0x30 and ((d.data[2] << 8) | d.data[3]) in st.allowed_rsts)]
        if others:
            st.violations.append(Violation("unexpected-transmission", "none", [repr(d) for d in others], "messagemanager.py", {}, key="tx"))

    def outcome(self, st):
        if getattr(st, "never_sent", False):
            return ("never-sent", 0, 0)
        return (st.m_end[0] if st.m_end else None, len(st.m_times), st.injected)


def scenarios(tier, K):
    out = []
    if tier == "quick":
        grid = [(2, 1.5, 4), (0.5, 1.0, 0), (7, 3.0, 1), (2, 1.5, 6), (0.5, 3.0, 4), (7, 1.0, 4)]
        unis = ("lo", "hi", 0.37)
    else:
        grid = [(a, f, m) for a in (0.5, 2, 7) for f in (1.0, 1.5, 3.0) for m in (0, 1, 4, 6)]
        unis = ("lo", "mid", "hi", 0.37)
    for src in ("request", "separate", "notification"):
        for (a, f, m) in grid:
            for u in unis:
                if src != "request" and tier == "quick" and u != "hi":
                    continue
                out.append(ConScenario(src, a, f, m, u, K))
    # forced collisions of message IDs (default tuning only)
    for (a, f, m) in ((0.5, 1.0, 1), (7, 3.0, 4), (2, 1.5, 4)):
        out.append(ConScenario("block2", a, f, m, "hi", K))
    out.append(ConScenario("request", 2, 1.5, 4, "lo", K, "default-after-edit"))
    out.append(ConScenario("request", 2, 1.5, 4, "hi", K, "default-after-edit"))
    for src, pres in (("request", ("strayack", "strayrst", "collide", "older", "class", "queued", "follower-withdrawn", "mtype-arg")), ("separate", ("collide", "class")),
                      ("notification", ("collide", "class"))):
        for pre in pres:
            for (a, f, m) in ((2, 1.5, 4), (0.5, 1.0, 1)):
                out.append(ConScenario(src, a, f, m, "lo", K, pre))
    return out


def run(tier, seed, jobs):
    K = 1 if tier == "quick" else 2
    scns = scenarios(tier, K)
    if tier == "thorough":
        # pairs of injections only on the default tuning family to stay within minutes; K=1 everywhere else
        k1 = [s for s in scns if not (s.params["ACK_TIMEOUT"] == 2 and s.params["uniform"] in ("lo", "hi"))]
        k2 = [s for s in scns if s not in k1]
        for s in k1:
            s.K = 1
        res = explore_schedules(k1, 1, jobs)
        res.merge(explore_schedules(k2, 2, jobs))
        return res
    return explore_schedules(scns, K, jobs)


def replay(case, scenario, seed):
    p = case["params"]
    K = sum(1 for i, lab in case["choices"] if lab != "timer")
    scn = ConScenario(p["source"], p["ACK_TIMEOUT"], p["ACK_RANDOM_FACTOR"], p["MAX_RETRANSMIT"], p["uniform"], max(K, 1), p.get("pre", "none"))
    return replay_schedule(scn, case["choices"])
