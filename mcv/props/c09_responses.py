"""C09 - every request gets exactly one final response reflecting the handler outcome.

E1 over handler outcomes x speed x method x CON/NON x dispatch situation on the real UDP server stack (responses are
counted on the wire), plus a differential isolation check: a failing request next to well-behaved neighbours."""

import asyncio
import inspect
import itertools

from .. import core, refcodec as rc
from ..core import Result, Violation
from ..world import World, Peer

from aiocoap import Message, error, resource
from aiocoap.numbers import codes

PROP = "C09"
LEVEL = "model_checking"
RULE = ("E1: complete product handler outcome (return with/without code/payload, every ConstructionRenderableError subclass "
        "with/without text, foreign exceptions incl. unprintable ones, wrong return types, messages that cannot be serialised, failing error renderers) x {fast, slow} x 7 methods x "
        "{CON, NON} on a known path, plus unknown path / unimplemented method / no site; and isolation runs (failing request "
        "before/during/after neighbours, same or other peer) compared with the run without it, the failing request itself still getting its one final response; states = distinct (cell, wire outcome)")
ASSUMPTIONS = [
    "the peer ACKs separate CON responses at once (retransmission behaviour is C03's subject)",
    "expected codes are written from the statement: default success 2.05 (GET/FETCH), 2.02 (DELETE), 2.04 (others)",
]

SRV = ("2001:db8::5", 5683)
P1 = ("2001:db8::1", 40001)
P2 = ("2001:db8::2", 40001)
METHODS = {1: "get", 2: "post", 3: "put", 4: "delete", 5: "fetch", 6: "patch", 7: "ipatch"}
MARK = "S3CR3T"


def default_code(method):
    return 69 if method in (1, 5) else 66 if method == 4 else 68


def renderable_classes():
    out = []
    for name, cls in sorted(vars(error).items()):
        if inspect.isclass(cls) and issubclass(cls, error.ConstructionRenderableError) and cls is not error.ConstructionRenderableError:
            if issubclass(cls, error.NetworkError):
                continue   # NoRequestInterface: a client-side error that happens to be renderable
            out.append(name)
    return out


class BadRenderer(error.RenderableError):
    def to_message(self):
        raise RuntimeError(MARK + "-renderer")


class QuacksRenderable(Exception):
    """An application exception that merely has a to_message method; it is not one of the library's renderable errors."""

    def to_message(self):
        return Message(code=codes.BAD_REQUEST, payload=(MARK + "-quack").encode())


class NoneRenderer(error.RenderableError):
    def to_message(self):
        return None


class Unprintable(Exception):
    """An application exception that cannot even be printed."""

    def __repr__(self):
        raise RuntimeError(MARK + "-repr")

    def __str__(self):
        raise RuntimeError(MARK + "-str")


class UnprintableArg:
    def __repr__(self):
        raise RuntimeError(MARK + "-argrepr")


def outcomes():
    """name -> (callable producing the outcome, expected (code, payload) or 'bare500' or 'default')"""
    o = {}
    o["ret-empty"] = (lambda: Message(), "default")
    o["ret-code"] = (lambda: Message(code=codes.VALID), (67, b""))
    o["ret-code-err"] = (lambda: Message(code=codes.CONFLICT, payload=b"c"), (137, b"c"))
    o["ret-payload"] = (lambda: Message(payload=b"pl"), ("default", b"pl"))
    for name in renderable_classes():
        cls = getattr(error, name)
        o["raise-" + name] = (lambda cls=cls: (_ for _ in ()).throw(cls()), (int(cls.code), cls.message.encode("utf8")))
        try:
            cls("probe")
        except TypeError:
            continue   # (deprecated NoResource takes no text)
        o["raise-" + name + "-text"] = (lambda cls=cls: (_ for _ in ()).throw(cls("why-" + cls.__name__)),
                                        (int(cls.code), ("why-" + cls.__name__).encode()))
    # a diagnostic payload is UTF-8 text (RFC 7252 section 5.5.2), not ASCII
    o["raise-BadRequest-nonascii"] = (lambda: (_ for _ in ()).throw(error.BadRequest("Ung\u00fcltige Gr\u00f6\u00dfe \u2013 \U0001F4A5")),
                                      (128, "Ung\u00fcltige Gr\u00f6\u00dfe \u2013 \U0001F4A5".encode("utf8")))
    for exc in (ValueError, KeyError, AssertionError, asyncio.TimeoutError, OSError, RuntimeError):
        o["raise-" + exc.__name__] = (lambda exc=exc: (_ for _ in ()).throw(exc(MARK + "-" + exc.__name__)), "bare500")
    for nm, val in (("None", None), ("bytes", (MARK + "b").encode()), ("str", MARK + "s"), ("int", 0), ("dict", {})):
        o["ret-" + nm] = (lambda val=val: val, "bare500")
    # a message that passes for a response but cannot be serialised (the failure only shows when it is being sent)
    o["ret-msg-strpayload"] = (lambda: Message(code=codes.CONTENT, payload=MARK + "-text"), "bare500")
    o["ret-msg-intpayload"] = (lambda: Message(code=codes.CONTENT, payload=4711), "bare500")
    # ... for other reasons than the payload's type: option values that only fail when they are encoded (OverflowError, AttributeError)
    o["ret-msg-negmaxage"] = (lambda: Message(code=codes.CONTENT, payload=b"x", max_age=-7), "bare500")
    o["ret-msg-byteslocpath"] = (lambda: Message(code=codes.CREATED, location_path=(b"created", b"1")), "bare500")
    o["raise-unprintable"] = (lambda: (_ for _ in ()).throw(Unprintable()), "bare500")
    o["raise-unprintable-arg"] = (lambda: (_ for _ in ()).throw(ValueError(UnprintableArg())), "bare500")
    o["raise-quacking"] = (lambda: (_ for _ in ()).throw(QuacksRenderable()), "bare500")
    o["raise-wrapped-response"] = (lambda: (_ for _ in ()).throw(
        error.ResponseWrappingError(Message(code=codes.FORBIDDEN, payload=(MARK + "-wrapped").encode()))), "bare500")
    o["renderer-raises"] = (lambda: (_ for _ in ()).throw(BadRenderer()), "bare500")
    o["renderer-none"] = (lambda: (_ for _ in ()).throw(NoneRenderer()), "bare500")
    return o


OUTCOMES = None


def make_resource(outcome_fn, delay, only=None, observable=None):
    if observable is None:
        class R(resource.Resource):
            pass
    else:
        class R(resource.ObservableResource):
            async def add_observation(self, request, serverobservation):
                if observable == "accepted":
                    serverobservation.accept(lambda: None)

    async def handler(self, request):
        if delay:
            await asyncio.sleep(delay)
        return outcome_fn()
    for code, name in METHODS.items():
        if only is None or name in only:
            setattr(R, "render_" + name, handler)
    return R()


class AutoAck(Peer):
    def on_message(self, src, msg, dg):
        if msg[0] == rc.CON and msg[1] >= 64:
            self.world.inject(self.addr, src, rc.encode((rc.ACK, 0, msg[2], b"", [], b"")))


class SelectiveAck(Peer):
    """Acknowledges separate responses except those to request X (token 0f): that acknowledgement is lost for good."""
    def on_message(self, src, msg, dg):
        if msg[0] == rc.CON and msg[1] >= 64 and msg[3] != b"\x0f":
            self.world.inject(self.addr, src, rc.encode((rc.ACK, 0, msg[2], b"", [], b"")))


def serve(w, horizon):
    while True:
        for dg in list(w.pool):
            w.deliver(dg)
        tn = w.loop.next_timer()
        if tn is None or tn > horizon:
            break
        w.loop.fire_next_timer()


def finals(w, peer, token):
    """Distinct final responses (by message ID) carrying the token, as decoded tuples."""
    seen = {}
    for dg in w.sent:
        if dg.src != SRV or dg.dst != peer:
            continue
        m = rc.decode(dg.data, check_formats=False)
        if m[1] >= 64 and m[3] == token:
            seen.setdefault(m[2], m)
    return list(seen.values())


def run_cell(res, oname, slow, method, con, situation):
    global OUTCOMES
    OUTCOMES = OUTCOMES or outcomes()
    fn, exp = OUTCOMES[oname]
    w = World()
    try:
        site = resource.Site()
        site.add_resource(["known"], make_resource(fn, 0.5 if slow else 0.0,
                                                   observable={"obs-declined": "declined", "obs-accepted": "accepted"}.get(situation)))
        site.add_resource(["getonly"], make_resource(lambda: Message(payload=b"g"), 0.0, only=("get",)))
        if situation == "wkc-nomatch":
            site.add_resource([".well-known", "core"], resource.WKCResource(site.get_resources_as_linkheader))
        node = w.add_context("srv", *SRV, site=None if situation == "nosite" else site)
        w.add_peer(AutoAck("p1", *P1))
        paths = {"known": [b"known"], "unknown": [b"nowhere"], "unknown-root": [], "unknown-deep": [b"known", b"deeper"],
                 "unknown-slash": [b"known", b""], "unimplemented": [b"getonly"], "nosite": [b"known"],
                 "obs-declined": [b"known"], "obs-accepted": [b"known"], "wkc-nomatch": [b".well-known", b"core"]}.get(situation, [b"known"])
        tok = b"\xC9\x01"
        obs = [(6, b"")] if situation.startswith("obs-") else []    # a registration attempt at an observable resource
        nr = int(situation[2:]) if situation.startswith("nr") else None
        nropt = [(258, rc.uint(nr))] if nr is not None else []
        if situation == "wkc-nomatch":
            nropt = [(15, b"rt=nothing-of-the-kind")]      # a discovery filter that matches nothing: the (empty) listing is still an answer
        mid = 0 if situation == "mid0" else 0x3001       # (mid0: the known path, under the one message ID that is falsy)
        midb = bytes([mid >> 8, mid & 0xFF])
        w.inject(P1, SRV, rc.encode((rc.CON if con else rc.NON, method, mid, tok, obs + [(11, p) for p in paths] + nropt, b"")))
        serve(w, 3.0)
        case = {"outcome": oname, "slow": slow, "method": method, "con": con, "situation": situation}
        res.evaluations += 1
        res.traces += 1
        fin = finals(w, P1, tok)
        if situation in ("known", "mid0", "obs-declined", "obs-accepted") or nr is not None:
            if exp == "default":
                want = (default_code(method), b"")
            elif exp == "bare500":
                want = (160, b"")
            elif exp[0] == "default":
                want = (default_code(method), exp[1])
            else:
                want = exp
        elif situation == "wkc-nomatch":
            want = (69, b"")
        elif situation == "unimplemented":
            want = (133, None)
        else:
            want = (132, None)
        got = [(m[1], m[5]) for m in fin]
        ok = len(fin) == 1 and fin[0][1] == want[0] and (want[1] is None or fin[0][5] == want[1])
        if nr is not None and nr & (1 << ((want[0] >> 5) - 1)):
            # RFC 7967: the response class is not wanted - nothing carrying the token is sent (a CON still gets its empty ACK)
            ok = not fin
            acks = [d for d in w.sent if d.src == SRV and d.dst == P1 and d.data[0] & 0x30 == 0x20 and d.data[2:4] == midb]
            if con and len(acks) != 1:
                ok = False
        if oname.startswith("ret-msg-") and nr is not None and nr & 2:
            # the handler's (unserialisable) 2.xx is not wanted in the first place: never serialising it and staying silent is as good
            # as noticing the mistake and suppressing or sending the 5.00
            acks = [d for d in w.sent if d.src == SRV and d.dst == P1 and d.data[0] & 0x30 == 0x20 and d.data[2:4] == midb]
            ok = ok or (not fin and (not con or len(acks) == 1))
        if ok and exp == "bare500" and situation in ("known", "mid0", "obs-declined", "obs-accepted") and fin[0][4]:
            ok = False
        if not ok:
            res.violate(Violation("final-response", {"count": 1, "code": rc.code_str(want[0]), "payload": want[1]},
                                  [(rc.code_str(c), p) for c, p in got], "pipe.py:error_to_message", case, trace=w.trace[-20:],
                                  key="%s/%s/%s" % (oname.split("-")[0], situation, "none" if not fin else "many" if len(fin) > 1 else "wrong")))
        # message-type shape: CON -> exactly one ACK with the request's mid; NON -> no ACK, NON response
        acks = [d for d in w.sent if d.src == SRV and (d.data[0] >> 4) & 3 == rc.ACK]
        if con and len({d.data for d in acks}) != 1:
            res.violate(Violation("ack-count", 1, len(acks), "messagemanager.py", case, key="ack"))
        if con and any(d.data[2:4] != midb for d in acks):
            res.violate(Violation("ack-names-other-message", "the acknowledgement carries the request's message ID %#06x" % mid, [d.data[:4].hex() for d in acks],
                                  "messagemanager.py:send_message", case, key="ack-mid"))
        if not con and (acks or any((rc.decode(d.data)[0] != rc.NON) for d in w.sent if d.src == SRV)):
            res.violate(Violation("non-request-reply-type", "NON only", [repr(d) for d in w.sent if d.src == SRV], "messagemanager.py", case, key="non"))
        for d in w.sent:
            if MARK.encode() in d.data:
                res.violate(Violation("exception-text-leaked", "no exception text on the wire", d.data.hex(), "pipe.py:error_to_message", case, key="leak"))
        for msg, e in w.loop_exceptions():
            res.violate(Violation("loop-exception", "none", core.exc_desc(e) if e else msg, core.site_of(e) if e else "loop", case,
                                  key=type(e).__name__ if e else msg[:40]))
        if node.tman.incoming_requests and not (situation == "obs-accepted" and fin and fin[0][1] < 128):
            res.violate(Violation("request-state-left", "no incoming request left after the final response",
                                  len(node.tman.incoming_requests), "tokenmanager.py", case, key="left"))
        res.states.add(core.digest((oname, slow, method, con, situation, got)))
        res.transitions += 1
        res.outcomes.add(core.digest(got))
        res.signatures.add(core.digest((oname, slow, method, con, situation)))
    finally:
        w.dispose()


def nosite_sequence(res, types):
    """A context without a site answers every request that reaches it with its own 4.04: several requests in a row (CON / NON in
    every order, from two peers), each of them answered once, under its own token, with the type and message ID that fit it."""
    w = World()
    try:
        w.add_context("srv", *SRV, site=None)
        w.add_peer(AutoAck("p1", *P1))
        w.add_peer(AutoAck("p2", *P2))
        case = {"nosite_sequence": list(types)}
        res.evaluations += 1
        res.traces += 1
        got, want = [], []
        for i, con in enumerate(types):
            peer = P1 if i % 2 == 0 else P2
            tok = bytes([0xD0 + i])
            mid = 0x3300 + i
            n0 = len(w.sent)
            w.inject(peer, SRV, rc.encode((rc.CON if con else rc.NON, 1, mid, tok, [(11, b"anything")], b"")))
            serve(w, w.loop.time() + 1.0)
            out = [rc.decode(d.data, check_formats=False) for d in w.sent[n0:] if d.src == SRV]
            got.append([(d.dst == peer, m[0], m[1], m[2] if m[0] == rc.ACK else "own", m[3]) for d, m in zip([d for d in w.sent[n0:] if d.src == SRV], out)])
            want.append([(True, rc.ACK, 132, mid, tok)] if con else [(True, rc.NON, 132, "own", tok)])
        if got != want:
            res.violate(Violation("final-response", core.jsonable(want), core.jsonable(got), "protocol.py:Context._render_to_pipe", case, trace=w.trace[-20:],
                                  key="nosite-sequence"))
        for msg, e in w.loop_exceptions():
            res.violate(Violation("loop-exception", "none", core.exc_desc(e) if e else msg, core.site_of(e) if e else "loop", case,
                                  key=type(e).__name__ if e else msg[:40]))
        res.states.add(core.digest(("nosite", types, core.jsonable(got))))
        res.transitions += len(types)
        res.outcomes.add(core.digest(("nosite", got == want)))
        res.signatures.add(core.digest(("nosite", types)))
    finally:
        w.dispose()


def token_reuse(res, con, gap):
    """A second request on the same token (new message ID) while the first is still in the handler: the superseding
    request must still get exactly one final response (what happens to the superseded one is a don't-care)."""
    w = World()
    try:
        site = resource.Site()
        site.add_resource(["slow"], make_resource(lambda: Message(payload=b"slow-ok"), 0.5))
        site.add_resource(["fast"], make_resource(lambda: Message(payload=b"fast-ok"), 0.0))
        w.add_context("srv", *SRV, site=site)
        w.add_peer(AutoAck("p1", *P1))
        t = rc.CON if con else rc.NON
        w.inject(P1, SRV, rc.encode((t, 1, 0x3301, b"\x55", [(11, b"slow")], b"")))
        serve(w, gap)
        w.loop.advance_to(gap)
        w.inject(P1, SRV, rc.encode((t, 1, 0x3302, b"\x55", [(11, b"fast")], b"")))
        serve(w, 3.0)
        fin = finals(w, P1, b"\x55")
        case = {"token_reuse": [con, gap]}
        res.evaluations += 1
        res.traces += 1
        fast = [m for m in fin if m[5] == b"fast-ok" and m[1] == 69]
        if len(fast) != 1 or len(fin) > 2:
            res.violate(Violation("superseding-request-unanswered", "one 2.05 'fast-ok' on the reused token",
                                  [(rc.code_str(m[1]), m[5]) for m in fin], "tokenmanager.py:process_request", case,
                                  trace=w.trace[-20:], key="reuse"))
        for msg, e in w.loop_exceptions():
            res.violate(Violation("loop-exception", "none", core.exc_desc(e) if e else msg, core.site_of(e) if e else "loop", case,
                                  key=type(e).__name__ if e else msg[:40]))
        res.states.add(core.digest(("reuse", con, gap, len(fin))))
        res.transitions += 2
        res.outcomes.add(core.digest(("reuse", len(fin))))
        res.signatures.add(core.digest(("reuse", con, gap)))
    finally:
        w.dispose()


def slow_pair(res, first, second, ack_delay, reaction="ack"):
    """Two CON requests of one peer whose handlers both outlast EMPTY_ACK_DELAY; the peer acknowledges the first separate
    response late, so that the second one has to wait in line: each request still gets exactly one final response."""
    global OUTCOMES
    OUTCOMES = OUTCOMES or outcomes()
    w = World()
    try:
        site = resource.Site()
        site.add_resource(["a"], make_resource(OUTCOMES[first][0], 0.3))
        site.add_resource(["b"], make_resource(OUTCOMES[second][0], 0.3))
        w.add_context("srv", *SRV, site=site)
        peer = w.add_peer(Peer("p1", *P1))       # no automatic ACKs
        w.inject(P1, SRV, rc.encode((rc.CON, 1, 0x3401, b"\x61", [(11, b"a")], b"")))
        w.inject(P1, SRV, rc.encode((rc.CON, 1, 0x3402, b"\x62", [(11, b"b")], b"")))
        acked = set()
        t_end = 8.0
        while True:
            for dg in list(w.pool):
                w.pool.remove(dg)
                m = rc.decode(dg.data, check_formats=False)
                if m[0] == rc.CON and m[1] >= 64 and m[2] not in acked and w.loop.time() >= dg.t:
                    w.loop.advance(ack_delay)
                    # the peer rejects the first separate response it sees with a Reset (it has lost interest in that request)
                    rt = rc.RST if (reaction == "rst" and not acked) else rc.ACK
                    acked.add(m[2])
                    w.inject(P1, SRV, rc.encode((rt, 0, m[2], b"", [], b"")))
            tn = w.loop.next_timer()
            if tn is None or tn > t_end:
                break
            w.loop.fire_next_timer()
        case = {"slow_pair": [first, second, ack_delay, reaction]}
        res.evaluations += 1
        res.traces += 1
        for tok, o in ((b"\x61", first), (b"\x62", second)):
            fin = finals(w, P1, tok)
            exp = OUTCOMES[o][1]
            want = 160 if exp == "bare500" else 69 if exp in ("default",) or exp[0] == "default" else exp[0]
            if len(fin) != 1 or fin[0][1] != want:
                res.violate(Violation("final-response-under-backlog", {"count": 1, "code": rc.code_str(want)},
                                      [(rc.code_str(m[1]), m[5]) for m in fin], "tokenmanager.py:process_request", case, trace=w.trace[-20:],
                                      key="pair:" + ("none" if not fin else "many" if len(fin) > 1 else "wrong")))
        for msg, e in w.loop_exceptions():
            res.violate(Violation("loop-exception", "none", core.exc_desc(e) if e else msg, core.site_of(e) if e else "loop", case,
                                  key=type(e).__name__ if e else msg[:40]))
        res.states.add(core.digest(("pair", first, second, ack_delay)))
        res.transitions += 2
        res.outcomes.add(core.digest(("pair", first, second)))
        res.signatures.add(core.digest(("pair", first, second, ack_delay)))
    finally:
        w.dispose()


def error_elsewhere(res, order, t_err):
    """Slow requests of two peers are under way; a transport error for peer A (its port is gone) arrives.  Every request of
    the other peer still gets its one final response (what becomes of A's own requests is not asked here)."""
    import errno
    w = World()
    try:
        site = resource.Site()
        site.add_resource(["slow"], make_resource(lambda: Message(payload=b"slow-ok"), 0.5))
        srv = w.add_context("srv", *SRV, site=site)
        w.add_peer(AutoAck("p1", *P1))
        w.add_peer(AutoAck("p2", *P2))
        toks = []
        for i, who in enumerate(order):
            peer = P1 if who == "A" else P2
            tok = bytes([0x40 + i])
            toks.append((who, peer, tok))
            w.inject(peer, SRV, rc.encode((rc.CON, 1, 0x3500 + i, tok, [(11, b"slow")], b"")))
        serve(w, t_err)
        w.loop.advance_to(t_err)
        srv.receive_error(P1, errno.ECONNREFUSED)
        serve(w, 4.0)
        case = {"error_elsewhere": [list(order), t_err]}
        res.evaluations += 1
        res.traces += 1
        got = {}
        for who, peer, tok in toks:
            if who == "B":
                fin = finals(w, peer, tok)
                got[tok.hex()] = [(rc.code_str(m[1]), m[5]) for m in fin]
                if len(fin) != 1 or fin[0][1] != 69:
                    res.violate(Violation("failure-affects-neighbour", "exactly one 2.05 for the other peer's request " + tok.hex(), got[tok.hex()],
                                          "tokenmanager.py:dispatch_error", case, trace=w.trace[-20:], key="elsewhere"))
        for msg, e in w.loop_exceptions():
            res.violate(Violation("loop-exception", "none", core.exc_desc(e) if e else msg, core.site_of(e) if e else "loop", case,
                                  key=type(e).__name__ if e else msg[:40]))
        res.states.add(core.digest(("elsewhere", order, t_err, sorted(got.items()))))
        res.transitions += len(order) + 1
        res.outcomes.add(core.digest(("elsewhere", sorted(got.items()))))
        res.signatures.add(core.digest(("elsewhere", order, t_err)))
    finally:
        w.dispose()


def inherited_handlers(res, history):
    """Resource classes derived from one another (each level adds methods): whatever was rendered before, a request is answered by
    the handler its own resource has for the method, and with 4.05 exactly if it has none."""
    from ..seam2 import SiteWorld
    from aiocoap import GET, PUT, DELETE, POST

    class Reading(resource.Resource):
        async def render_get(self, request):
            return Message(payload=b"get:" + self.tag)

    class ReadWrite(Reading):
        async def render_put(self, request):
            return Message(payload=b"put:" + self.tag)

        async def render_delete(self, request):
            return Message(payload=b"delete:" + self.tag)

    class Posting(resource.Resource):
        async def render_post(self, request):
            return Message(payload=b"post:" + self.tag)

    class Everything(ReadWrite, Posting):
        pass
    classes = {"base": Reading, "derived": ReadWrite, "other": Posting, "mixed": Everything}
    has = {"base": {"get"}, "derived": {"get", "put", "delete"}, "other": {"post"}, "mixed": {"get", "put", "delete", "post"}}
    codes_ = {"get": GET, "put": PUT, "delete": DELETE, "post": POST}

    def factory(sw):
        site = resource.Site()
        for name, cls in classes.items():
            r = cls()
            r.tag = name.encode()
            site.add_resource([name], r)
        return site
    sw = SiteWorld(factory)
    try:
        for step, (name, method) in enumerate(history):
            r = sw.do(Message(code=codes_[method], uri_path=[name]), 1)
            want = (default_code(int(codes_[method])), (method + ":" + name).encode()) if method in has[name] else (133, None)
            got = (int(r.code), bytes(r.payload) if int(r.code) < 128 else None) if hasattr(r, "code") else repr(r)
            res.evaluations += 1
            if got != want:
                res.violate(Violation("handler-outcome-not-reflected", want, got, "resource.py:Resource.render",
                                      {"inherited_handlers": [list(h) for h in history], "step": step}, key="inherited"))
                break
        for msg, e in sw.loop_exceptions():
            res.violate(Violation("loop-exception", "none", core.exc_desc(e) if e else msg, core.site_of(e) if e else "loop",
                                  {"inherited_handlers": [list(h) for h in history]}, key="inh-loop"))
        res.signatures.add(core.digest(("inh", history)))
        res.outcomes.add(core.digest(("inh", len(history))))
    finally:
        sw.dispose()


def giveup_then_later(res, n_first, later_slow):
    """The peer never acknowledges the separate responses to n_first slow requests; the server gives up on them (time-out of the
    first one).  A request of the same peer long after that is answered like any other."""
    global OUTCOMES
    OUTCOMES = OUTCOMES or outcomes()
    w = World()
    try:
        site = resource.Site()
        site.add_resource(["a"], make_resource(OUTCOMES["ret-payload"][0], 0.3))
        site.add_resource(["f"], make_resource(OUTCOMES["ret-payload"][0], 0.0))
        w.add_context("srv", *SRV, site=site)
        w.add_peer(Peer("p1", *P1))       # acknowledges nothing
        for i in range(n_first):
            w.inject(P1, SRV, rc.encode((rc.CON, 1, 0x3501 + i, bytes([0x71 + i]), [(11, b"a")], b"")))
        w.pool.clear()
        w.loop.advance_to(120.0)          # well past MAX_TRANSMIT_WAIT: the first separate response has been given up
        w.pool.clear()
        n0 = len(w.sent)
        w.add_peer  # (same peer, now attentive: it acknowledges what it gets)
        tok = b"\x7e"
        w.inject(P1, SRV, rc.encode((rc.CON, 1, 0x3601, tok, [(11, b"a" if later_slow else b"f")], b"")))
        t_end = 130.0
        acked = set()
        while True:
            for dg in list(w.pool):
                w.pool.remove(dg)
                m = rc.decode(dg.data, check_formats=False)
                if m[0] == rc.CON and m[1] >= 64 and m[2] not in acked:
                    acked.add(m[2])
                    w.inject(P1, SRV, rc.encode((rc.ACK, 0, m[2], b"", [], b"")))
            tn = w.loop.next_timer()
            if tn is None or tn > t_end:
                break
            w.loop.fire_next_timer()
        case = {"giveup_then_later": [n_first, later_slow]}
        res.evaluations += 1
        res.traces += 1
        fin = finals(w, P1, tok)
        acks = [rc.decode(d.data, check_formats=False) for d in w.sent[n0:] if d.src == SRV and d.data[0] & 0x30 == 0x20 and ((d.data[2] << 8) | d.data[3]) == 0x3601]
        if len(fin) != 1 or fin[0][1] != 69 or len(acks) != 1:
            res.violate(Violation("failure-affects-later-request", {"final responses": 1, "code": "2.05", "acknowledgements": 1},
                                  {"finals": [(rc.code_str(m[1]), m[5]) for m in fin], "acks": len(acks)}, "messagemanager.py:_retransmit", case,
                                  trace=w.trace[-20:], key="later:" + ("none" if not fin else "other")))
        for msg, e in w.loop_exceptions():
            res.violate(Violation("loop-exception", "none", core.exc_desc(e) if e else msg, core.site_of(e) if e else "loop", case,
                                  key=type(e).__name__ if e else msg[:40]))
        res.states.add(core.digest(("giveup", n_first, later_slow, len(fin))))
        res.transitions += n_first + 1
        res.outcomes.add(core.digest(("giveup", len(fin))))
        res.signatures.add(core.digest(("giveup", n_first, later_slow)))
    finally:
        w.dispose()


def isolation_run(x_outcome, x_when, x_peer, x_slow, x_acked=True):
    """Neighbours: slow GET at t=0, fast GET at t=0.25, later GET at t=2.0; X (POST /x) at x_when or absent.
    x_acked=False: the acknowledgement of X's separate response never arrives (the run then lasts until that exchange has
    been given up)."""
    global OUTCOMES
    OUTCOMES = OUTCOMES or outcomes()
    w = World()
    try:
        site = resource.Site()
        site.add_resource(["nslow"], make_resource(lambda: Message(payload=b"slow-ok"), 0.5))
        site.add_resource(["nfast"], make_resource(lambda: Message(payload=b"fast-ok"), 0.0))
        if x_outcome is not None:
            site.add_resource(["x"], make_resource(OUTCOMES[x_outcome][0], 0.3 if x_slow else 0.0))
        w.add_context("srv", *SRV, site=site)
        w.add_peer((AutoAck if x_acked else SelectiveAck)("p1", *P1))
        w.add_peer((AutoAck if x_acked else SelectiveAck)("p2", *P2))
        evs = [(0.0, P1, (rc.CON, 1, 0x3101, b"\x01", [(11, b"nslow")], b"")),
               (0.25, P1, (rc.NON, 1, 0x3102, b"\x02", [(11, b"nfast")], b"")),
               (2.0, P1, (rc.CON, 1, 0x3103, b"\x03", [(11, b"nfast")], b""))]
        if x_outcome is not None:
            evs.append((x_when, x_peer, (rc.CON, 2, 0x3201, b"\x0f", [(11, b"x")], b"")))
        evs.sort(key=lambda e: e[0])
        w.loop._vtime = -0.1
        for t, peer, m in evs:
            serve(w, t)
            w.loop.advance_to(t)
            w.inject(peer, SRV, rc.encode(m))
        serve(w, 5.0 if x_acked else 120.0)
        view = {}
        for tok in (b"\x01", b"\x02", b"\x03"):
            view[tok.hex()] = [(m[0], m[1], m[3], m[4], m[5]) for m in finals(w, P1, tok)]
        excs = [core.exc_desc(e) if e else msg for msg, e in w.loop_exceptions()]
        # X itself, too, gets its one final response while the neighbours are around (counted apart: the baseline has no X)
        isolation_run.x_finals = [(m[1], m[5]) for m in finals(w, x_peer, b"\x0f")] if x_outcome is not None else None
        return view, excs
    finally:
        w.dispose()


def iso_normalise(base, view, peer, acked):
    if not acked and tuple(peer) == P1 and view.get("01") in ([], base["01"]):
        # don't-care (C14): the neighbour's own separate CON response had to wait behind X's unacknowledged one to the
        # same peer and is dropped with it when that exchange is given up - or it made it out before / afterwards
        return dict(view, **{"01": base["01"]})
    return view


def job(arg):
    kind, items = arg
    res = Result()
    if kind == "cells":
        for c in items:
            run_cell(res, *c)
        res.sample({"cell(outcome,slow,method,con,situation)": list(items[0])})
    elif kind == "reuse":
        for n in (1, 2, 3):
            for types in itertools.product((True, False), repeat=n):
                nosite_sequence(res, types)
        for con in (True, False):
            for gap in (0.05, 0.2, 0.45):
                token_reuse(res, con, gap)
        for n_first in (1, 2, 3):
            for later_slow in (True, False):
                giveup_then_later(res, n_first, later_slow)
        for n in (2, 3):
            for order in itertools.product("AB", repeat=n):
                if "A" in order and "B" in order:
                    for t_err in (0.05, 0.2):
                        error_elsewhere(res, order, t_err)
        steps = [(n, m) for n in ("base", "derived", "other", "mixed") for m in ("get", "put", "delete", "post")]
        for a in steps:
            for b in steps:
                inherited_handlers(res, (a, b))
        for a in steps[::3]:
            for b in steps[1::3]:
                for c in steps[2::2]:
                    inherited_handlers(res, (a, b, c))
        for first in ("ret-payload", "raise-RuntimeError", "raise-Forbidden-text"):
            for second in ("ret-payload", "raise-RuntimeError", "raise-Forbidden-text"):
                for ack_delay in (0.0, 0.2, 2.5):
                    slow_pair(res, first, second, ack_delay)
                    slow_pair(res, first, second, ack_delay, reaction="rst")
    elif kind == "reuse-deep":
        for it in items:
            if it[0] == "reuse":
                token_reuse(res, it[1], it[2])
            else:
                slow_pair(res, it[1], it[2], it[3])
                slow_pair(res, it[1], it[2], it[3], reaction="rst")
        res.sample({"deep": list(items[0])})
    else:
        base, _ = isolation_run(None, 0, P1, False)
        for it in items:
            (o, when, peer, slow), acked = it[:4], (it[4] if len(it) > 4 else True)
            view, excs = isolation_run(o, when, peer, slow, acked)
            res.evaluations += 1
            res.traces += 1
            case = {"isolation": [o, when, list(peer), slow, acked]}
            view = iso_normalise(base, view, peer, acked)
            if view != base:
                res.violate(Violation("failure-affects-neighbour", base, view, "pipe.py", case, key="neighbour"))
            if excs:
                res.violate(Violation("loop-exception", "none", excs, "loop", case, key="iso-exc"))
            xf = isolation_run.x_finals
            if acked and len(xf) != 1:
                res.violate(Violation("final-response-among-neighbours", "exactly one final response to X", [(rc.code_str(c), p) for c, p in xf],
                                      "tokenmanager.py:process_request", case, key="iso-x-" + ("none" if not xf else "many")))
            res.states.add(core.digest((o, when, peer, slow, acked, sorted(view.items()))))
            res.transitions += 4
            res.outcomes.add(core.digest(("iso", sorted(view.items()))))
            res.signatures.add(core.digest(("iso", o, when, peer, slow, acked)))
        res.sample({"isolation(outcome,when,peer,slow)": list(items[0])})
    return res


def run(tier, seed, jobs):
    O = outcomes()
    names = list(O)
    cells = []
    methods = list(METHODS) if tier == "thorough" else [1, 2, 4, 5, 7]
    for oname in names:
        for slow in (False, True):
            for method in methods:
                for con in (True, False):
                    cells.append((oname, slow, method, con, "known"))
                    if method == 1 and con:
                        cells.append((oname, slow, method, con, "mid0"))
    for oname in names:
        for slow in (False, True):
            for con in (True, False):
                cells.append((oname, slow, 1, con, "obs-declined"))
                cells.append((oname, slow, 1, con, "obs-accepted"))
    for oname in names:
        for slow in (False, True):
            for con in (True, False):
                for nr in (2, 8, 16, 26):
                    cells.append((oname, slow, 1, con, "nr%d" % nr))
    for method in METHODS:
        for con in (True, False):
            cells.append(("ret-empty", False, method, con, "unknown"))
            for sit in ("unknown-root", "unknown-deep", "unknown-slash"):
                cells.append(("ret-empty", False, method, con, sit))
            cells.append(("ret-empty", False, method, con, "nosite"))
            if method == 1:
                cells.append(("ret-empty", False, method, con, "wkc-nomatch"))
            if method != 1:
                cells.append(("ret-empty", False, method, con, "unimplemented"))
    work = [("cells", cells[i::48]) for i in range(48)]
    failing = [n for n in names if O[n][1] == "bare500"] + ["raise-BadRequest", "raise-NotFound-text"]
    iso = [(o, when, peer, slow) for o in failing for when in (-0.05, 0.2, 0.7) for peer in (P1, P2) for slow in (False, True)]
    # the acknowledgement of X's separate response is lost for good: piggy-backed and NON answers to the neighbours must not wait
    iso += [(o, when, peer, True, False) for o in failing[:4] + ["ret-payload", "raise-NotFound-text"] for when in (-0.05, 0.2, 0.7, 1.8)
            for peer in (P1, P2)]
    work += [("iso", iso[i::16]) for i in range(16)]
    work.append(("reuse", None))
    if tier == "thorough":
        # every ordered pair of handler outcomes behind one another, five acknowledgement delays; token re-use at nine gaps
        deep = [("pair", a, b, d) for a in names for b in names for d in (0.0, 0.05, 0.2, 2.5, 5.0)]
        deep += [("reuse", con, gap) for con in (True, False) for gap in (0.0, 0.05, 0.09, 0.1, 0.11, 0.2, 0.45, 0.5, 0.55)]
        work += [("reuse-deep", deep[i::64]) for i in range(64)]
        iso2 = [(o, when, peer, slow) for o in names for when in (-0.05, 0.0, 0.05, 0.1, 0.2, 0.3, 0.5, 0.7, 1.9, 2.0)
                for peer in (P1, P2) for slow in (False, True)]
        iso2 += [(o, when, peer, True, False) for o in names for when in (-0.05, 0.0, 0.2, 0.5, 0.7, 1.6, 1.8, 2.0) for peer in (P1, P2)]
        work += [("iso", iso2[i::64]) for i in range(64)]
    res = core.prun(job, work, jobs)
    res.scenarios["table"] = {"outcomes": len(names), "cells": len(cells), "isolation_runs": len(iso)}
    return res


def replay(case, scenario, seed):
    res = Result()
    if "nosite_sequence" in case:
        nosite_sequence(res, tuple(case["nosite_sequence"]))
        return [v for v, n in res.violations.values()]
    if "giveup_then_later" in case:
        giveup_then_later(res, *case["giveup_then_later"])
        return [v for v, n in res.violations.values()]
    if "slow_pair" in case:
        slow_pair(res, *case["slow_pair"])
        return [v for v, n in res.violations.values()]
    if "token_reuse" in case:
        token_reuse(res, *case["token_reuse"])
        return [v for v, n in res.violations.values()]
    if "error_elsewhere" in case:
        error_elsewhere(res, tuple(case["error_elsewhere"][0]), case["error_elsewhere"][1])
        return [v for v, n in res.violations.values()]
    if "inherited_handlers" in case:
        inherited_handlers(res, tuple(tuple(h) for h in case["inherited_handlers"]))
        return [v for v, n in res.violations.values()]
    if "isolation" in case:
        o, when, peer, slow = case["isolation"][:4]
        acked = case["isolation"][4] if len(case["isolation"]) > 4 else True
        base, _ = isolation_run(None, 0, P1, False)
        view, excs = isolation_run(o, when, tuple(peer), slow, acked)
        view = iso_normalise(base, view, peer, acked)
        print("     baseline:", base)
        print("     with X:  ", view, excs)
        out = [Violation("failure-affects-neighbour", base, view, "pipe.py", case)] if view != base or excs else []
        if acked and len(isolation_run.x_finals) != 1:
            out.append(Violation("final-response-among-neighbours", "exactly one final response to X", isolation_run.x_finals, "tokenmanager.py:process_request", case))
        return out
    run_cell(res, case["outcome"], case["slow"], case["method"], case["con"], case["situation"])
    return [v for v, n in res.violations.values()]
