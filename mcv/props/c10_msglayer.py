"""C10 - message-layer reactions follow the RFC 7252 type rules.

E1 over the complete reaction table (incoming type x code class x token known/unknown x source x destination address x
handler duration x No-Response) on a real context that is client and server at once, plus all ordered pairs of a sub-table
and the outgoing multicast cells.  The expected replies come from a table written from RFC 7252 4.2/4.3, RFC 7967."""

import asyncio
import itertools

from .. import core, refcodec as rc
from ..core import Result, Violation
from ..world import World, Peer

import aiocoap
from aiocoap import Message, GET, NON, CON, error, resource
from aiocoap.numbers import constants

PROP = "C10"
LEVEL = "model_checking"
RULE = ("E1: every cell of incoming (type x code in {0.00, 0.01, 0.31, 2.05, 4.04, 5.00, 1.00, 6.00, 7.01} x token "
        "{pending, unknown} x source {peer, other port} x local address {unicast, ff02::fd, v4-mapped 224.0.1.187} x handler "
        "duration {0, D-e, D+e, 0.5 s} x No-Response {absent,0,2,8,16,26}) where the statement defines the reaction, all ordered "
        "pairs of a sub-table, cells behind the node's own unacknowledged CON (answered on time, separate response released by its ACK), the peer's message carrying the node's own "
        "just-acknowledged message ID, 1-3 exchanges with the peer's other port while a CON to its first port is open, the node's own request going out on the token of the peer's request still in its handler, the node as a forward proxy handing on the origin's piggy-backed response after 0-1.5 s, and outgoing multicast cells x tuning reliability preference; states = distinct (cell, reply multiset) pairs")
ASSUMPTIONS = [
    "CON with reserved-class/signalling code: 'ignored' or RST both accepted (statement vs RFC 7252 4.2)",
    "ACK carrying a response for a pending token but a foreign message ID: delivery is a don't-care; nothing may be sent",
    "multicast cells: only NON GET requests and responses (what a conforming peer can send to a group)",
]

NODE = ("2001:db8::5", 5683)
PEER = ("2001:db8::9", 5683)
PEER2 = ("2001:db8::9", 5684)
EAD = 0.1     # EMPTY_ACK_DELAY of the default TransportTuning, from the statement / constants documentation
LOCALS = {"uni": "2001:db8::5", "mc6": "ff02::fd", "mc4": "::ffff:224.0.1.187"}
DUR = {"0": 0.0, "D-e": EAD - 0.001, "D+e": EAD + 0.001, "slow": 0.5}
CODES = (0, 1, 31, 69, 132, 160, 32, 192, 225)
NR = (None, 0, 2, 8, 16, 26)


class AutoAck(Peer):
    """Records everything; ACKs CON responses/notifications at once (keeps NSTART out of the table)."""
    autoack = True

    def on_message(self, src, msg, dg):
        if self.autoack and msg[0] == rc.CON and msg[1] >= 64:
            self.world.inject(self.addr, src, rc.encode((rc.ACK, 0, msg[2], b"", [], b"")))


def build():
    w = World()
    calls = []

    def mk(d):
        class R(resource.Resource):
            async def render_get(self, request):
                calls.append(d)
                if d:
                    await asyncio.sleep(d)
                return Message(payload=b"r")
        return R()
    site = resource.Site()
    for name, d in DUR.items():
        site.add_resource(["h" + name], mk(d))
    node = w.add_context("node", *NODE, site=site)
    peer = w.add_peer(AutoAck("peer", *PEER))
    w.add_peer(AutoAck("peer2", *PEER2))
    # a pending client request to the peer, already acknowledged by an empty ACK
    m = Message(code=GET, uri_path=["x"])
    m.remote = node.remote(PEER)
    req = node.ctx.request(m, handle_blockwise=False)
    w.loop.settle()
    first = w.sent[0]
    mid = (first.data[2] << 8) | first.data[3]
    tok = first.data[4:4 + (first.data[0] & 15)]
    w.inject(PEER, NODE, rc.encode((rc.ACK, 0, mid, b"", [], b"")))
    w.pool.clear()
    return w, node, req, tok, mid, calls


MIDBASE = [0x5000]


def incoming(cell, tok, i=0):
    """Bytes of the datagram described by a cell."""
    t, code, known, src, local, dur, nr = cell
    token = tok if known else b"\xee\x0f"
    mid = (MIDBASE[0] + i) & 0xFFFF
    opts = []
    payload = b""
    if 1 <= code < 32:
        token = bytes([0xA0 + i])
        opts.append((11, ("h" + dur).encode()))
        if nr is not None:
            opts.append((258, rc.uint(nr)))
    if code >= 64:
        payload = b"resp%d" % i
    if code == 0:
        token = b""
    return rc.encode((t, code, mid, token, opts, payload)), mid, token


def suppressed(nr, rcode):
    return nr is not None and (nr & (1 << ((rcode >> 5) - 1))) != 0


def expected(cell, mid, token):
    """Reference table -> list of (kind, ...) replies, or None if the cell is a don't-care."""
    t, code, known, src, local, dur, nr = cell
    multicast = local != "uni"
    if code == 0:
        if t == rc.CON:
            # "an empty confirmable message (ping) is answered with a Reset" - the statement makes no exception for a ping
            # that arrived on a multicast address (the exception is for unmatched responses); the Reset goes to the sender
            return [("RST", mid, "empty", None)]
        return []
    if 1 <= code < 32:
        rcode = 69 if code == 1 else 133
        d = DUR[dur] if code == 1 else 0.0
        sup = suppressed(nr, rcode)
        if t == rc.CON:
            if multicast:
                return None
            if d < EAD:
                return [("ACK", mid, "empty" if sup else rcode, None if sup else token, d)]
            out = [("ACK", mid, "empty", None, EAD)]
            if not sup:
                out.append(("CON", "fresh", rcode, token, d))
            return out
        if t == rc.NON:
            return [] if sup else [("NON", "fresh", rcode, token, d)]
        return []
    if 64 <= code < 192:
        matched = known and src == "peer"
        if t == rc.CON:
            if matched:
                return [("ACK", mid, "empty", None, 0.0)]
            return [] if multicast else [("RST", mid, "empty", None, 0.0)]
        return []
    # reserved class / signalling
    if t == rc.CON:
        return None
    return []


def observe(w, t0, peer_addrs):
    out = []
    for dg in w.sent:
        if dg.src != NODE or dg.t < t0 - 1e-9:
            continue
        m = rc.decode(dg.data, check_formats=False)
        if 1 <= m[1] < 32:
            continue    # retransmission of the node's own request
        out.append((dg, m))
    return out


def classify(replies, mids, tokens, t0, with_time=True):
    out = []
    for dg, m in replies:
        mt, code, mid, tok, opts, pl = m
        midrel = mid if mid in mids else "fresh"
        e = (("CON", "NON", "ACK", "RST")[mt], midrel,
             "empty" if code == 0 else code, tok if code != 0 else None)
        if with_time:
            e = e + (round(dg.t - t0, 6),)
        out.append(e)
    return out


def norm_expected(exp, with_time=True):
    out = []
    for e in exp:
        e = tuple(e)
        if len(e) == 4:
            e = e + (0.0,)
        out.append(e if with_time else e[:4])
    return out


def run_cells(cells, res, label):
    """One execution: the cells' datagrams are injected back to back at t0; replies are compared with the table."""
    w, node, req, tok, reqmid, calls = build()
    try:
        t0 = w.loop.time()
        mids, tokens, exps = [], [], []
        dontcare = False
        alive = True     # the pending request's token is retired by the first matching response
        for i, cell in enumerate(cells):
            data, mid, token = incoming(cell, tok, i)
            src = PEER if cell[3] == "peer" else PEER2
            mids.append(mid)
            tokens.append(token)
            eff = cell if alive or not cell[2] else cell[:2] + (False,) + cell[3:]
            e = expected(eff, mid, token)
            if 64 <= cell[1] < 192 and cell[2] and cell[3] == "peer" and cell[0] != rc.RST:
                alive = False
            if e is None:
                dontcare = True
            exps.append(e)
            w.inject(src, NODE, data, local_ip=LOCALS[cell[4]])
        while True:
            while w.pool:               # the peers see (and auto-ACK) what the node sends, until the wire is quiet
                for dg in list(w.pool):
                    w.deliver(dg)
            tn = w.loop.next_timer()
            if tn is None or tn > t0 + 1.5:
                break
            w.loop.fire_next_timer()
        replies = observe(w, t0, (PEER, PEER2))
        single = len(cells) == 1
        got = classify(replies, mids, tokens, t0, with_time=single)
        case = {"cells": [list(c) for c in cells], "midbase": MIDBASE[0]}
        res.evaluations += 1
        res.traces += 1
        # invariants that hold in every cell, don't-care or not
        for dg, m in replies:
            if m[0] == rc.ACK and not any(c[0] == rc.CON and mid == m[2] for c, mid in zip(cells, mids)):
                res.violate(Violation("ack-without-con", "ACK only for a CON's message ID", rc.describe(m), "messagemanager.py", case, key="ack"))
            if dg.dst[0].startswith("ff") or dg.dst[0].startswith("::ffff:224"):
                res.violate(Violation("sent-to-multicast", "replies go to the unicast source", repr(dg), "messagemanager.py", case, key="mc"))
        used = [m[2] for dg, m in replies if m[0] in (rc.CON, rc.NON)]
        if len(set(used)) != len(used) or any(u in mids for u in used):
            res.violate(Violation("message-id-not-fresh", "own CON/NON messages use IDs not used before by this endpoint", used,
                                  "messagemanager.py:_next_message_id", case, key="mid"))
        if not dontcare:
            want = []
            for e in exps:
                want += norm_expected(e, with_time=single)
            if single:
                ok = got == want
            else:
                ok = sorted(map(repr, got)) == sorted(map(repr, want))
                # per CON request: the ACK precedes the separate response
                for c, mid, token in zip(cells, mids, tokens):
                    if c[0] == rc.CON and 1 <= c[1] < 32:
                        seq = [g for g in got if g[1] == mid or (g[3] == token and g[0] == "CON")]
                        if seq and seq[0][0] != "ACK":
                            ok = False
            if not ok:
                res.violate(Violation("reaction-table", want, got, "messagemanager.py:dispatch_message", case,
                                      trace=w.trace[-30:], key="%s/%s" % (label, cells_key(cells))))
            # delivery of responses to the pending request
            for c in cells:
                pass
            first_resp = [c for c in cells if 64 <= c[1] < 192 and c[0] in (rc.CON, rc.NON) and c[2] and c[3] == "peer"]
            anyresp_unmatched = [c for c in cells if 64 <= c[1] < 192 and not (c[2] and c[3] == "peer")]
            if first_resp and not req.response.done():
                res.violate(Violation("matching-response-not-delivered", "delivered", "pending", "tokenmanager.py:process_response", case, key="deliver"))
            if not [c for c in cells if 64 <= c[1] < 192 and c[2] and c[3] == "peer"] and req.response.done():
                res.violate(Violation("unmatched-message-completed-request", "pending", repr(req.response), "tokenmanager.py", case, key="spurious"))
        for msg, e in w.loop_exceptions():
            res.violate(Violation("loop-exception", "none", core.exc_desc(e) if e else msg, core.site_of(e) if e else "loop", case,
                                  key=type(e).__name__ if e else msg[:40]))
        res.states.add(core.digest((cells, got)))
        res.transitions += len(cells)
        res.outcomes.add(core.digest(got))
        res.signatures.add(core.digest(cells))
    finally:
        w.dispose()


def run_behind_unacked(res, cell):
    """The node has an unacknowledged CON of its own towards the peer (a separate response nobody ACKs); the peer's next
    message must still be reacted to by the table: ACKs, RSTs and NON responses are never held back."""
    w, node, req, tok, reqmid, calls = build()
    try:
        for n in w.nodes.values():
            if hasattr(n, "autoack"):
                n.autoack = False
        t0 = w.loop.time()
        first = (rc.CON, 1, False, "peer", "uni", "slow", None)
        data, mid0, token0 = incoming(first, tok, 0)
        w.inject(PEER, NODE, data, local_ip=LOCALS["uni"])
        w.loop.advance_to(t0 + 0.6)        # empty ACK at +0.1, separate CON response at +0.5, nobody acknowledges it
        w.pool.clear()
        t1 = w.loop.time()
        n_before = len(w.sent)
        data, mid, token = incoming(cell, tok, 1)
        src = PEER if cell[3] == "peer" else PEER2
        w.inject(src, NODE, data, local_ip=LOCALS[cell[4]])
        w.loop.advance_to(t1 + 0.8)
        earlier = {d.data for d in w.sent[:n_before]}
        replies = [(dg, rc.decode(dg.data, check_formats=False)) for dg in w.sent[n_before:]
                   if dg.src == NODE and dg.data not in earlier and not (1 <= dg.data[1] < 32)]
        got = classify(replies, [mid], [token], t1, with_time=True)
        want = norm_expected(expected(cell, mid, token))
        case = {"behind_unacked": list(cell)}
        res.evaluations += 1
        res.traces += 1
        if got != want:
            res.violate(Violation("reaction-behind-open-exchange", want, got, "messagemanager.py:send_message", case, trace=w.trace[-20:],
                                  key="behind/" + cells_key([cell])))
        for msg, e in w.loop_exceptions():
            res.violate(Violation("loop-exception", "none", core.exc_desc(e) if e else msg, core.site_of(e) if e else "loop", case, key="loop"))
        res.states.add(core.digest(("behind", cell, got)))
        res.transitions += 2
        res.outcomes.add(core.digest(("behind", got)))
        res.signatures.add(core.digest(("behind", cell)))
    finally:
        w.dispose()


UNSENDABLE = {
    "ok": lambda: Message(payload=b"r"),
    "strpayload": lambda: Message(payload="text"),
    "intpayload": lambda: Message(payload=5),
    "longetag": lambda: Message(payload=b"r", etag=b"0123456789"),
    "negmaxage": lambda: Message(payload=b"r", max_age=-7),
    "byteslocpath": lambda: Message(code=aiocoap.CREATED, location_path=(b"created", b"1")),
    "hugeobserve": lambda: Message(payload=b"r", observe=1 << 70),
}


def run_unsendable(res, what, dur, t):
    """The handler's answer cannot be put on the wire (whatever serialising it raises).  The confirmable request is still
    acknowledged exactly once under its message ID - by whatever carries the error response or by an empty ACK - and is never
    answered with a Reset; a non-confirmable request is never acknowledged."""
    w = World()
    try:
        class R(resource.Resource):
            async def render_get(self, request):
                if DUR[dur]:
                    await asyncio.sleep(DUR[dur])
                return UNSENDABLE[what]()
        site = resource.Site()
        site.add_resource(["u"], R())
        node = w.add_context("node", *NODE, site=site)
        w.add_peer(AutoAck("peer", *PEER))
        w.loop.settle()
        w.pool.clear()
        t0 = w.loop.time()
        mid = 0x4004
        token = b"\xb7"
        w.inject(PEER, NODE, rc.encode((t, 1, mid, token, [(11, b"u")], b"")), local_ip=LOCALS["uni"])
        w.loop.advance_to(t0 + 1.0)
        replies = [rc.decode(dg.data, check_formats=False) for dg in w.sent if dg.src == NODE]
        acks = [m for m in replies if m[0] == rc.ACK and m[2] == mid]
        rsts = [m for m in replies if m[0] == rc.RST and m[2] == mid]
        finals = [m for m in replies if m[1] >= 64 and m[3] == token]
        got = {"acks_for_the_request": len(acks), "resets_for_the_request": len(rsts), "responses": len(finals) > 0}
        want = {"acks_for_the_request": 1 if t == rc.CON else 0, "resets_for_the_request": 0, "responses": True}
        case = {"unsendable": [what, dur, t]}
        res.evaluations += 1
        res.traces += 1
        if got != want:
            res.violate(Violation("request-acknowledged-exactly-once", want, got, "messagemanager.py:send_message", case, trace=w.trace[-20:],
                                  key="unsendable/%s/%d" % ("bad" if what != "ok" else "ok", t)))
        for msg, e in w.loop_exceptions():
            res.violate(Violation("loop-exception", "none", core.exc_desc(e) if e else msg, core.site_of(e) if e else "loop", case, key="loop"))
        res.states.add(core.digest(("unsendable", what, dur, t, str(got))))
        res.transitions += 1
        res.outcomes.add(core.digest(("unsendable", str(got))))
        res.signatures.add(core.digest(("unsendable", what, dur, t)))
    finally:
        w.dispose()


def run_other_port(res, n_requests, first_open):
    """The peer's first port leaves a confirmable message of the node unacknowledged (first_open) or not; meanwhile the peer's
    other port makes n slow confirmable requests one after the other and acknowledges each separate response.  An endpoint is
    address and port: every one of them gets its empty ACK and, once, its separate response - whatever goes on with the first port."""
    w, node, req, tok, reqmid, calls = build()
    try:
        for n in w.nodes.values():
            if hasattr(n, "autoack"):
                n.autoack = n.addr == PEER2
        t = w.loop.time()
        if first_open:
            data, mid0, token0 = incoming((rc.CON, 1, False, "peer", "uni", "slow", None), tok, 0)
            w.inject(PEER, NODE, data, local_ip=LOCALS["uni"])
            w.loop.advance_to(t + 0.6)       # its separate response is on the wire and stays unacknowledged
        got, want = [], []
        for i in range(n_requests):
            t1 = w.loop.time()
            n_before = len(w.sent)
            data, mid, token = incoming((rc.CON, 1, False, "peer2", "uni", "slow", None), tok, 1 + i)
            w.inject(PEER2, NODE, data, local_ip=LOCALS["uni"])
            # (short of the first retransmission of anything still open towards the first port)
            w.loop.advance_to(t1 + 0.7)
            for dg in list(w.pool):
                w.deliver(dg)
            replies = [(dg, rc.decode(dg.data, check_formats=False)) for dg in w.sent[n_before:] if dg.src == NODE and dg.dst == PEER2]
            got.append(classify(replies, [mid], [token], t1, with_time=True))
            want.append(norm_expected(expected((rc.CON, 1, False, "peer2", "uni", "slow", None), mid, token)))
        case = {"other_port": [n_requests, first_open]}
        res.evaluations += 1
        res.traces += 1
        if got != want:
            res.violate(Violation("reaction-to-other-port", want, got, "messagemanager.py:_continue_backlog", case, trace=w.trace[-30:],
                                  key="other-port/" + ("open" if first_open else "idle")))
        for msg, e in w.loop_exceptions():
            res.violate(Violation("loop-exception", "none", core.exc_desc(e) if e else msg, core.site_of(e) if e else "loop", case, key="loop"))
        res.states.add(core.digest(("other-port", n_requests, first_open, got)))
        res.transitions += n_requests
        res.outcomes.add(core.digest(("other-port", got)))
        res.signatures.add(core.digest(("other-port", n_requests, first_open)))
    finally:
        w.dispose()


def run_role_reversal(res, dur, own_type):
    """The peer's confirmable request is still with its handler when the node sends a request of its own to that peer - and the
    token the node hands out happens to be the one the peer used (tokens of the two directions are separate spaces): the node's
    request is a request (own message ID, CON or NON as asked), and the peer's request is acknowledged by the table as always."""
    w, node, req, tok, reqmid, calls = build()
    try:
        t0 = w.loop.time()
        # the token the node is going to hand out next
        nxt = ((node.tman._token + 1) % (2 ** 64)).to_bytes(8, "big").lstrip(b"\0")
        mid = 0x5AA0
        n0 = len(w.sent)
        w.inject(PEER, NODE, rc.encode((rc.CON, 1, mid, nxt, [(11, ("h" + dur).encode())], b"")), local_ip=LOCALS["uni"])
        m = Message(code=GET, uri_path=["own"], _mtype=own_type)
        m.remote = node.remote(PEER)
        own = node.ctx.request(m, handle_blockwise=False)
        w.loop.settle()
        w.loop.advance_to(t0 + 1.0)
        case = {"role_reversal": [dur, int(own_type)]}
        res.evaluations += 1
        res.traces += 1
        out = [rc.decode(d.data, check_formats=False) for d in w.sent[n0:] if d.src == NODE and d.dst == PEER]
        own_sent = [x for x in out if 1 <= x[1] < 32 and rc.opt(x[4], 11) == b"own"]
        ok_own = len({x[2] for x in own_sent}) == 1 and all(x[0] == (rc.CON if own_type == CON else rc.NON) and x[2] != mid for x in own_sent)
        got = classify([(d, rc.decode(d.data, check_formats=False)) for d in w.sent[n0:] if d.src == NODE and d.dst == PEER
                        and not (1 <= d.data[1] < 32)], [mid], [nxt], t0, with_time=True)
        want = norm_expected(expected((rc.CON, 1, False, "peer", "uni", dur, None), mid, nxt))
        if own_type == CON:
            # the node's own confirmable request is never acknowledged in this run: a separate confirmable response rightly waits
            # behind it (NSTART, C14) - only the acknowledgement of the peer's request is judged
            want = [e for e in want if e[0] != "CON"]
            got = [e for e in got if e[0] != "CON"]
        if not ok_own or got != want:
            res.violate(Violation("reaction-with-own-request-on-same-token", {"own request": "one %s request under an own message ID" % ("CON" if own_type == CON else "NON"), "replies": want},
                                  {"own request": [rc.describe(x) for x in own_sent], "replies": got}, "messagemanager.py:send_message", case, trace=w.trace[-20:],
                                  key="role-reversal/" + ("own" if not ok_own else "replies")))
        for msg, e in w.loop_exceptions():
            res.violate(Violation("loop-exception", "none", core.exc_desc(e) if e else msg, core.site_of(e) if e else "loop", case, key="loop"))
        res.states.add(core.digest(("rr", dur, int(own_type), got)))
        res.transitions += 2
        res.outcomes.add(core.digest(("rr", got)))
        res.signatures.add(core.digest(("rr", dur, int(own_type))))
    finally:
        w.dispose()


ORIGIN = ("2001:db8::77", 5683)


def run_proxy(res, delay, con):
    """The node is a forward proxy: the response it sends to the client is one it received from the origin server (as a piggy-backed
    ACK, `delay` seconds after the request).  Towards the client it is a response like any other: piggy-backed if it is there within
    EMPTY_ACK_DELAY, else an empty ACK and a separate response with a fresh message ID - never an ACK under an ID of its own."""
    from aiocoap.proxy.server import Proxy
    w = World()
    try:
        class Origin(Peer):
            def on_message(self, src, msg, dg):
                if 1 <= msg[1] < 32:
                    self.world.loop.call_later(delay, self.send, src, (rc.ACK, 69, msg[2], msg[3], [], b"from-origin"))

        holder = {}

        class To:
            def apply_redirection(self, request):
                request = request.copy()
                request.remote = holder["node"].remote(ORIGIN)
                return request

        class P(Proxy):
            interpret_block_options = False
        node = w.add_context("node", *NODE)
        holder["node"] = node
        prx = P(node.ctx)
        prx.add_redirector(To())
        node.ctx.serversite = prx
        w.add_peer(AutoAck("peer", *PEER))
        w.add_peer(Origin("origin", *ORIGIN))
        t0 = w.loop.time()
        mid, token = 0x5BB0, b"\xC7"
        w.inject(PEER, NODE, rc.encode((rc.CON if con else rc.NON, 1, mid, token, [(11, b"x")], b"")), local_ip=LOCALS["uni"])
        end = t0 + delay + 1.0
        while True:
            for dg in list(w.pool):
                w.deliver(dg)
            tn = w.loop.next_timer()
            if tn is None or tn > end:
                break
            w.loop.fire_next_timer()
        case = {"proxy": [delay, con]}
        res.evaluations += 1
        res.traces += 1
        replies = [(dg, rc.decode(dg.data, check_formats=False)) for dg in w.sent if dg.src == NODE and dg.dst == PEER]
        got = classify(replies, [mid], [token], t0, with_time=True)
        if con:
            want = [("ACK", mid, 69, token, delay)] if delay < EAD else [("ACK", mid, "empty", None, EAD), ("CON", "fresh", 69, token, delay)]
        else:
            want = [("NON", "fresh", 69, token, delay)]
        want = [tuple(e[:4]) + (round(e[4], 6),) for e in want]
        if got != want:
            res.violate(Violation("reaction-table", want, got, "proxy/server.py:Proxy.render", case, trace=w.trace[-20:], key="proxy/" + ("con" if con else "non")))
        for msg, e in w.loop_exceptions():
            res.violate(Violation("loop-exception", "none", core.exc_desc(e) if e else msg, core.site_of(e) if e else "loop", case, key="loop"))
        res.states.add(core.digest(("proxy", delay, con, got)))
        res.transitions += 2
        res.outcomes.add(core.digest(("proxy", got)))
        res.signatures.add(core.digest(("proxy", delay, con)))
    finally:
        w.dispose()


def run_behind_release(res, dur, nr):
    """A second slow CON request arrives while the node's separate response to the first is still unacknowledged: it is acknowledged
    (empty ACK) on time, its own separate response waits for the open exchange - and goes out, once, with a fresh message ID and the
    request's token, as soon as the peer acknowledges the first one."""
    w, node, req, tok, reqmid, calls = build()
    try:
        for n in w.nodes.values():
            if hasattr(n, "autoack"):
                n.autoack = False
        t0 = w.loop.time()
        data, mid0, token0 = incoming((rc.CON, 1, False, "peer", "uni", "slow", None), tok, 0)
        w.inject(PEER, NODE, data, local_ip=LOCALS["uni"])
        w.loop.advance_to(t0 + 0.6)
        sep = [rc.decode(d.data, check_formats=False) for d in w.sent if d.src == NODE and d.data[0] & 0x30 == 0 and d.data[1] >= 64]
        w.pool.clear()
        cell = (rc.CON, 1, False, "peer", "uni", dur, nr)
        data, mid, token = incoming(cell, tok, 1)
        w.inject(PEER, NODE, data, local_ip=LOCALS["uni"])
        w.loop.advance_to(t0 + 0.6 + 0.8)
        case = {"behind_release": [dur, nr]}
        res.evaluations += 1
        res.traces += 1
        mine = [rc.decode(d.data, check_formats=False) for d in w.sent if d.src == NODE and d.dst == PEER]
        early = [m for m in mine if m[0] == rc.CON and m[3] == token]
        acks = [m for m in mine if m[0] == rc.ACK and m[2] == mid]
        n_before = len(w.sent)
        if len(sep) == 1:
            w.inject(PEER, NODE, rc.encode((rc.ACK, 0, sep[0][2], b"", [], b"")), local_ip=LOCALS["uni"])
        w.loop.advance_to(t0 + 0.6 + 0.8 + 0.5)
        late = [rc.decode(d.data, check_formats=False) for d in w.sent[n_before:] if d.src == NODE and d.dst == PEER]
        late_con = [m for m in late if m[0] == rc.CON and m[3] == token and m[1] >= 64]
        sup = suppressed(nr, 69)
        want_late = 0 if sup else 1
        used = {m[2] for m in mine if m[0] in (rc.CON, rc.NON)}
        ok = len(sep) == 1 and len(acks) == 1 and acks[0][1] == 0 and not early and len({m[2] for m in late_con}) == want_late \
            and all(m[2] not in used and m[2] != mid for m in late_con)
        if not ok:
            res.violate(Violation("reaction-behind-open-exchange", {"empty ACK": 1, "separate response before the ACK of the first": 0, "after it": want_late},
                                  {"acks": [rc.describe(m) for m in acks], "early": [rc.describe(m) for m in early], "late": [rc.describe(m) for m in late]},
                                  "messagemanager.py:send_message / tokenmanager.py:process_request", case, trace=w.trace[-20:],
                                  key="release/%s/%s" % (dur, "early" if early else "missing" if len(late_con) < want_late else "other")))
        for msg, e in w.loop_exceptions():
            res.violate(Violation("loop-exception", "none", core.exc_desc(e) if e else msg, core.site_of(e) if e else "loop", case, key="loop"))
        res.states.add(core.digest(("release", dur, nr, len(late_con))))
        res.transitions += 3
        res.outcomes.add(core.digest(("release", len(late_con))))
        res.signatures.add(core.digest(("release", dur, nr)))
    finally:
        w.dispose()


def run_duplicate_in_window(res, dur, gap, nr, err=False):
    """A second copy of a CON request (same endpoint, same message ID) arrives `gap` seconds after the first - before or after the
    acknowledgement - and the handler answers when it answers: the request is acknowledged exactly once under its message ID, by
    the piggy-backed response if that is ready within EMPTY_ACK_DELAY, else by an empty ACK and a separate response with a fresh ID
    (repetitions of an acknowledgement already sent, byte for byte, are C04's subject and are not counted)."""
    w, node, req, tok, reqmid, calls = build()
    try:
        t0 = w.loop.time()
        cell = (rc.CON, 1, False, "peer", "uni", dur, nr)
        data, mid, token = incoming(cell, tok, 1)
        w.inject(PEER, NODE, data, local_ip=LOCALS["uni"])
        w.loop.advance_to(t0 + gap)
        if err:
            # a transport error is reported for the peer after the exchange is through: what has been received from it stays received
            import errno
            node.receive_error(PEER, errno.EHOSTUNREACH)
        w.inject(PEER, NODE, data, local_ip=LOCALS["uni"])
        w.loop.advance_to(t0 + 1.5)
        case = {"duplicate_in_window": [dur, gap, nr, err]}
        res.evaluations += 1
        res.traces += 1
        mine = [rc.decode(d.data, check_formats=False) for d in w.sent if d.src == NODE and d.dst == PEER]
        acks = []
        for m in mine:
            if m[0] == rc.ACK and m[2] == mid and m not in acks:
                acks.append(m)
        seps = {m[2] for m in mine if m[0] == rc.CON and m[1] >= 64 and m[3] == token}
        d = DUR[dur]
        sup = suppressed(nr, 69)
        if d < EAD:
            want_acks, want_sep = [0 if sup else 69], 0
        else:
            want_acks, want_sep = [0], (0 if sup else 1)
        got_acks = [m[1] for m in acks]
        if got_acks != want_acks or len(seps) != want_sep or calls.count(d) != 1:
            res.violate(Violation("acknowledged-exactly-once", {"distinct ACKs under the request's ID (codes)": want_acks, "separate responses": want_sep, "handler runs": 1},
                                  {"acks": got_acks, "separate": len(seps), "handler runs": calls.count(d)}, "messagemanager.py:_deduplicate_message", case,
                                  trace=w.trace[-20:], key="dupwin/%s/%s" % (dur, "twice" if len(got_acks) > 1 else "other")))
        for msg, e in w.loop_exceptions():
            res.violate(Violation("loop-exception", "none", core.exc_desc(e) if e else msg, core.site_of(e) if e else "loop", case, key="loop"))
        res.states.add(core.digest(("dupwin", dur, gap, nr, err, tuple(got_acks), len(seps))))
        res.transitions += 2
        res.outcomes.add(core.digest(("dupwin", tuple(got_acks), len(seps))))
        res.signatures.add(core.digest(("dupwin", dur, gap, nr, err)))
    finally:
        w.dispose()


def run_multicast_given_up(res, dst, late_type):
    """A request to a multicast group that the application gives up before anything came back: a response that turns up on that
    token afterwards (from a unicast address) answers nothing - Reset if confirmable, silence otherwise."""
    from ..world import World as _W
    w = _W()
    try:
        node = w.add_context("node", *NODE)
        w.add_peer(Peer("peer", *PEER))
        m = Message(code=GET, uri_path=["x"])
        m.remote = node.remote((dst, 5683))
        r = node.ctx.request(m, handle_blockwise=False)
        w.loop.settle()
        sent = [d for d in w.sent if d.src == NODE]
        case = {"multicast_given_up": [dst, late_type]}
        res.evaluations += 1
        res.traces += 1
        if len(sent) != 1:
            res.violate(Violation("multicast-request-type", "one NON datagram", [repr(d) for d in sent], "messagemanager.py:send_message", case, key="mc-setup"))
            return
        token = sent[0].data[4:4 + (sent[0].data[0] & 15)]
        r.response.cancel()
        w.loop.settle()
        w.loop.advance(1.0)
        n0 = len(w.sent)
        t = {"CON": rc.CON, "NON": rc.NON}[late_type]
        w.inject(PEER, NODE, rc.encode((t, 69, 0x6a01, token, [], b"late")))
        w.loop.advance(0.5)
        replies = [rc.decode(d.data, check_formats=False) for d in w.sent[n0:] if d.src == NODE]
        want = [(rc.RST, 0, 0x6a01, b"", [], b"")] if t == rc.CON else []
        if replies != want:
            res.violate(Violation("reaction-table", [rc.describe(x) for x in want], [rc.describe(x) for x in replies], "tokenmanager.py:request", case,
                                  key="mc-late-" + late_type))
        for msg, e in w.loop_exceptions():
            res.violate(Violation("loop-exception", "none", core.exc_desc(e) if e else msg, core.site_of(e) if e else "loop", case, key="loop"))
        res.states.add(core.digest(("mcgu", dst, late_type, len(replies))))
        res.transitions += 2
        res.outcomes.add(core.digest(("mcgu", len(replies))))
        res.signatures.add(core.digest(("mcgu", dst, late_type)))
    finally:
        w.dispose()


def run_mid_crossing(res, cell, reaction):
    """Message IDs of the two directions are separate spaces: the node's separate CON response went out under its own ID M and
    was acknowledged (or reset) by the peer under M; a message of the peer that happens to carry M as *its* ID is a new message
    and gets the table's reaction."""
    w, node, req, tok, reqmid, calls = build()
    try:
        for n in w.nodes.values():
            if hasattr(n, "autoack"):
                n.autoack = False
        t0 = w.loop.time()
        first = (rc.CON, 1, False, "peer", "uni", "slow", None)
        data, mid0, token0 = incoming(first, tok, 0)
        w.inject(PEER, NODE, data, local_ip=LOCALS["uni"])
        w.loop.advance_to(t0 + 0.6)        # empty ACK at +0.1, separate CON response at +0.5
        sep = [rc.decode(d.data, check_formats=False) for d in w.sent if d.src == NODE and d.data[0] & 0x30 == 0 and d.data[1] >= 64]
        if len(sep) != 1:
            res.violate(Violation("reaction-table", "one separate CON response", len(sep), "messagemanager.py", {"mid_crossing": list(cell)}, key="cross/setup"))
            return
        M = sep[0][2]
        w.pool.clear()
        w.inject(PEER, NODE, rc.encode((rc.ACK if reaction == "ack" else rc.RST, 0, M, b"", [], b"")), local_ip=LOCALS["uni"])
        w.loop.advance_to(t0 + 0.7)
        t1 = w.loop.time()
        n_before = len(w.sent)
        old = MIDBASE[0]
        MIDBASE[0] = (M - 1) & 0xFFFF
        try:
            data, mid, token = incoming(cell, tok, 1)
        finally:
            MIDBASE[0] = old
        w.inject(PEER if cell[3] == "peer" else PEER2, NODE, data, local_ip=LOCALS[cell[4]])
        for n in w.nodes.values():
            if hasattr(n, "autoack"):
                n.autoack = True
        w.loop.advance_to(t1 + 0.8)
        earlier = {d.data for d in w.sent[:n_before]}
        replies = [(dg, rc.decode(dg.data, check_formats=False)) for dg in w.sent[n_before:]
                   if dg.src == NODE and dg.data not in earlier and not (1 <= dg.data[1] < 32)]
        got = classify(replies, [mid], [token], t1, with_time=True)
        exp = expected(cell, mid, token)
        case = {"mid_crossing": list(cell), "reaction": reaction}
        res.evaluations += 1
        res.traces += 1
        if exp is not None and got != norm_expected(exp):
            res.violate(Violation("reaction-after-own-message-id", norm_expected(exp), got, "messagemanager.py:dispatch_message", case, trace=w.trace[-20:],
                                  key="cross/" + cells_key([cell])))
        for msg, e in w.loop_exceptions():
            res.violate(Violation("loop-exception", "none", core.exc_desc(e) if e else msg, core.site_of(e) if e else "loop", case, key="loop"))
        res.states.add(core.digest(("cross", cell, reaction, got)))
        res.transitions += 3
        res.outcomes.add(core.digest(("cross", got)))
        res.signatures.add(core.digest(("cross", cell, reaction)))
    finally:
        w.dispose()


def run_token_sequence(res, a, b):
    """A peer that re-uses one token for consecutive requests: after the first request has been dealt with completely, the second
    one on the same token is a fresh cell of the table (nothing remembered from the first may colour the reaction)."""
    w, node, req, tok, reqmid, calls = build()
    try:
        t0 = w.loop.time()
        T = b"\x5b"
        da, mida, _ = incoming(a, tok, 0)
        ma = rc.decode(da, check_formats=False)
        w.inject(PEER, NODE, rc.encode((ma[0], ma[1], ma[2], T, ma[4], ma[5])), local_ip=LOCALS["uni"])
        while True:
            while w.pool:
                for dg in list(w.pool):
                    w.deliver(dg)
            tn = w.loop.next_timer()
            if tn is None or tn > t0 + 1.5:
                break
            w.loop.fire_next_timer()
        w.loop.advance_to(t0 + 1.5)
        t1 = w.loop.time()
        n_before = len(w.sent)
        db, midb, _ = incoming(b, tok, 1)
        mb = rc.decode(db, check_formats=False)
        w.inject(PEER, NODE, rc.encode((mb[0], mb[1], mb[2], T, mb[4], mb[5])), local_ip=LOCALS["uni"])
        while True:
            while w.pool:
                for dg in list(w.pool):
                    w.deliver(dg)
            tn = w.loop.next_timer()
            if tn is None or tn > t1 + 1.5:
                break
            w.loop.fire_next_timer()
        replies = [(dg, rc.decode(dg.data, check_formats=False)) for dg in w.sent[n_before:]
                   if dg.src == NODE and not (1 <= dg.data[1] < 32)]
        got = classify(replies, [midb], [T], t1, with_time=True)
        want = norm_expected(expected(b, midb, T))
        case = {"token_sequence": [list(a), list(b)]}
        res.evaluations += 1
        res.traces += 1
        if got != want:
            res.violate(Violation("reaction-after-token-reuse", want, got, "messagemanager.py:send_message", case, trace=w.trace[-20:],
                                  key="tokseq/" + cells_key([b])))
        for msg, e in w.loop_exceptions():
            res.violate(Violation("loop-exception", "none", core.exc_desc(e) if e else msg, core.site_of(e) if e else "loop", case, key="loop"))
        res.states.add(core.digest(("tokseq", a, b, got)))
        res.transitions += 2
        res.outcomes.add(core.digest(("tokseq", got)))
        res.signatures.add(core.digest(("tokseq", a, b)))
    finally:
        w.dispose()


def run_same_token(res, first_dur, second_dur, second_type):
    """Two requests of one peer on the same token with different message IDs, the second arriving before the first was
    acknowledged: the second is acknowledged under its own ID (what happens to the superseded first is a don't-care)."""
    w, node, req, tok, reqmid, calls = build()
    try:
        t0 = w.loop.time()
        T = b"\x5a"
        w.inject(PEER, NODE, rc.encode((rc.CON, 1, 0x5100, T, [(11, ("h" + first_dur).encode())], b"")))
        w.inject(PEER, NODE, rc.encode((second_type, 1, 0x5101, T, [(11, ("h" + second_dur).encode())], b"")))
        while True:
            for dg in list(w.pool):
                w.deliver(dg)
            tn = w.loop.next_timer()
            if tn is None or tn > t0 + 1.5:
                break
            w.loop.fire_next_timer()
        case = {"same_token": [first_dur, second_dur, int(second_type)]}
        res.evaluations += 1
        res.traces += 1
        sent = [rc.decode(d.data, check_formats=False) for d in w.sent if d.src == NODE and d.t >= t0 and not (1 <= d.data[1] < 32)]
        if second_type == rc.CON:
            acks = [m for m in sent if m[0] == rc.ACK and m[2] == 0x5101]
            if len(acks) != 1:
                res.violate(Violation("superseding-request-not-acknowledged", "one ACK under message ID 0x5101", [rc.describe(m) for m in sent],
                                      "messagemanager.py:_process_request", case, key="same-token-ack"))
        finals = [m for m in sent if m[1] >= 64 and m[3] == T]
        if not (1 <= len(finals) <= 2) or not any(m[5] == b"r" for m in finals):
            res.violate(Violation("superseding-request-unanswered", "a 2.05 on the token", [rc.describe(m) for m in sent],
                                  "messagemanager.py:_process_request", case, key="same-token-resp"))
        if any(m[0] == rc.ACK and m[2] not in (0x5100, 0x5101) for m in sent):
            res.violate(Violation("ack-without-con", "ACK only for a CON's message ID", [rc.describe(m) for m in sent], "messagemanager.py", case, key="ack"))
        res.states.add(core.digest(("same", first_dur, second_dur, second_type, len(sent))))
        res.transitions += 2
        res.outcomes.add(core.digest(("same", len(sent))))
        res.signatures.add(core.digest(("same", first_dur, second_dur, second_type)))
    finally:
        w.dispose()


def cells_key(cells):
    return "+".join("%s:%d.xx" % ("CNAR"[c[0]], c[1] >> 5) for c in cells[:1]) + ("+.." if len(cells) > 1 else "")


def table(tier):
    cells = []
    for t in range(4):
        for code in CODES:
            for known in (True, False):
                for src in ("peer", "port"):
                    for local in ("uni", "mc6", "mc4"):
                        if 1 <= code < 32:
                            if known or src == "port":
                                continue   # token/source are irrelevant for requests
                            durs = list(DUR) if code == 1 else ["0"]
                            nrs = NR
                            if local != "uni" and (t != rc.NON or code != 1):
                                continue
                        else:
                            durs, nrs = ["0"], (None,)
                            if code == 0 and (known or src == "port"):
                                continue
                        for dur in durs:
                            for nr in nrs:
                                cells.append((t, code, known, src, local, dur, nr))
    return cells


def subtable():
    out = []
    for t in range(4):
        for code in (0, 1, 69, 132, 32):
            if 1 <= code < 32:
                if t in (rc.CON, rc.NON):
                    out += [(t, 1, False, "peer", "uni", "0", None), (t, 1, False, "peer", "uni", "slow", None),
                            (t, 1, False, "peer", "uni", "0", 26), (t, 1, False, "peer", "uni", "D+e", 2)]
                else:
                    out.append((t, 1, False, "peer", "uni", "0", None))
            elif code in (69, 132):
                out += [(t, code, True, "peer", "uni", "0", None), (t, code, False, "peer", "uni", "0", None)]
                if code == 69:
                    out.append((t, code, True, "port", "uni", "0", None))
                    out.append((t, code, False, "peer", "mc6", "0", None))
            else:
                out.append((t, code, False, "peer", "uni", "0", None))
    return out


def job(arg):
    kind, items = arg
    res = Result()
    if kind == "single":
        for c in items:
            run_cells([c], res, "single")
        res.sample({"cell(type,code,token_known,source,local,handler,no_response)": list(items[0])})
    elif kind == "pairs":
        first, sub = items
        for b in sub:
            run_cells([first, b], res, "pair")
        res.sample({"pair": [list(first), list(sub[0])]})
    elif kind == "triples":
        first, second, sub = items
        for c in sub:
            run_cells([first, second, c], res, "triple")
        res.sample({"triple": [list(first), list(second), list(sub[0])]})
    elif kind == "edgemids":
        for base in (0x0000, 0xFFFF):
            MIDBASE[0] = base
            try:
                for c in items:
                    run_cells([c], res, "single")
                for a in items[:6]:
                    for b in items[:6]:
                        run_cells([a, b], res, "pair")
            finally:
                MIDBASE[0] = 0x5000
        res.sample({"message_id_base": [0, 65535], "cell": list(items[0])})
    elif kind == "tokseq":
        reqs = [c for c in items if 1 <= c[1] < 32 and c[0] in (rc.CON, rc.NON)]
        reqs += [(rc.CON, 1, False, "peer", "uni", "0", 26), (rc.NON, 1, False, "peer", "uni", "0", 26), (rc.CON, 1, False, "peer", "uni", "slow", 26)]
        for a in reqs:
            for b in reqs:
                run_token_sequence(res, a, b)
        res.sample({"token_sequence": [list(reqs[0]), list(reqs[-1])]})
    elif kind == "out":
        outgoing(res)
    elif kind == "behind":
        for c in items:
            exp = expected(c, 0, b"")
            if exp is None or any(e[0] == "CON" for e in exp):
                continue      # a new CON of the node would rightly queue behind the open exchange (NSTART, C14)
            if 64 <= c[1] < 192 and c[2]:
                continue      # (the pending request of this world is not part of this family)
            run_behind_unacked(res, c)
        for a in ("slow", "D+e", "0"):
            for b in ("0", "D-e", "slow"):
                for t in (rc.CON, rc.NON):
                    run_same_token(res, a, b, t)
        for c in items:
            if 64 <= c[1] < 192 and c[2]:
                continue
            for reaction in ("ack", "rst"):
                run_mid_crossing(res, c, reaction)
        for dur in ("slow", "D+e"):
            for nr in (None, 2, 8, 26):
                run_behind_release(res, dur, nr)
        for n in (1, 2, 3):
            for first_open in (True, False):
                run_other_port(res, n, first_open)
        for dur in DUR:
            for own_type in (CON, NON):
                run_role_reversal(res, dur, own_type)
        for delay in (0.0, 0.05, 0.3, 1.5):
            for con in (True, False):
                run_proxy(res, delay, con)
        for dur in DUR:
            for gap in (0.0, 0.01, 0.05, 0.09, 0.11, 0.3, 0.6):
                for nr in (None, 2):
                    run_duplicate_in_window(res, dur, gap, nr)
                    if DUR[dur] < EAD and DUR[dur] < gap:
                        run_duplicate_in_window(res, dur, gap, nr, err=True)
        for dst in ("ff02::fd", "::ffff:224.0.1.187"):
            for late_type in ("CON", "NON"):
                run_multicast_given_up(res, dst, late_type)
        for what in UNSENDABLE:
            for dur in DUR:
                for t in (rc.CON, rc.NON):
                    run_unsendable(res, what, dur, t)
        res.sample({"behind_unacked_separate_response": list(items[0])})
    return res


def outgoing(res):
    """No CON is ever sent to a multicast destination."""
    for dst in ("ff02::fd", "::ffff:224.0.1.187", "ff05::fd"):
        for mt, tname in itertools.product((None, NON, CON), ("default", "Reliable-class", "Reliable-instance", "Unreliable-class")):
            w = World()
            try:
                node = w.add_context("node", *NODE)
                # the reliability preference of the transport tuning must not override the multicast rule
                tt = {"default": None, "Reliable-class": constants.Reliable, "Reliable-instance": constants.Reliable(),
                      "Unreliable-class": constants.Unreliable}[tname]
                m = Message(code=GET, uri_path=["x"], _mtype=mt, transport_tuning=tt)
                m.remote = node.remote((dst, 5683))
                r = node.ctx.request(m, handle_blockwise=False)
                w.loop.settle()
                w.loop.advance_to(5.0)
                case = {"outgoing": [dst, None if mt is None else int(mt), tname]}
                res.evaluations += 1
                res.traces += 1
                cons = [d for d in w.sent if (d.data[0] >> 4) & 3 == rc.CON]
                if cons:
                    res.violate(Violation("con-to-multicast", "no CON to a multicast destination", [repr(d) for d in cons],
                                          "messagemanager.py:send_message", case, key="con-mc"))
                if mt is CON:
                    ok = r.response.done() and isinstance(r.response.exception(), error.ConToMulticast) and not w.sent
                    if not ok:
                        res.violate(Violation("explicit-con-to-multicast", "fails with ConToMulticast, nothing sent",
                                              [repr(r.response), len(w.sent)], "messagemanager.py:send_message", case, key="explicit"))
                else:
                    if len(w.sent) != 1 or (w.sent[0].data[0] >> 4) & 3 != rc.NON:
                        res.violate(Violation("multicast-request-type", "one NON datagram", [repr(d) for d in w.sent],
                                              "messagemanager.py:send_message", case, key="non"))
                res.outcomes.add(core.digest((dst, mt, len(w.sent))))
                res.signatures.add(core.digest(("out", dst, mt, tname)))
                res.states.add(core.digest(("out", dst, mt, tname, len(w.sent))))
                res.transitions += 1
            finally:
                w.dispose()


def run(tier, seed, jobs):
    cells = table(tier)
    work = [("single", cells[i::32]) for i in range(32)]
    sub = subtable()
    work += [("pairs", (a, sub)) for a in sub]
    work.append(("out", None))
    work += [("behind", sub[i::4]) for i in range(4)]
    work += [("edgemids", sub[i::4]) for i in range(4)]
    work.append(("tokseq", sub))
    if tier == "thorough":
        work += [("triples", (a, b, sub)) for a in sub for b in sub]
    res = core.prun(job, work, jobs)
    res.scenarios["table"] = {"cells": len(cells), "pair_subtable": len(sub), "pairs": len(sub) ** 2,
                              "triples": len(sub) ** 3 if tier == "thorough" else 0}
    return res


def replay(case, scenario, seed):
    res = Result()
    if "behind_unacked" in case:
        run_behind_unacked(res, tuple(case["behind_unacked"]))
        return [v for v, n in res.violations.values()]
    if "token_sequence" in case:
        run_token_sequence(res, tuple(case["token_sequence"][0]), tuple(case["token_sequence"][1]))
        return [v for v, n in res.violations.values()]
    if "same_token" in case:
        run_same_token(res, *case["same_token"])
        return [v for v, n in res.violations.values()]
    if "duplicate_in_window" in case:
        run_duplicate_in_window(res, *case["duplicate_in_window"])
    elif "multicast_given_up" in case:
        run_multicast_given_up(res, *case["multicast_given_up"])
    elif "proxy" in case:
        run_proxy(res, *case["proxy"])
    elif "unsendable" in case:
        run_unsendable(res, *case["unsendable"])
    elif "role_reversal" in case:
        run_role_reversal(res, case["role_reversal"][0], CON if case["role_reversal"][1] == int(CON) else NON)
    elif "other_port" in case:
        run_other_port(res, *case["other_port"])
    elif "behind_release" in case:
        run_behind_release(res, *case["behind_release"])
    elif "mid_crossing" in case:
        run_mid_crossing(res, tuple(case["mid_crossing"]), case["reaction"])
    elif "outgoing" in case:
        outgoing(res)
    else:
        cells = [tuple(c) for c in case["cells"]]
        MIDBASE[0] = case.get("midbase", 0x5000)
        run_cells(cells, res, "single" if len(cells) == 1 else "pair")
    return [v for v, n in res.violations.values()]
