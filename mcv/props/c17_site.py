"""C17 - Site routing: exact match, longest prefix for nested sites, matching discovery.

E1 over configurations (sets of resources, nested sites two levels deep, a path-capable leaf) x all request paths of length
<= 4 over {a, b, ''}; the /.well-known/core listing and every single-criterion RFC 6690 filter are compared with a model;
E3 over add/remove histories with a full routing sweep after every step."""

import itertools

from .. import core
from ..core import Result, Violation
from ..seam2 import SiteWorld

from aiocoap import Message, GET, resource, interfaces

PROP = "C17"
LEVEL = "model_checking"
RULE = ("E1: configurations = all sets of <= 3 resources at paths of length <= 3 over {a,b,''} (quick: a stratified 1/7 of them, "
        "rotated by VERIF_SEED), combined with 0-2 nested sites (inner resources at [], [a], [a,b]; one nested a second level) and "
        "a path-capable leaf, x all 121 request paths of length <= 4, each rendered through Context.render_to_pipe; discovery and "
        "filters rt/if/ct/href (exact and prefix*) per configuration; every Uri-Path-Abbrev value against the spelled-out path over six "
        ".well-known trees; request bodies arriving in Block1 blocks below nested sites (stripped path and reconstructed URI); E3: add/remove histories of length <= 3 over 14 operations")
ASSUMPTIONS = [
    "nested sites sit at non-empty paths that do not end in an empty component (as the class documents)",
    "filter queries carry a single criterion (RFC 6690 section 4.1)",
]

ALPHA = ("a", "b", "")
PATHS3 = [p for n in range(0, 4) for p in itertools.product(ALPHA, repeat=n)]
PATHS4 = [p for n in range(0, 5) for p in itertools.product(ALPHA, repeat=n)]
SUBPATHS = [p for n in (1, 2) for p in itertools.product(ALPHA, repeat=n) if p[-1] != ""]
BASE = "coap://[2001:db8::5]"


class Rec(resource.Resource):
    def __init__(self, rid, log, rt=None, if_=None, ct=None, hidden=False):
        super().__init__()
        self.rid, self.log, self.hidden = rid, log, hidden
        if rt is not None:
            self.rt = rt
        if if_ is not None:
            self.if_ = if_
        if ct is not None:
            self.ct = ct

    def get_link_description(self):
        if self.hidden:
            return None
        return super().get_link_description()

    async def render_get(self, request):
        self.log.append((self.rid, tuple(request.opt.uri_path), request.get_request_uri()))
        return Message(payload=self.rid.encode())

    async def render_post(self, request):
        self.log.append((self.rid, tuple(request.opt.uri_path), request.get_request_uri(), bytes(request.payload)))
        return Message(payload=self.rid.encode())


class Bare(interfaces.Resource):
    """A resource written against the bare interface: it has no get_link_description at all (so it publishes a link without
    attributes) - whatever its neighbours in the site publish or hide."""

    def __init__(self, rid, log):
        super().__init__()
        self.rid, self.log = rid, log

    async def needs_blockwise_assembly(self, request):
        return True

    async def render(self, request):
        self.log.append((self.rid, tuple(request.opt.uri_path), request.get_request_uri()))
        return Message(code=69, payload=self.rid.encode())


class Leaf(resource.Resource, resource.PathCapable):
    """Not a Site, but promises to parse the path itself: receives the remainder."""

    def __init__(self, rid, log):
        super().__init__()
        self.rid, self.log = rid, log

    async def render_get(self, request):
        self.log.append((self.rid, tuple(request.opt.uri_path), request.get_request_uri()))
        return Message(payload=self.rid.encode())


ATTRS = [dict(), dict(rt="x"), dict(rt="x y", ct="0 41"), dict(if_="core.s", ct="40"), dict(hidden=True), dict(rt="xy"), dict(rt="unit=C", if_="a=b=c"),
         dict(bare=True), dict(ct=0, rt="note"),      # 7: no get_link_description; 8: the integer content format 0
         dict(falsy=True)]                            # 9: a resource object that is false in a boolean context (an empty collection)


class Falsy(Rec):
    """A registered resource is routed to whatever its truth value - e.g. a collection resource that is currently empty."""

    def __len__(self):
        return 0


def build_site(cfg, log):
    """cfg = (resources: tuple of (path, attr index), subsites: tuple of (path, inner cfg) , leaves: tuple of path)"""
    resources, subsites, leaves = cfg
    site = resource.Site()
    for path, ai in resources:
        if ATTRS[ai].get("bare"):
            site.add_resource(list(path), Bare("R" + "/".join(path) + "#%d" % ai, log))
        elif ATTRS[ai].get("falsy"):
            site.add_resource(list(path), Falsy("R" + "/".join(path) + "#%d" % ai, log))
        else:
            site.add_resource(list(path), Rec("R" + "/".join(path) + "#%d" % ai, log, **ATTRS[ai]))
    for path, inner in subsites:
        site.add_resource(list(path), build_site(inner, log))
    for path in leaves:
        site.add_resource(list(path), Leaf("L" + "/".join(path), log))
    return site


def model_route(cfg, path):
    """-> (rid, remainder seen by the handler) or None (4.04)"""
    resources, subsites, leaves = cfg
    for p, ai in resources:
        if p == path:
            return ("R" + "/".join(p) + "#%d" % ai, ())
    if not path:
        return None
    nested = {p: ("site", inner) for p, inner in subsites}
    nested.update({p: ("leaf", None) for p in leaves if p not in nested})
    for k in range(len(path) - 1, 0, -1):
        pre = path[:k]
        if pre in nested:
            rem = path[k:]
            if rem == ("",):
                rem = ()
            kind, inner = nested[pre]
            if kind == "leaf":
                return ("L" + "/".join(pre), rem)
            r = model_route(inner, rem)
            return r          # no fall-back to a shorter prefix
    return None


def model_links(cfg, prefix=""):
    resources, subsites, leaves = cfg
    out = []
    for p, ai in resources:
        a = ATTRS[ai]
        if a.get("hidden"):
            continue
        attrs = {}
        if "rt" in a:
            attrs["rt"] = a["rt"]
        if "if_" in a:
            attrs["if"] = a["if_"]
        if "ct" in a:
            attrs["ct"] = str(a["ct"])
        out.append((prefix + "/" + "/".join(p), attrs))
    for p, inner in subsites:
        out += model_links(inner, prefix + "/" + "/".join(p))
    # (path-capable leaves are a routing device here; they do not publish links and are left out of the listing model)
    return out


def parse_linkformat(text):
    links = []
    i, n = 0, len(text)
    while i < n:
        if text[i] != "<":
            raise ValueError("bad link-format at %d: %r" % (i, text[i:i + 20]))
        j = text.index(">", i)
        href = text[i + 1:j]
        i = j + 1
        attrs = {}
        while i < n and text[i] == ";":
            i += 1
            k = i
            while i < n and text[i] not in "=;,":
                i += 1
            name = text[k:i]
            val = None
            if i < n and text[i] == "=":
                i += 1
                if text[i] == '"':
                    # quoted-string with quoted-pairs (RFC 6690 section 2 / RFC 2616): backslash + any character stands for it
                    i += 1
                    buf = []
                    while True:
                        if i >= n:
                            raise ValueError("unterminated quoted-string in link-format")
                        c = text[i]
                        if c == "\\":
                            if i + 1 >= n:
                                raise ValueError("dangling backslash in link-format")
                            buf.append(text[i + 1])
                            i += 2
                        elif c == '"':
                            i += 1
                            break
                        else:
                            buf.append(c)
                            i += 1
                    val = "".join(buf)
                else:
                    k = i
                    while i < n and text[i] not in ";,":
                        i += 1
                    val = text[k:i]
            attrs.setdefault(name, val)
        links.append((href, attrs))
        if i < n and text[i] == ",":
            i += 1
    return links


def filter_model(links, k, v):
    out = []
    for href, attrs in links:
        if k == "href":
            vals = [href]
        else:
            if k not in attrs:
                continue
            vals = attrs[k].split(" ")
        if v.endswith("*"):
            ok = any(x.startswith(v[:-1]) for x in vals)
        else:
            ok = any(x == v for x in vals)
        if ok:
            out.append((href, attrs))
    return out


FILTERS = [("rt", "x"), ("rt", "y"), ("rt", "x*"), ("rt", "xy"), ("rt", "z"), ("if", "core.s"), ("if", "core*"), ("ct", "40"), ("ct", "41"),
           ("ct", "4*"), ("ct", "0"), ("href", "/a"), ("href", "/a*"), ("href", "/a/*"), ("href", "/.well-known/core"), ("href", "/zz*"),
           # values that contain '=' themselves: the criterion is split at its first '='
           ("rt", "unit=C"), ("rt", "unit=*"), ("if", "a=b=c"), ("if", "a=b*"), ("href", "/m=1"), ("href", "/m=*"), ("rt", "unit")]


def check_config(res, cfg, paths, discovery=True):
    log = []

    def factory(sw):
        site = build_site(cfg, log)
        site.add_resource([".well-known", "core"], resource.WKCResource(site.get_resources_as_linkheader))
        return site
    sw = SiteWorld(factory)
    try:
        case = {"cfg": cfg}
        for path in paths:
            n = len(log)
            for q in ((), ("k=v",)) if len(path) == 2 else ((),):
                msg = Message(code=GET, uri_path=list(path), uri_query=list(q))
                r = sw.do(msg, 1)
                res.evaluations += 1
                res.traces += 1
                want = model_route(cfg, path)
                got = log[n:]
                n = len(log)
                code = r.code.dotted if hasattr(r, "code") else repr(r)
                if want is None:
                    ok = code == "4.04" and not got
                    exp = "4.04"
                else:
                    uri = BASE + ("/" + "/".join(path) if path else "/") + ("?" + "&".join(q) if q else "")
                    exp = (want[0], want[1], uri)
                    ok = code == "2.05" and got == [exp]
                if not ok:
                    res.violate(Violation("routing", exp, {"code": code, "handler": got}, "resource.py:Site._find_child_and_pathstripped_message",
                                          dict(case, path=path, query=q),
                                          key="%s->%s" % ("4.04" if want is None else "handler", "4.04" if code == "4.04" else "other" if not got else ("wrong-handler" if got[0][0] != (want or [None])[0] else "wrong-path-or-uri"))))
                res.outcomes.add(core.digest((want is None, code, len(path))))
        if discovery:
            links = model_links(cfg) + [("/.well-known/core", {"ct": "40"})]
            for flt in [None] + FILTERS:
                msg = Message(code=GET, uri_path=[".well-known", "core"], uri_query=["%s=%s" % flt] if flt else [])
                r = sw.do(msg, 1)
                res.evaluations += 1
                res.traces += 1
                try:
                    got = [(h, a) for h, a in parse_linkformat(r.payload.decode("utf8")) if a.get("rel") != "impl-info"]
                except Exception as e:
                    res.violate(Violation("discovery-unparsable", "link-format", core.exc_desc(e), "resource.py:WKCResource", dict(case, filter=flt), key="parse"))
                    continue
                if (r.opt.no_response or 0) & 2:
                    # the listing goes to a unicast requester that did not ask for silence: even an empty one is an answer that is sent
                    res.violate(Violation("discovery-filter", "a response that is sent", "marked No-Response=%d (suppressed by the message layer)" % r.opt.no_response,
                                          "resource.py:WKCResource.render_get", dict(case, filter=flt), key="suppressed"))
                    continue
                want = links if flt is None else filter_model(links, *flt)
                gk = sorted((h, tuple(sorted((k, v) for k, v in a.items()))) for h, a in got)
                wk = sorted((h, tuple(sorted(a.items()))) for h, a in want)
                if gk != wk:
                    res.violate(Violation("discovery" if flt is None else "discovery-filter", wk, gk, "resource.py:WKCResource.render_get",
                                          dict(case, filter=flt), key=("list" if flt is None else "filter-" + flt[0]) + ("-more" if len(gk) > len(wk) else "-fewer" if len(gk) < len(wk) else "-diff")))
                res.outcomes.add(core.digest(("disc", flt is None, len(gk))))
        for msg, e in sw.loop_exceptions():
            res.violate(Violation("loop-exception", "none", core.exc_desc(e) if e else msg, core.site_of(e) if e else "loop", case, key="loop"))
        res.signatures.add(core.digest(cfg))
        res.states.add(core.digest(cfg))
        res.transitions += len(paths)
    finally:
        sw.dispose()


# Uri-Path-Abbrev (draft-ietf-core-uri-path-abbrev, the values this commit knows): a request carrying the option is routed
# exactly like the request that spells the path out
ABBREV = {0: (".well-known", "core"), 1: (".well-known", "rd"), 2: (".well-known", "edhoc"), 301: (".well-known", "est", "crts"),
          302: (".well-known", "est", "sen"), 303: (".well-known", "est", "sren"), 304: (".well-known", "est", "skg"),
          305: (".well-known", "est", "skc"), 306: (".well-known", "est", "att"), 401: (".well-known", "brski", "es"),
          402: (".well-known", "brski", "rv"), 403: (".well-known", "brski", "vs")}
W = ".well-known"


def abbrev_configs():
    est_inner = (((("crts",), 0), (("sen",), 1)), (), ())
    brski_inner = (((("es",), 0), ((), 2)), (), ())
    wk_inner = (((("rd",), 0), (("est", "crts"), 1)), ((("brski",), brski_inner),), ())
    wk_inner2 = (((("edhoc",), 0),), ((("est",), est_inner),), ())
    return [
        ((((W, "rd"), 0), ((W, "est", "crts"), 1), ((W, "edhoc"), 2)), (), ()),
        ((((W, "rd"), 0),), (((W, "est"), est_inner),), ()),
        ((((W, "est", "crts"), 3),), (((W, "est"), est_inner), ((W, "brski"), brski_inner)), ()),
        ((), (((W,), wk_inner),), ()),
        ((((W, "rd"), 5),), (((W,), wk_inner2),), ()),
        ((), (), ((W, "est"),)),
    ]


def check_abbrev(res, cfg, with_wkc):
    log = []

    def factory(sw):
        site = build_site(cfg, log)
        if with_wkc:
            site.add_resource([W, "core"], resource.WKCResource(site.get_resources_as_linkheader))
        return site
    sw = SiteWorld(factory)
    try:
        case = {"abbrev_cfg": cfg, "wkc": with_wkc}
        for n, path in sorted(ABBREV.items()):
            for q in ((), ("k=v",)):
                views = []
                for spelled in (True, False):
                    msg = Message(code=GET, uri_query=list(q))
                    if spelled:
                        msg.opt.uri_path = list(path)
                    else:
                        msg.opt.uri_path_abbrev = n
                    k = len(log)
                    r = sw.do(msg, 1)
                    code = r.code.dotted if hasattr(r, "code") else repr(r)
                    views.append((code, log[k:], bytes(r.payload) if path != (W, "core") and hasattr(r, "payload") else None))
                res.evaluations += 1
                res.traces += 1
                if views[0] != views[1]:
                    res.violate(Violation("abbreviated-path-routing", {"spelled out": views[0]}, {"abbreviated": views[1]},
                                          "resource.py:_expand_upa", dict(case, abbrev=n, query=q),
                                          key="upa:%s->%s" % (views[0][0], views[1][0])))
                res.outcomes.add(core.digest(("upa", views[0][0], len(views[0][1]))))
        # an unknown abbreviation, and an abbreviation next to a spelled-out path, reach no handler
        for what, kw in (("unknown", dict(uri_path_abbrev=77)), ("conflict", dict(uri_path_abbrev=1, uri_path=["a"]))):
            msg = Message(code=GET)
            for k_, v_ in kw.items():
                setattr(msg.opt, k_, v_)
            k = len(log)
            r = sw.do(msg, 1)
            code = r.code.dotted if hasattr(r, "code") else repr(r)
            res.evaluations += 1
            if log[k:] or not code.startswith("4."):
                res.violate(Violation("abbreviated-path-routing", "a 4.xx error, no handler", {"code": code, "handler": log[k:]},
                                      "resource.py:_expand_upa", dict(case, abbrev=what), key="upa-bad:" + what))
        for msg, e in sw.loop_exceptions():
            res.violate(Violation("loop-exception", "none", core.exc_desc(e) if e else msg, core.site_of(e) if e else "loop", case, key="loop"))
        res.signatures.add(core.digest(("upa", cfg, with_wkc)))
    finally:
        sw.dispose()


def check_blockwise_uri(res):
    """A request body that arrives in blocks is reassembled below the site: the handler still sees the stripped path and can
    still reconstruct the original request URI - exactly as for a body that came in one piece."""
    from aiocoap import POST
    inner2 = (((("leaf",), 0),), (), ())
    inner1 = (((("b",), 0), ((), 1)), ((("in",), inner2),), ())
    cfg = ((((("top",), 0), (("a", "b"), 2))), ((("s",), inner1),), ())
    for path in (("top",), ("a", "b"), ("s", "b"), ("s", ""), ("s", "in", "leaf")):
        for blocks in (None, (16, 5), (16, 16, 1)):
            log = []
            sw = SiteWorld(lambda sw_: build_site(cfg, log))
            try:
                body = b""
                r = None
                if blocks is None:
                    body = b"x" * 21
                    r = sw.do(Message(code=POST, uri_path=list(path), uri_query=["k=v"], payload=body), 1)
                else:
                    for i, n in enumerate(blocks):
                        chunk = bytes([0x41 + i]) * n
                        body += chunk
                        m = Message(code=POST, uri_path=list(path), uri_query=["k=v"], payload=chunk)
                        m.opt.block1 = (i, i < len(blocks) - 1, 0)
                        r = sw.do(m, 1)
                res.evaluations += 1
                res.traces += 1
                want = model_route(cfg, path)
                uri = BASE + "/" + "/".join(path) + "?k=v"
                exp = [(want[0], want[1], uri, body)]
                code = r.code.dotted if hasattr(r, "code") else repr(r)
                case = {"blockwise_uri": list(path), "blocks": blocks}
                if log != exp or not code.startswith("2."):
                    res.violate(Violation("routing", exp, {"code": code, "handler": log}, "message.py:get_request_uri (_original_request_path)", case,
                                          key="block1:" + ("uri" if log and log[0][:2] == exp[0][:2] and log[0][3:] == exp[0][3:] else "other")))
                res.outcomes.add(core.digest(("bw", code, len(log))))
                res.signatures.add(core.digest(("bw", path, blocks)))
            finally:
                sw.dispose()


def check_shared_site(res):
    """One Site object mounted under several prefixes of one root (and under a nested site): every mount routes to it and every mount
    is listed - whichever of them a listing reaches first."""
    from aiocoap.resource import WKCResource
    for mounts in ((("v1",), ("latest",)), (("v1",), ("latest",), ("b", "f")), (("a",), ("a", "a"))):
        log = []
        inner = resource.Site()
        inner.add_resource(["t"], Rec("Rt", log, rt="x"))
        inner.add_resource(["d", "e"], Rec("Rde", log))
        root = resource.Site()
        for mp in mounts:
            root.add_resource(list(mp), inner)
        root.add_resource([".well-known", "core"], WKCResource(root.get_resources_as_linkheader))
        sw = SiteWorld(lambda sw_: root)
        case = {"shared_site": [list(mp) for mp in mounts]}
        try:
            res.evaluations += 1
            res.traces += 1
            for rnd in range(2):
                r = sw.do(Message(code=GET, uri_path=[".well-known", "core"]), 1)
                try:
                    got = sorted(h for h, at in parse_linkformat(r.payload.decode("utf8")) if h.startswith("/") and not h.startswith("/.well-known"))
                except Exception as e:
                    got = ["unparsable: %s" % e]
                want = sorted("/" + "/".join(mp + tail) for mp in mounts for tail in (("t",), ("d", "e")))
                if got != want:
                    res.violate(Violation("discovery", want, got, "resource.py:Site.get_resources_as_linkheader", case, key="shared-site"))
                    break
            for mp in mounts:
                del log[:]
                r = sw.do(Message(code=GET, uri_path=list(mp) + ["t"]), 1)
                if [x[0] for x in log] != ["Rt"] or not r.code.is_successful():
                    res.violate(Violation("routing", "Rt", {"code": r.code.dotted, "handler": log}, "resource.py:Site._find_child_and_pathstripped_message", case,
                                          key="shared-site-route"))
            res.signatures.add(core.digest(("shared", mounts)))
            res.outcomes.add(core.digest(("shared", len(mounts))))
        finally:
            sw.dispose()


INNER = [((((), 0),), (), ()), (((("a",), 1),), (), ()), (((("a", "b"), 2), ((), 3)), (), ()),
         (((("a",), 0),), ((("b",), ((((), 1), (("a",), 0)), (), ())),), ())]    # the last one nests a second level at inner /b


def configs(tier, seed):
    out = []
    ress = [(p, ai) for p in PATHS3 for ai in (0,)]
    # all subsets of <= 3 resource paths
    sets = [()] + [(r,) for r in ress] + list(itertools.combinations(ress, 2)) + list(itertools.combinations(ress, 3))
    if tier == "thorough":
        sets += list(itertools.combinations(ress, 4))
    stride = 7 if tier == "quick" else 1
    for i, rs in enumerate(sets):
        if stride > 1 and (i + seed) % stride and len(rs) == 3:
            continue
        out.append((tuple(rs), (), ()))
    # nested sites: 1 or 2 of them with every inner shape, plus a few plain resources around
    around = [(), ((("a",), 1),), ((("a", "b"), 2), (("",), 4)), (((), 5), (("a", ""), 3)), ((("m=1",), 6), (("b",), 1)),
              # a resource without get_link_description right behind one that hides itself / one that has attributes
              ((("a", "a"), 4), (("a", "b"), 7), (("b", "b"), 8)), ((("a", "a"), 2), (("a", "b"), 7), (("b", "a"), 7)),
              # resource objects that are false in a boolean context, at the top and at a path a nested site is a prefix of
              ((("a",), 9), (("b", "a"), 9), ((), 9))]
    for p1, p2 in itertools.combinations([p for p in PATHS3 if len(p) <= 2], 2):
        out.append((((p1, 9), (p2, 0)), (), ()))
    for sp in SUBPATHS:
        for inner in INNER:
            for ar in around:
                out.append((tuple(ar), ((sp, inner),), ()))
    for sp1, sp2 in itertools.combinations(SUBPATHS, 2):
        for i1, i2 in ((0, 1), (2, 3), (3, 0)):
            out.append(((((("a",), 1),)), ((sp1, INNER[i1]), (sp2, INNER[i2])), ()))
    # path-capable leaves
    for sp in SUBPATHS:
        out.append(((), (), (sp,)))
        out.append((((("a", "b"), 0),), ((("b",), INNER[2]),), (sp,)) if sp != ("b",) else ((), (), (sp,)))
    return out


def job(arg):
    kind, items = arg
    res = Result()
    if kind == "cfg":
        for cfg in items:
            check_config(res, cfg, PATHS4)
        res.sample({"config(resources,subsites,leaves)": items[len(items) // 2]})
    elif kind == "abbrev":
        for cfg in abbrev_configs():
            for with_wkc in (True, False):
                check_abbrev(res, cfg, with_wkc)
        check_blockwise_uri(res)
        check_shared_site(res)
        res.sample({"uri_path_abbrev": 301, "same_as_path": list(ABBREV[301])})
    else:
        histories(res, items)
    return res


OPS = [("add", ("a",), "r"), ("add", ("a", "b"), "r"), ("add", (), "r"), ("add", ("a", ""), "r"), ("add", ("b",), "s0"), ("add", ("a",), "s2"),
       ("add", ("a", "b"), "s1"), ("add", ("b",), "leaf"), ("rm", ("a",)), ("rm", ("a", "b")), ("rm", ()), ("rm", ("b",)), ("rm", ("a", "")),
       ("add", ("b", "a"), "r"),
       # changes made to a nested site (whichever is mounted at /b or /a) after it has been mounted
       ("addin", ("b",), ("n",)), ("rmin", ("b",), ("n",)), ("addin", ("a",), ("n",))]


def histories(res, firsts):
    """E3: add/remove histories; the site object is mutated in place, the model rebuilt from the history.
    An element of firsts is one operation or a tuple of operations (a prefix)."""
    for first in firsts:
        prefix = first if isinstance(first[0], tuple) else (first,)
        for rest in itertools.chain([()], itertools.product(OPS, repeat=1), itertools.product(OPS, repeat=2)):
            hist = prefix + rest
            log = []
            site_holder = {}

            def factory(sw):
                site_holder["s"] = resource.Site()
                site_holder["s"].add_resource([".well-known", "core"], resource.WKCResource(site_holder["s"].get_resources_as_linkheader))
                return site_holder["s"]
            sw = SiteWorld(factory)
            try:
                site = site_holder["s"]
                mres, msub, mleaf = {}, {}, {}
                subobj = {}
                valid = True
                for op in hist:
                    if op[0] in ("addin", "rmin"):
                        _, sp, ip = op
                        if sp not in msub:
                            valid = False
                            break
                        rs, ss, ls = msub[sp]
                        have = any(pp == ip for pp, _ in rs) or any(pp == ip for pp, _ in ss) or ip in ls
                        if (op[0] == "addin") == have:
                            valid = False
                            break
                        if op[0] == "addin":
                            subobj[sp].add_resource(list(ip), Rec("R" + "/".join(ip) + "#1", log, **ATTRS[1]))
                            msub[sp] = (tuple(rs) + ((ip, 1),), ss, ls)
                        else:
                            subobj[sp].remove_resource(list(ip))
                            msub[sp] = (tuple(x for x in rs if x[0] != ip), ss, ls)
                    elif op[0] == "add":
                        _, p, kind = op
                        if kind == "r":
                            if p in msub or p in mleaf:
                                valid = False
                                break
                            site.add_resource(list(p), Rec("R" + "/".join(p) + "#0", log))
                            mres[p] = 0
                        elif kind == "leaf":
                            if p in mres or p in msub:
                                valid = False
                                break
                            site.add_resource(list(p), Leaf("L" + "/".join(p), log))
                            mleaf[p] = True
                        else:
                            if p in mres or p in mleaf:
                                valid = False
                                break
                            inner = INNER[int(kind[1])]
                            subobj[p] = build_site(inner, log)
                            site.add_resource(list(p), subobj[p])
                            msub[p] = inner
                            mleaf.pop(p, None)
                    else:
                        p = op[1]
                        if p not in mres and p not in msub and p not in mleaf:
                            valid = False
                            break
                        site.remove_resource(list(p))
                        for d in (msub, mleaf, mres):
                            if p in d:
                                del d[p]
                                break
                    cfg = (tuple(mres.items()), tuple(msub.items()), tuple(mleaf))
                    for path in PATHS3 + [("a", "b", "a", "b"), ("b", "a", "b", "")]:
                        n = len(log)
                        r = sw.do(Message(code=GET, uri_path=list(path)), 1)
                        res.evaluations += 1
                        res.traces += 1
                        want = model_route(cfg, path)
                        got = [(x[0], x[1]) for x in log[n:]]
                        code = r.code.dotted
                        ok = (code == "4.04" and not got) if want is None else (code == "2.05" and got == [want])
                        if not ok:
                            res.violate(Violation("routing-after-change", want or "4.04", {"code": code, "handler": got},
                                                  "resource.py:Site.add_resource/remove_resource", {"history": hist, "path": path}, key="hist"))
                    # the listing follows every change, wherever in the tree it was made
                    r = sw.do(Message(code=GET, uri_path=[".well-known", "core"]), 1)
                    res.evaluations += 1
                    try:
                        gk = sorted(h for h, a in parse_linkformat(r.payload.decode("utf8")) if a.get("rel") != "impl-info")
                    except Exception as e:
                        gk = ["unparsable: %s" % e]
                    wk = sorted([h for h, a in model_links(cfg)] + ["/.well-known/core"])
                    if gk != wk:
                        res.violate(Violation("discovery-after-change", wk, gk, "resource.py:Site.get_resources_as_linkheader",
                                              {"history": hist}, key="hist-disc-" + ("more" if len(gk) > len(wk) else "fewer" if len(gk) < len(wk) else "diff")))
                    res.transitions += 1
                    res.states.add(core.digest(cfg))
                if valid:
                    res.signatures.add(core.digest(hist))
                res.outcomes.add(core.digest(("hist", valid, len(hist))))
            finally:
                sw.dispose()
    res.sample({"history": [list(o) for o in (firsts[0], OPS[4], OPS[8])]})


def run(tier, seed, jobs):
    cfgs = configs(tier, seed)
    n = 64
    work = [("cfg", cfgs[i::n]) for i in range(n)]
    work += [("hist", [op]) for op in OPS if op[0] == "add"]
    work.append(("abbrev", None))
    if tier == "thorough":
        work += [("hist", [(a, b)]) for a in OPS if a[0] == "add" for b in OPS]     # depth 4
    res = core.prun(job, work, jobs)
    res.scenarios["space"] = {"configurations": len(cfgs), "request_paths": len(PATHS4), "filters": len(FILTERS), "history_ops": len(OPS)}
    return res


def _tup(x):
    return tuple(_tup(i) for i in x) if isinstance(x, list) else x


def replay(case, scenario, seed):
    res = Result()
    if "blockwise_uri" in case:
        check_blockwise_uri(res)
    elif "shared_site" in case:
        check_shared_site(res)
    elif "abbrev_cfg" in case:
        check_abbrev(res, _tup(case["abbrev_cfg"]), case["wkc"])
    elif "history" in case:
        h = _tup(case["history"])
        histories(res, [tuple(h[:max(1, len(h) - 2)])])
    else:
        cfg = _tup(case["cfg"])
        check_config(res, cfg, PATHS4)
    return [v for v, n in res.violations.values()]
