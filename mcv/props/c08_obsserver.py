"""C08 - observe server: rising numbers, latest state sent, cancellation final, no leak.

E2 on a real server context with an ObservableResource and one or two scripted observers: state changes, the observers'
reactions (ACK / RST / silence), re-registration, plain request on the same token, deregistration, ICMP errors, unsuccessful
and last triggers, shutdown, loss and duplication are choice points; the monitor follows each registration on the wire."""

import asyncio
import errno

from .. import core, refcodec as rc
from ..core import Violation
from ..explore import explore_schedules, replay_schedule
from ..netscn import NetScenario
from ..world import World, Peer

from aiocoap import Message, resource, error
from aiocoap.numbers import codes

PROP = "C08"
LEVEL = "model_checking"
RULE = ("E2: all schedules with <= K deviations over: observer reaction to a notification (ACK default / RST / silence), drop, "
        "duplicate, early state change, re-registration, plain GET on the token, Observe 1, ICMP error, unsuccessful trigger, last "
        "trigger (the ending notification must itself be sent), shutdown; scenarios: one CON observer, one NON observer, two observers, a render that yields, two tokens of one endpoint; distinct = distinct schedule")
ASSUMPTIONS = [
    "a registration is identified on the wire by (observer, token) and the registration request that opened it",
    "after a re-registration on the same token old and new notifications cannot be told apart: the 'nothing sent after the end' "
    "clause is not applied to that end condition",
]

SRV = ("2001:db8::5", 5683)
O1 = ("2001:db8::1", 40001)
O2 = ("2001:db8::2", 40002)


class InsertionOrderedSet(set):
    """A set that iterates in insertion order: ServerObservation objects hash by address, and the order in which
    observers are triggered must not depend on where the allocator put them (owning that nondeterminism)."""

    def __init__(self):
        super().__init__()
        self._order = []

    def add(self, x):
        if x not in self:
            self._order.append(x)
        super().add(x)

    def remove(self, x):
        super().remove(x)
        self._order.remove(x)

    def discard(self, x):
        if x in self:
            self.remove(x)

    def __iter__(self):
        return iter(list(self._order))


class Obs(resource.ObservableResource):
    render_delay = 0.0

    def __init__(self):
        super().__init__()
        if type(self._observations) is set:
            # (only the iteration order of the library's own plain set is taken over; any other container is left alone)
            self._observations = InsertionOrderedSet()
        self.version = 0
        self.renders = 0
        self.counts = []
        self.cancels = {}     # registration serial -> number of cancellation callbacks
        self.serial = 0

    def update_observation_count(self, n):
        self.counts.append(n)

    async def add_observation(self, request, serverobservation):
        await super().add_observation(request, serverobservation)
        self.serial += 1
        s = self.serial
        self.cancels[s] = 0
        inner = serverobservation._cancellation_callback

        def cb():
            self.cancels[s] += 1
            inner()
        serverobservation.accept(cb)
        serverobservation._verif_serial = s

    sample_early = False

    async def render_get(self, request):
        self.renders += 1
        v = self.version       # (sample_early: the state is read before the render yields, so a change during the render is not in it)
        if self.render_delay:
            await asyncio.sleep(self.render_delay)     # a render that yields: state changes can land in the middle of it
        m = Message(payload=b"v%dr%d" % (v if self.sample_early else self.version, self.renders))
        if self.version in self.non_versions:
            import aiocoap
            m.transport_tuning = aiocoap.Unreliable      # this state is announced non-confirmably, whatever the registration's request was
        return m

    non_versions = ()


class Observer(Peer):
    """Raw observer: reacts to notifications as told (ack / rst / silent)."""

    def __init__(self, name, ip, port, token):
        super().__init__(name, ip, port)
        self.token = token
        self.variant = None
        self.got = []

    def wants_variant(self, dg, var):
        d = dg.data
        return len(d) > 4 and d[1] >= 64 and (d[0] >> 4) & 3 in (rc.CON, rc.NON) and (var not in ("silent", "rstchg") or (d[0] >> 4) & 3 == rc.CON)

    def on_message(self, src, msg, dg):
        mtype, code, mid, token, options, payload = msg
        if code < 64:
            return
        self.got.append(msg)
        react = self.variant or ("silent" if getattr(self, "deaf", False) else "ack")
        if react in ("rst", "rstchg"):
            self.send(src, (rc.RST, 0, mid, b"", [], b""))
            if react == "rstchg":
                # ... and the resource's state changes in the very loop pass in which the server reads this Reset
                rst = rc.encode((rc.RST, 0, mid, b"", [], b""))
                self.world.same_pass.append((lambda dg, rst=rst, me=self.addr: dg.src == me and dg.data == rst, self.on_rstchg))
        elif react == "ack" and mtype == rc.CON:
            self.send(src, (rc.ACK, 0, mid, b"", [], b""))

    def state(self):
        return (self.name, len(self.got), self.next_mid)


class Reg:
    """One registration as the monitor sees it."""

    def __init__(self, obs, token, serial, t, idx0):
        self.obs, self.token, self.serial, self.t0, self.idx0 = obs, token, serial, t, idx0
        self.ended = None        # (reason, time, index into world.sent)
        self.count_before = None


class ObsScenario(NetScenario):
    names = {SRV: "srv", O1: "O1", O2: "O2"}
    menu = ("drop", "dup", "early")
    deliver_variants = {"O1": ["rst", "silent", "rstchg"], "O2": ["rst"]}
    horizon = 420.0
    max_steps = 140

    def __init__(self, name, K):
        self.name = name
        self.K = K
        self.params = {"scenario": name}

    def build(self, st):
        # S-OBS-midcollide: the server's own message-ID counter starts at the ID of O1's registration request, so that its first CON
        # notification carries the very ID the observer used (the two directions have separate ID spaces)
        w = st.world = World(mid0=0x1101) if self.name == "S-OBS-midcollide" else World()
        st.res = Obs()
        site = resource.Site()
        site.add_resource(["obs"], st.res)
        st.srv = w.add_context("srv", *SRV, site=site)
        st.o1 = w.add_peer(Observer("O1", *O1, token=b"\xa1"))
        st.o2 = w.add_peer(Observer("O2", *O2, token=b"\xa1" if self.name == "S-OBS-sametoken" else b"\xb2"))
        st.o1.on_rstchg = lambda: self.change(st)
        st.regs = []
        st.reported = set()
        st.acked = set()
        st.terminal = False
        st.mid = {O1: 0x1100, O2: 0x2200}
        st.used = set()
        st.shut = False
        n = self.name
        if n in ("S-OBS-slowrender", "S-OBS-slowrender-two", "S-OBS-earlysample"):
            st.res.render_delay = 0.1
        if n == "S-OBS-mixed":
            # three changes and the deregistration before anything else gets through: a confirmable notification on the wire, one held
            # back behind it, a non-confirmable one (sent at once), then the end - what was held back is not sent afterwards
            st.res.non_versions = (3,)
            st.script.append(("register O1 CON", lambda st: self.register(st, st.o1, True)))

            def burst(st):
                for i in range(3):
                    self.change(st)
                    st.world.loop.settle()
                self.apply_fault(st, "dereg:O1")
            st.script.append(("three changes and a deregistration at once", burst))
            return
        if n == "S-OBS-earlysample":
            # the only change there is lands while the first response is being rendered, after the render has read the state
            st.res.sample_early = True
            st.script.append(("register O1 CON", lambda st: self.register(st, st.o1, True)))
            st.script.append(("change", lambda st: self.change(st)))
            return
        if n == "S-OBS-twotokens-deaf":
            # an observer with two registrations that never acknowledges a notification: the first notification is given up after
            # MAX_TRANSMIT_WAIT - and a registration that is still alive afterwards still gets the latest state
            st.o1.deaf = True
            st.disturbed = True      # (what is sent to an observer that never acknowledges anything waits, and goes down with the give-up)
        if n in ("S-OBS-con", "S-OBS-two", "S-OBS-slowrender", "S-OBS-slowrender-two", "S-OBS-twotokens", "S-OBS-twotokens-deaf", "S-OBS-sametoken", "S-OBS-midcollide"):
            st.script.append(("register O1 CON", lambda st: self.register(st, st.o1, True)))
        if n in ("S-OBS-twotokens", "S-OBS-twotokens-deaf"):
            st.script.append(("register O1 CON token2", lambda st: self.register(st, st.o1, True, b"\xa2")))
        if n in ("S-OBS-non", "S-OBS-two", "S-OBS-sametoken"):
            st.script.append(("register O2 NON", lambda st: self.register(st, st.o2, False)))
        if n == "S-OBS-slowrender-two":
            # exactly one change arrives while the re-rendering for the one before it is under way (and none after it)
            def passes(dt):
                def fn(st):
                    end = st.world.loop.time() + dt
                    while True:
                        for dg in list(st.world.pool):
                            self.before_deliver(st, dg)
                            st.world.deliver(dg)
                            self.after_deliver(st, dg)
                        tn = st.world.loop.next_timer()
                        if tn is None or tn > end:
                            break
                        st.world.loop.fire_next_timer()
                    st.world.loop.advance_to(end)
                return fn
            st.script.append(("0.15 s pass", passes(0.15)))
            st.script.append(("change", lambda st: self.change(st)))
            st.script.append(("0.05 s pass", passes(0.05)))
            st.script.append(("change", lambda st: self.change(st)))
            return
        for i in range(3 if n not in ("S-OBS-two", "S-OBS-twotokens", "S-OBS-twotokens-deaf", "S-OBS-sametoken", "S-OBS-slowrender-two") else 2):
            st.script.append(("change", lambda st: self.change(st)))

    def nextmid(self, st, obs):
        st.mid[obs.addr] += 1
        return st.mid[obs.addr]

    def live(self, st, obs=None, token=None):
        return [r for r in st.regs if r.ended is None and (obs is None or r.obs is obs) and (token is None or r.token == token)]

    def register(self, st, obs, con, token=None):
        w = st.world
        token = token or obs.token
        before = len(st.res._observations)
        old = self.live(st, obs, token)
        serial0 = st.res.serial
        idx0 = len(w.sent)
        w.inject(obs.addr, SRV, rc.encode((rc.CON if con else rc.NON, 1, self.nextmid(st, obs), token, [(6, b""), (11, b"obs")], b"")))
        for r in old:
            self.end(st, r, "re-registration", weak=True)
        if st.res.serial == serial0 + 1:
            r = Reg(obs, token, st.res.serial, w.loop.time(), idx0)
            r.count_before = before - len(old)
            st.regs.append(r)
        elif not st.shut:
            st.violations.append(Violation("registration-not-accepted", "resource asked to add an observation", "not asked",
                                           "interfaces.py:ObservableResource._render_to_pipe", {}, key="noreg"))

    def change(self, st):
        st._idx_before = None
        if st.terminal:
            return      # the application has announced the end; it does not trigger again on top of that
        st.res.version += 1
        st.last_change = st.world.loop.time()
        st.res.updated_state()

    def end(self, st, r, reason, weak=False):
        if r.ended is None:
            # what counts as "sent after the end" is measured from before the ending event was processed: a notification
            # released by that very event (for example out of the NSTART backlog) is already one too many
            idx = getattr(st, "_idx_before", None)
            r.ended = (reason, st.world.loop.time(), len(st.world.sent) if idx is None else idx, weak)

    # -- fault menu
    def faults(self, st):
        if st.shut:
            return []
        out = []
        for r in self.live(st):
            nm = r.obs.name
            if r.token != r.obs.token:
                continue
            for k in ("rereg", "plain", "dereg", "icmp"):
                if (k, nm) not in st.used:
                    out.append(("%s:%s" % (k, nm), 1))
        if self.live(st):
            for k in ("trigger-error", "trigger-last"):
                if k not in st.used:
                    out.append((k, 1))
            out.append(("shutdown", 1))
        return out

    def before_deliver(self, st, dg):
        st._idx_before = len(st.world.sent)

    def before_timer(self, st):
        st._idx_before = None

    def apply_fault(self, st, label):
        w = st.world
        st._idx_before = len(w.sent)
        kind, _, nm = label.partition(":")
        obs = {"O1": st.o1, "O2": st.o2}.get(nm)
        st.used.add((kind, nm) if nm else kind)
        if kind == "rereg":
            self.register(st, obs, True)
        elif kind == "plain":
            live = self.live(st, obs, obs.token)
            w.inject(obs.addr, SRV, rc.encode((rc.CON, 1, self.nextmid(st, obs), obs.token, [(11, b"obs")], b"")))
            for r in live:
                self.end(st, r, "new request on the token")
        elif kind == "dereg":
            live = self.live(st, obs, obs.token)
            w.inject(obs.addr, SRV, rc.encode((rc.CON, 1, self.nextmid(st, obs), obs.token, [(6, b"\x01"), (11, b"obs")], b"")))
            for r in live:
                self.end(st, r, "deregistration")
        elif kind == "icmp":
            live = self.live(st, obs)
            st.srv.receive_error(obs.addr, errno.EHOSTUNREACH)
            w.loop.settle()
            for r in live:
                self.end(st, r, "transport error")
        elif kind == "trigger-error":
            st.terminal = True
            live = self.live(st)
            st.final_from = ("error", len(w.sent))
            st.finals = getattr(st, "finals", {})
            st.finals["unsuccessful notification"] = st.final_from
            st.res.updated_state(Message(code=codes.INTERNAL_SERVER_ERROR, payload=b"gone"))
            w.loop.settle()
            for r in live:
                self.end(st, r, "unsuccessful notification", weak=True)
        elif kind == "trigger-last":
            # (a "last" mark is sticky: plain triggers that follow and get coalesced with it do not undo it)
            live = self.live(st)
            st.final_from = ("last", len(w.sent))
            st.finals = getattr(st, "finals", {})
            st.finals["last notification"] = st.final_from
            obsv = st.res._observations
            for o in (list(obsv.values()) if isinstance(obsv, dict) else list(obsv)):
                o.trigger(None, is_last=True)
            w.loop.settle()
            for r in live:
                self.end(st, r, "last notification", weak=True)
        elif kind == "shutdown":
            live = self.live(st)
            st.shut = True
            st.shutdown_task = w.loop.create_task(st.srv.ctx.shutdown())
            w.loop.settle()
            w.loop.advance(3.5)
            for r in live:
                self.end(st, r, "shutdown")

    # -- reactions of observers end registrations
    def after_deliver(self, st, dg):
        w = st.world
        node = w.nodes.get(dg.dst)
        if dg.dst != SRV:
            return
        d = dg.data
        mtype = (d[0] >> 4) & 3
        mid = (d[2] << 8) | d[3]
        if mtype == rc.ACK:
            st.acked.add((dg.src, mid))
        if mtype == rc.RST and (dg.src, mid) not in st.acked:
            # (a RST after an ACK for the same message ID is a contradictory answer: don't-care)
            # which notification was that?  (a RST ends the registration the notification belonged to)
            for i, s in enumerate(w.sent):
                if s.src == SRV and s.dst == dg.src and len(s.data) > 4 and ((s.data[2] << 8) | s.data[3]) == mid and s.data[1] >= 64:
                    m = rc.decode(s.data)
                    if rc.opt(m[4], 6) is not None:
                        for r in self.live(st):
                            later = [x.idx0 for x in st.regs if x.obs is r.obs and x.token == r.token and x.serial > r.serial]
                            if r.obs.addr == dg.src and r.token == m[3] and r.idx0 <= i and not later:
                                self.end(st, r, "RST to %s notification" % ("CON" if m[0] == rc.CON else "NON"))
                    break

    def after_timer(self, st):
        # a CON notification that ran out of retransmissions ends the registration: recognised by the exchange going away
        for r in self.live(st):
            if r.obs.name == "O1" and not st.srv.tman.incoming_requests:
                pass

    def notifications(self, st, r, upto=None):
        """First transmissions of notifications of registration r (distinct message IDs), in wire order."""
        out = []
        later = [x.idx0 for x in st.regs if x.obs is r.obs and x.token == r.token and x.serial > r.serial]
        hi = min(later) if later else 1 << 60
        first = {}
        for i, s in enumerate(st.world.sent):
            if s.src == SRV:
                first.setdefault((s.dst, s.data), i)
        for i, s in enumerate(st.world.sent):
            if s.src != SRV or s.dst != r.obs.addr or i < r.idx0 or i >= hi:
                continue
            if first[(s.dst, s.data)] != i:
                continue     # a retransmission (byte-identical copy of an earlier datagram)
            m = rc.decode(s.data)
            if m[3] != r.token or m[1] < 64 or rc.opt(m[4], 6) is None:
                continue
            out.append((i, s.t, m))
        return out

    def violate(self, st, r, v):
        k = (r.serial, v["clause"])
        if k not in st.reported:
            st.reported.add(k)
            st.violations.append(v)

    def on_step(self, st, label):
        if "/silent" in label or "/rst" in label or label.split(":")[0] in ("icmp", "shutdown", "dereg", "plain", "rereg"):
            st.disturbed = True      # the observer (or the application) ended things its own way
        # which observers have given the server a reason to give up on them (silence, a transport error; a Reset ends things explicitly)
        st.excused = getattr(st, "excused", set())
        if "/silent" in label or "/rst" in label:
            st.excused.add(label.split(":", 1)[1].split("<")[0])
        if label.split(":")[0] == "icmp":
            st.excused.add(label.split(":")[1])
        if label.split(":")[0] == "shutdown":
            st.excused.update(("O1", "O2"))
        if getattr(st.o1, "deaf", False):
            st.excused.add("O1")
        # timeouts: the monitor learns them from the token manager dropping the request of a silent observer
        for r in self.live(st):
            tm = st.srv.tman
            if tm.incoming_requests is not None and not any(tok == r.token and rem.sockaddr[:2] == r.obs.addr for (tok, rem) in tm.incoming_requests):
                if r.ended is None:
                    if r.obs.name not in st.excused:
                        # nothing happened between the server and this observer that would end a registration: what happens to
                        # another endpoint's exchanges is not its business
                        self.violate(st, r, Violation("registration-dropped-without-cause", "the registration of %s goes on" % r.obs.name,
                                                       "its request state is gone", "tokenmanager.py:dispatch_error", {}, key="dropped:" + r.obs.name))
                    self.end(st, r, "request state gone (time-out)", weak=True)
        for r in st.regs:
            notes = self.notifications(st, r)
            nums = [int.from_bytes(rc.opt(m[4], 6), "big") for (_, _, m) in notes]
            # within one registration: the next registration on this token starts a new series
            later = [x for x in st.regs if x.obs is r.obs and x.token == r.token and x.serial > r.serial]
            if any(b <= a for a, b in zip(nums, nums[1:])):
                self.violate(st, r, Violation("observe-not-increasing", "strictly increasing Observe values", nums,
                                               "interfaces.py:ObservableResource._render_to_pipe", {}, key="observe"))
            if r.ended is not None:
                reason, t, idx, weak = r.ended
                n = st.res.cancels.get(r.serial, 0)
                deferred = reason in ("unsuccessful notification", "last notification") and label != "finish"
                if n != 1 and not deferred:
                    self.violate(st, r, Violation("cancellation-callback-count", 1, n, "interfaces.py:ObservableResource._render_to_pipe", {},
                                                   key="%s:%d" % (reason, min(n, 2))))
                if not weak and not later:
                    late = [(i, m) for (i, tt, m) in notes if i >= idx]
                    if late:
                        self.violate(st, r, Violation("notification-after-end", "no further notification after: " + reason,
                                                       [rc.describe(m) for i, m in late], "messagemanager.py", {}, key=reason))

    def finish(self, st):
        w = st.world
        self.on_step(st, "finish")
        for r in st.regs:
            notes = self.notifications(st, r)
            if r.ended is None and not st.horizon_hit:
                # eventually a notification rendered at or after the last change
                if notes and st.res.version > 0:
                    last = notes[-1][2][5]
                    v = int(last[1:last.index(b"r")])
                    if v != st.res.version:
                        st.violations.append(Violation("latest-state-not-sent", "v%d" % st.res.version, last.decode(),
                                                       "interfaces.py:ObservableResource._render_to_pipe", {}, key="stale"))
        # the notification that ends a registration (the unsuccessful one, the one marked last) is itself sent - also when it had
        # to wait for the acknowledgement of the notification before it
        fin = getattr(st, "final_from", None)
        if fin is not None and not getattr(st, "disturbed", False) and not st.horizon_hit:
            for r in st.regs:
                if r.ended is None or r.ended[0] not in ("unsuccessful notification", "last notification"):
                    continue
                # (each registration is judged by the trigger that ended it - there can be one of either kind in a run)
                fin = getattr(st, "finals", {}).get(r.ended[0], fin)
                got = []
                seen = set()
                for i, sdg in enumerate(w.sent):
                    if sdg.src == SRV and sdg.dst == r.obs.addr and sdg.data not in seen:
                        seen.add(sdg.data)
                        m = rc.decode(sdg.data)
                        if i >= fin[1] and m[3] == r.token and m[1] >= 64 and (fin[0] == "last" or m[1] >= 128):
                            got.append(m)
                if not got:
                    st.violations.append(Violation("final-notification-not-sent", "the %s notification reaches the observer" % fin[0],
                                                   "nothing sent on the token after the trigger", "tokenmanager.py:process_request", {}, key="final-" + fin[0]))
        alive = [r for r in st.regs if r.ended is None]
        stuck = [r for r in st.regs if r.ended is not None and st.res.cancels.get(r.serial, 0) == 0]
        n = len(st.res._observations)
        if n != len(alive):
            why = stuck[0].ended[0] if (stuck and n == len(alive) + len(stuck)) else "unexplained"
            st.violations.append(Violation("observer-count", len(alive), n, "resource.py:ObservableResource", {}, key=why))
        if st.res.counts and st.res.counts[-1] != len(alive):
            why = stuck[0].ended[0] if (stuck and st.res.counts[-1] == len(alive) + len(stuck)) else "unexplained"
            st.violations.append(Violation("observation-count-callback", len(alive), st.res.counts[-1], "resource.py:ObservableResource", {}, key=why))
        for msg, e in w.loop_exceptions():
            st.violations.append(Violation("loop-exception", "none", core.exc_desc(e) if e else msg, core.site_of(e) if e else "loop", {},
                                           key=type(e).__name__ if e else msg[:40]))

    def outcome(self, st):
        return tuple((r.obs.name, r.ended[0] if r.ended else None, len(self.notifications(st, r))) for r in st.regs) + (st.res.version,)


def run(tier, seed, jobs):
    names = ["S-OBS-con", "S-OBS-non", "S-OBS-two", "S-OBS-slowrender", "S-OBS-twotokens", "S-OBS-sametoken", "S-OBS-midcollide", "S-OBS-twotokens-deaf", "S-OBS-slowrender-two", "S-OBS-earlysample", "S-OBS-mixed"]
    K = 1 if tier == "quick" else 2
    res = explore_schedules([ObsScenario(n, K) for n in names], K, jobs)
    if tier == "quick":
        res.merge(explore_schedules([ObsScenario("S-OBS-con", 2)], 2, jobs, cap=30000))
    else:
        res.merge(explore_schedules([ObsScenario(n, 3) for n in ("S-OBS-con", "S-OBS-non", "S-OBS-slowrender", "S-OBS-twotokens")], 3, jobs, cap=15000))
    return res


def replay(case, scenario, seed):
    return replay_schedule(ObsScenario(case["scenario"], 9), case["choices"])
