"""Seam 2: requests pushed straight into Context.render_to_pipe (token-manager / site boundary, no transport)."""

import gc
import logging
import socket

from .vloop import VLoop

from aiocoap import Context, Message
from aiocoap.message import Direction
from aiocoap.pipe import Pipe
from aiocoap.transports.udp6 import UDP6EndpointAddress, _in6_pktinfo


class _Iface:
    def _local_port(self):
        return 5683


IFACE = _Iface()
LOCAL = _in6_pktinfo.pack(socket.inet_pton(socket.AF_INET6, "2001:db8::5"), 0)


def endpoint(i, port=40000):
    return UDP6EndpointAddress(("2001:db8::%x" % i, port, 0, 0), IFACE, pktinfo=LOCAL)


class SiteWorld:
    """A Context with a site on a virtual loop; do() renders one request to completion."""

    def __init__(self, site_factory):
        gc.disable()
        self.loop = VLoop()
        from .world import LogCollector
        self.logs = LogCollector()
        lg = logging.getLogger("coap")
        for h in list(lg.handlers):
            if isinstance(h, LogCollector):
                lg.removeHandler(h)
        lg.addHandler(self.logs)
        lg.propagate = False
        self.ctx = Context(loop=self.loop, serversite=None)
        self.site = site_factory(self)
        self.ctx.serversite = self.site
        self.trace = []

    def activate(self):
        """Several worlds may be alive in one thread: make this one's loop the running loop."""
        from asyncio import events
        if events._get_running_loop() is not self.loop:
            events._set_running_loop(None)
            events._set_running_loop(self.loop)

    def do(self, msg, ep=1, settle_timers_until=None):
        self.activate()
        msg.direction = Direction.INCOMING
        if msg.remote is None:
            msg.remote = endpoint(ep) if isinstance(ep, int) else ep
        evs = []
        p = Pipe(msg, self.ctx.log)
        p.on_event(lambda ev: (evs.append(ev), True)[1])
        self.ctx.render_to_pipe(p)
        self.loop.settle()
        if settle_timers_until is not None:
            while not evs and self.loop.next_timer() is not None and self.loop.next_timer() <= settle_timers_until:
                self.loop.fire_next_timer()
        if not evs:
            return None
        return evs[0].message if evs[0].message is not None else evs[0].exception

    def do_many(self, msgs, eps):
        """Several requests handed to the site in one loop pass (their handlers interleave wherever they suspend);
        the first event of each, in the order of the requests."""
        self.activate()
        boxes = []
        for msg, ep in zip(msgs, eps):
            msg.direction = Direction.INCOMING
            if msg.remote is None:
                msg.remote = endpoint(ep) if isinstance(ep, int) else ep
            evs = []
            p = Pipe(msg, self.ctx.log)
            p.on_event(lambda ev, evs=evs: (evs.append(ev), True)[1])
            self.ctx.render_to_pipe(p)
            boxes.append(evs)
        self.loop.settle()
        return [None if not evs else (evs[0].message if evs[0].message is not None else evs[0].exception) for evs in boxes]

    def advance(self, dt):
        self.loop.advance(dt)

    def loop_exceptions(self):
        gc.collect()
        return [(c.get("message", ""), c.get("exception")) for c in self.loop.exc]

    def dispose(self):
        self.loop.dispose()
        gc.enable()
