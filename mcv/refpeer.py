"""Scripted reference peers beyond the plain RefServer: a strict RFC 7959 block-wise server and an RFC 7641
notifier.  They speak refcodec tuples only and never import aiocoap."""

from . import refcodec as rc
from .world import Peer


class RefBlockServer(Peer):
    """Strict RFC 7959 server for one resource.

    Block1: reassembles, checking NUM*size == offset, full blocks while M=1, SZX never growing; answers 2.31 with its
    own (possibly smaller) SZX.  Block2: serves slices of `representation` under an ETag.  Every rule a conforming
    client can break is recorded in `violations`.  `misbehave` = (kind, at_block) makes the *server* break a rule.
    """

    def __init__(self, name, ip, port=5683, representation=b"", szx=6, reduce_at=None, reduce_to=None, misbehave=None,
                 etag=b"E1", lenient_fetch=True):
        super().__init__(name, ip, port)
        self.rep = representation
        self.szx = szx
        self.reduce_at, self.reduce_to = reduce_at, reduce_to
        self.misbehave = misbehave
        self.changed_served = False      # a block of the changed representation (b2-etag*) was really served
        self.etag = etag
        self.asm = {}            # src -> dict(body, szx)
        self.bodies = []         # completed request bodies (src, method, body)
        self.violations = []     # what the *client* did wrong on the wire
        self.seen = {}
        self.b2szx = {}          # src -> szx used in the first Block2 response
        self.first_opts = {}     # src -> options of the request that opened the Block2 transfer (Block1/Block2/Size1/Size2 aside)
        self.log = []
        self.size1 = []

    def viol(self, what, msg):
        self.violations.append((what, rc.describe(msg)))

    def reply(self, src, req, code, options, payload):
        mtype, rcode, mid, token = req[0], req[1], req[2], req[3]
        options = rc.sorted_options(options)
        if mtype == rc.CON:
            m = (rc.ACK, code, mid, token, options, payload)
        else:
            m = (rc.NON, code, self.mid(), token, options, payload)
        self.seen[(src, mid)] = m
        self.send(src, m)

    def on_message(self, src, msg, dg):
        mtype, code, mid, token, options, payload = msg
        if mtype in (rc.ACK, rc.RST) or not (1 <= code < 32):
            return
        if (src, mid) in self.seen:
            self.send(src, self.seen[(src, mid)])
            return
        b1 = rc.opt(options, 27)
        b2 = rc.opt(options, 23)
        s1 = rc.opt(options, 60)
        ropts = []
        if b1 is not None:
            num, m, szx = rc.unblock(b1)
            if szx == 7:
                self.viol("BERT size on UDP", msg)
                return self.reply(src, msg, 128, [], b"")
            size = 1 << (szx + 4)
            if num == 0:
                self.asm[src] = {"body": b"", "szx": szx}
                if s1 is not None:
                    self.size1.append(int.from_bytes(s1, "big"))
            a = self.asm.get(src)
            if a is None:
                self.viol("Block1 continuation without a transfer", msg)
                return self.reply(src, msg, 136, [], b"")
            if szx > a["szx"]:
                self.viol("Block1 SZX grew", msg)
            if num * size != len(a["body"]):
                self.viol("Block1 offset %d not contiguous with %d" % (num * size, len(a["body"])), msg)
                return self.reply(src, msg, 136, [], b"")
            if m and len(payload) != size:
                self.viol("Block1 M=1 with %d bytes in a %d block" % (len(payload), size), msg)
                return self.reply(src, msg, 128, [], b"")
            if not m and len(payload) > size:
                self.viol("Block1 final block longer than its size", msg)
                return self.reply(src, msg, 128, [], b"")
            if not m and num > 0 and len(payload) == 0:
                self.viol("Block1 empty final block", msg)
            a["body"] += payload
            nblk = num
            rszx = min(szx, self.szx)
            if self.misbehave and self.misbehave[0] == "ok-own-szx" and num >= self.misbehave[1]:
                # legal (RFC 7959 section 2.5): the server states its own preference even where it is larger than the size in use;
                # the client has to carry on with its (smaller) size - the exponent on the wire never grows
                rszx = self.szx
            if self.reduce_at is not None and nblk >= self.reduce_at and self.reduce_to < rszx:
                rszx = self.reduce_to
            a["szx"] = min(a["szx"], rszx) if m else a["szx"]
            if m:
                rnum = num
                if self.misbehave and self.misbehave[0] == "b1-wrong-num" and self.misbehave[1] == num:
                    rnum = num + 1
                if self.misbehave and self.misbehave[0] == "b1-lower-num" and self.misbehave[1] == num and num > 0:
                    rnum = num - 1 if self.misbehave[1] % 2 else 0      # "still at the block before" / "always block 0"
                if self.misbehave and self.misbehave[0] == "ok-stateless" and num >= self.misbehave[1]:
                    # legal (RFC 7959 section 2.5): a server that handles every block on its own acknowledges with the final code
                    # and M=0; the client goes on sending the rest
                    return self.reply(src, msg, 68, [(27, rc.block(num, 0, rszx))], b"")
                return self.reply(src, msg, 95, [(27, rc.block(rnum, 1, rszx))], b"")
            body = a["body"]
            del self.asm[src]
            self.bodies.append((src, code, body))
            mflag = 1 if (self.misbehave and self.misbehave[0] == "b1-more-on-final") else 0
            fnum = num
            if self.misbehave and self.misbehave[0] == "b1-wrong-num" and self.misbehave[1] == num and num > 0:
                fnum = 0       # e.g. a server that lost its state and acknowledges "block 0, no more" with a success code
            ropts.append((27, rc.block(fnum, mflag, rszx)))
            if mflag:
                return self.reply(src, msg, 68, ropts, b"")
            if self.misbehave and self.misbehave[0] == "b1-continue-on-final":
                return self.reply(src, msg, 95, ropts, b"")
        else:
            if payload or code in (2, 3):
                if b2 is None or rc.unblock(b2)[0] == 0:
                    self.bodies.append((src, code, payload))
        # ---- the response side (Block2)
        rcode = 69 if code in (1, 5) else 68
        rep = self.rep
        plain = sorted((n, v) for n, v in options if n not in (23, 27, 60, 28))
        if b2 is None or rc.unblock(b2)[0] == 0:
            self.first_opts[src] = plain
        elif src in self.first_opts and plain != self.first_opts[src]:
            # RFC 7959 section 2.7 / 3: the requests for the further blocks are the same request (same options: they form the cache key)
            self.viol("Block2 follow-up is not the same request: options %r instead of %r" % (plain, self.first_opts[src]), msg)
        if b2 is not None:
            num, _, szx = rc.unblock(b2)
            if szx == 7:
                self.viol("BERT size on UDP", msg)
                return self.reply(src, msg, 128, [], b"")
            if num == 0:
                szx = min(szx, self.szx)
                self.b2szx[src] = szx
            else:
                first = self.b2szx.get(src)
                if first is not None and szx > first:
                    self.viol("Block2 SZX grew", msg)
                if payload and code != 5:
                    self.viol("Block2 follow-up carries a payload", msg)
                if b1 is not None:
                    self.viol("Block2 follow-up carries Block1", msg)
        else:
            num, szx = 0, self.szx
            self.b2szx[src] = szx
        size = 1 << (szx + 4)
        if b2 is None and len(rep) <= size:
            return self.reply(src, msg, rcode, ropts + ([(4, self.etag)] if rep else []), rep)
        if num * size >= len(rep) and not (num == 0 and not rep):
            return self.reply(src, msg, 128, ropts, b"")
        etag = self.etag
        mb = self.misbehave
        if mb and mb[0] == "b2-etag-dropped" and num >= mb[1]:
            # the representation changed and the server stopped sending an ETag
            rep = bytes((b ^ 0x3C) for b in rep)
            etag = None
            self.changed_served = True
        if mb and mb[0] == "b2-etag" and num >= mb[1]:
            # the representation really changed: other bytes under another ETag from this block on
            rep = bytes((b ^ 0x5A) for b in rep)
            etag = b"E2"
            self.changed_served = True
        if mb and mb[0] in ("b2-408-midway", "b2-503-midway", "b2-plain-midway") and num == mb[1] and num >= 1:
            # a later block is refused (state expired, service unavailable) or answered by a response without a Block2 option
            if mb[0] == "b2-plain-midway":
                return self.reply(src, msg, rcode, ropts, b"plain")
            return self.reply(src, msg, 136 if mb[0] == "b2-408-midway" else 163, ropts, b"")
        chunk = rep[num * size:(num + 1) * size]
        more = (num + 1) * size < len(rep)
        rnum = num
        if mb and mb[1] == num:
            if mb[0] == "b2-short" and more:
                chunk = chunk[:-1]
            elif mb[0] == "b2-empty" and more:
                chunk = b""          # "more to come", but not a single byte in this block
            elif mb[0] == "b2-skip":
                rnum = num + 1
                chunk = rep[rnum * size:(rnum + 1) * size]
                more = (rnum + 1) * size < len(rep)
            elif mb[0] == "b2-stale" and num > 0:
                rnum = num - 1
                chunk = rep[rnum * size:(rnum + 1) * size]
                more = True
            elif mb[0] == "b2-more-past-end" and not more:
                more = True
        return self.reply(src, msg, rcode, ropts + ([(4, etag)] if etag is not None else []) + [(23, rc.block(rnum, more, szx))], chunk)

    def state(self):
        return (self.name, len(self.received), sorted((k, len(v["body"])) for k, v in self.asm.items()), len(self.bodies))


class Notifier(Peer):
    """RFC 7641 server side for one observation: answers the registration, then emits what it is told to."""

    def __init__(self, name, ip, port=5683):
        super().__init__(name, ip, port)
        self.reg = None           # (src, token, request mid, con?)
        self.acks = []
        self.rsts = []
        self.requests = []

    def on_message(self, src, msg, dg):
        mtype, code, mid, token, options, payload = msg
        if mtype == rc.ACK:
            self.acks.append(mid)
            return
        if mtype == rc.RST:
            self.rsts.append(mid)
            return
        if 1 <= code < 32:
            self.requests.append((src, msg))
            if self.reg is None:
                self.reg = (src, token, mid, mtype == rc.CON)

    def first_response(self, observe, payload=b"v0", code=69, extra=()):
        if self.reg is None:
            return None
        src, token, mid, con = self.reg
        opts = list(extra)
        if observe is not None:
            opts.append((6, rc.uint(observe)))
        m = (rc.ACK if con else rc.NON, code, mid if con else self.mid(), token, rc.sorted_options(opts), payload)
        return self.send(src, m)

    def notify(self, observe, payload, con=False, code=69, extra=(), token=None):
        if self.reg is None:
            return None
        src, tok, _, _ = self.reg
        opts = list(extra)
        if observe is not None:
            opts.append((6, rc.uint(observe)))
        mid = self.mid()
        self.send(src, (rc.CON if con else rc.NON, code, mid, tok if token is None else token, rc.sorted_options(opts), payload))
        return mid

    def state(self):
        return (self.name, len(self.received), len(self.acks), len(self.rsts))
