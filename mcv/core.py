"""Shared machinery: violation records, result accumulation, process pool, evidence, known findings."""

import hashlib
import json
import multiprocessing as mp
import os
import sys
import time
import traceback

VERIF = os.path.dirname(os.path.dirname(os.path.abspath(__file__)))


def jsonable(x):
    if isinstance(x, (bytes, bytearray)):
        return {"hex": bytes(x).hex()}
    if isinstance(x, dict):
        return {str(k): jsonable(v) for k, v in x.items()}
    if isinstance(x, (list, tuple, set, frozenset)):
        return [jsonable(v) for v in x]
    if isinstance(x, (str, int, float, bool)) or x is None:
        return x
    return repr(x)


def unjson(x):
    if isinstance(x, dict):
        if set(x) == {"hex"}:
            return bytes.fromhex(x["hex"])
        return {k: unjson(v) for k, v in x.items()}
    if isinstance(x, list):
        return [unjson(v) for v in x]
    return x


def digest(x):
    return hashlib.blake2b(repr(x).encode(), digest_size=8).hexdigest()


def site_of(exc):
    """Innermost aiocoap frame of an exception's traceback: the 'site' of a finding."""
    tb = exc.__traceback__
    site = None
    while tb is not None:
        fn = tb.tb_frame.f_code.co_filename
        if "/aiocoap/" in fn:
            site = "%s:%s" % (fn.split("/aiocoap/", 1)[1], tb.tb_frame.f_code.co_name)
        tb = tb.tb_next
    return site or "outside-aiocoap"


def exc_desc(exc):
    return "%s: %s" % (type(exc).__name__, str(exc)[:120])


class Violation(dict):
    """clause, expected, observed, site: the signature (matched against known findings);
    case: the JSON-able input / choice list that replays it; trace: human readable steps."""

    def __init__(self, clause, expected, observed, site, case, trace=None, scenario=None, key=None):
        super().__init__(clause=clause, expected=jsonable(expected), observed=jsonable(observed), site=site,
                         case=jsonable(case), trace=trace or [], scenario=scenario,
                         key=key if key is not None else json.dumps(jsonable(observed), sort_keys=True)[:120])

    @property
    def sig(self):
        return (self["clause"], self["site"], self["key"])


class Result:
    """Accumulates what one check run covered.  Mergeable (workers return one each)."""

    def __init__(self):
        self.evaluations = 0
        self.signatures = set()      # distinct non-trivial cases (hashable signatures or digests)
        self.states = set()          # digests of distinct states seen
        self.transitions = 0
        self.traces = 0              # executions of the real implementation compared with the model
        self.samples = []
        self.violations = {}         # sig -> (Violation, count)
        self.scenarios = {}          # name -> dict of per-scenario numbers
        self.outcomes = set()        # distinct observable outcomes (vacuity guard)
        self.caps = []
        self.notes = []
        self.unreproduced = []       # in-process violations that no execution in a fresh process reproduces (fault unless violations are shown)

    def sample(self, s, cap=6):
        if len(self.samples) < cap:
            self.samples.append(jsonable(s))

    def violate(self, v, cap_per_sig=1):
        sig = v.sig
        if sig in self.violations:
            old, n = self.violations[sig]
            self.violations[sig] = (old, n + 1)
        else:
            self.violations[sig] = (v, 1)

    def merge(self, other):
        self.evaluations += other.evaluations
        self.signatures |= other.signatures
        self.states |= other.states
        self.transitions += other.transitions
        self.traces += other.traces
        for s in other.samples:
            if len(self.samples) < 8:
                self.samples.append(s)
        for sig, (v, n) in other.violations.items():
            if sig in self.violations:
                old, m = self.violations[sig]
                self.violations[sig] = (old, m + n)
            else:
                self.violations[sig] = (v, n)
        for k, d in other.scenarios.items():
            if k in self.scenarios:
                for kk, vv in d.items():
                    if isinstance(vv, (int, float)) and not isinstance(vv, bool) and kk not in ("K", "bound", "depth"):
                        self.scenarios[k][kk] = self.scenarios[k].get(kk, 0) + vv
                    else:
                        self.scenarios[k][kk] = vv
            else:
                self.scenarios[k] = dict(d)
        self.outcomes |= other.outcomes
        self.caps += other.caps
        self.notes += [n for n in other.notes if n not in self.notes]
        self.unreproduced += [u for u in getattr(other, "unreproduced", []) if u not in self.unreproduced][:3]
        return self


# ------------------------------------------------------------------------------------------ process pool

_WORKER_FN = None


def _raised_in_library(e):
    """Was the exception raised by code of the tree under test (its innermost frame is an aiocoap frame)?"""
    tb = e.__traceback__
    last = None          # the deepest frame that belongs either to the harness or to the library (deeper ones are the standard library's)
    while tb is not None:
        fn = tb.tb_frame.f_code.co_filename
        if "/aiocoap/" in fn:
            last = "library"
        elif fn.startswith(VERIF + os.sep):
            last = "harness"
        tb = tb.tb_next
    return last == "library"


def _call(arg):
    try:
        return _WORKER_FN(arg)
    except BaseException as e:
        text = "".join(traceback.format_exception(type(e), e, e.__traceback__))
        if isinstance(e, Exception) and _raised_in_library(e) and "HarnessFault" not in type(e).__name__:
            # An exception raised *inside the library* came out of a call the harness makes (the same call works on the unchanged
            # tree, where every check is silent): that is the library's behaviour, not a fault of the machinery.  It is reported
            # as a violation of its own class; the run of this worker ends here.
            r = Result()
            r.evaluations = 1
            r.outcomes.add("library-exception")
            r.violate(Violation("exception-escapes-library", "the call returns (or raises a documented library error)", exc_desc(e), site_of(e),
                                {"unreplayable": "raised outside any oracle; re-run the check", "worker_arg": repr(arg)[:300]},
                                trace=text.splitlines()[-12:], key="escape:%s@%s" % (type(e).__name__, site_of(e))))
            return r
        return ("__fault__", text)      # harness fault inside a worker: carry it to the parent


def pmap(fn, items, jobs=None, chunksize=1):
    """Run fn over items in forked worker processes; yields results (unordered).  fn must be a module-level
    function or closure defined before the fork (the pool is forked per call)."""
    global _WORKER_FN
    items = list(items)
    jobs = jobs or int(os.environ.get("VERIF_JOBS", "0")) or min(16, os.cpu_count() or 1)
    _WORKER_FN = fn
    if jobs <= 1 or len(items) <= 1:
        for it in items:
            r = _call(it)
            if isinstance(r, tuple) and r and r[0] == "__fault__":
                raise RuntimeError("harness fault:\n" + r[1])
            yield r
        return
    ctx = mp.get_context("fork")
    with ctx.Pool(min(jobs, len(items))) as pool:
        for r in pool.imap_unordered(_call, items, chunksize):
            if isinstance(r, tuple) and r and r[0] == "__fault__":
                pool.terminate()
                raise RuntimeError("harness fault in worker:\n" + r[1])
            yield r


def prun(fn, items, jobs=None, chunksize=1):
    """pmap where fn returns a Result; returns the merged Result."""
    total = Result()
    for r in pmap(fn, items, jobs, chunksize):
        total.merge(r)
    return total


# ------------------------------------------------------------------------------------------ known findings

def load_known():
    p = os.path.join(VERIF, "known_findings.json")
    if not os.path.exists(p):
        return []
    return json.load(open(p))["findings"]


def match_known(prop, v, known):
    for k in known:
        if k.get("status") != "known" or k.get("property") != prop:
            continue
        m = k.get("match", {})
        ok = True
        for key, want in m.items():
            have = v.get(key)
            if key in ("observed", "expected"):
                have = json.dumps(have, sort_keys=True)
                ok = ok and (want in have)
            elif key == "key":
                ok = ok and str(have).startswith(want)
            else:
                ok = ok and (have == want)
        if ok and m:
            return k
    return None


# ------------------------------------------------------------------------------------------ evidence

def write_evidence(prop, tier, seed, level, res, wall, assumptions, rule, exhaustive, extra=None, nviol=0):
    cov = {
        "evaluations": res.evaluations,
        "distinct_nontrivial": len(res.signatures),
        "rule": rule,
        "samples": res.samples[:8],
        "states": max(len(res.states), 0),
        "transitions": res.transitions,
        "traces_validated_against_impl": res.traces,
        "exhaustive": bool(exhaustive) and not res.caps,
        "distinct_outcomes": len(res.outcomes),
        "scenarios": res.scenarios,
        "caps_hit": res.caps,
        "notes": res.notes,
    }
    if extra:
        cov.update(extra)
    ev = {
        "property_id": prop, "tier": tier, "seed": seed, "level": level, "coverage": jsonable(cov),
        "assumptions": assumptions, "wall_s": round(wall, 2), "violations": nviol,
    }
    os.makedirs(os.path.join(VERIF, "evidence"), exist_ok=True)
    p = os.path.join(VERIF, "evidence", prop + ".json")
    with open(p + ".tmp", "w") as f:
        json.dump(ev, f, indent=1, sort_keys=True)
        f.write("\n")
    os.replace(p + ".tmp", p)
    return p


def write_replay(prop, v, idx):
    os.makedirs(os.path.join(VERIF, "replays"), exist_ok=True)
    p = os.path.join(VERIF, "replays", "%s-%s-%d.json" % (prop, digest(v.sig), idx))
    rec = dict(v)
    rec["property"] = prop
    with open(p, "w") as f:
        json.dump(rec, f, indent=1, sort_keys=True)
        f.write("\n")
    return p
