"""The explorers.

E2  explore_schedules(): stateless, deviation-bounded exploration of a Scenario (iterative context bounding
    transplanted to an event loop: the "preemption" is a departure from the default environment answer).
E3  bfs(): explicit-state breadth-first search with deduplication on a canonical state; a state is the history
    that reaches it and is rebuilt from scratch on fresh objects.
"""

import collections
import gc

from . import core
from .core import Result, Violation
from .vloop import HarnessFault


class Scenario:
    """A closed system.  Subclasses implement start/enabled/apply/finish.

    enabled(st) -> list of (label, cost); index 0 is the default continuation (cost 0); [] ends the run.
    apply(st, i) performs event i.  Violations are appended to st.violations (list of Violation).
    """
    name = "scenario"
    params = {}
    max_steps = 400

    def start(self):
        raise NotImplementedError

    def enabled(self, st):
        raise NotImplementedError

    def apply(self, st, i, label):
        raise NotImplementedError

    def finish(self, st):
        pass

    def dispose(self, st):
        w = getattr(st, "world", None)
        if w is not None:
            w.dispose()

    def outcome(self, st):
        return None

    def digest(self, st):
        return core.digest(st.world.digest_state())


class Execution:
    __slots__ = ("points", "choices", "violations", "trace", "outcome", "digests", "steps")


def run_once(scn, prefix, want_digests=True):
    """Replay prefix (list of (index, label)), then default choices to the end."""
    st = scn.start()
    x = Execution()
    x.points, x.choices, x.digests = [], [], []
    try:
        k = 0
        while True:
            en = scn.enabled(st)
            if not en or k >= scn.max_steps:
                if en:
                    st.horizon_hit = True
                break
            if k < len(prefix):
                i, lab = prefix[k]
                if i >= len(en) or en[i][0] != lab:
                    raise HarnessFault("replay divergence at step %d of %s: recorded %r, enabled %r" % (
                        k, scn.name, (i, lab), [e[0] for e in en]))
            else:
                i = 0
            x.points.append(en)
            x.choices.append((i, en[i][0]))
            if want_digests:
                x.digests.append(scn.digest(st))
            scn.apply(st, i, en[i][0])
            k += 1
        scn.finish(st)
        x.violations = list(st.violations)
        x.trace = list(st.world.trace) if hasattr(st, "world") else []
        x.outcome = scn.outcome(st)
        x.steps = k
    finally:
        scn.dispose(st)
    return x


def _cost_before(x, i):
    return sum(x.points[j][x.choices[j][0]][1] for j in range(i))


def _explore(scn, prefix, K, res, stats, cap):
    stack = [list(prefix)]
    while stack:
        pre = stack.pop()
        if stats["execs"] >= cap:
            stats["capped"] = True
            return
        x = run_once(scn, pre)
        stats["execs"] += 1
        res.evaluations += 1
        res.traces += 1
        res.transitions += x.steps
        for d in x.digests:
            res.states.add(d)
        res.outcomes.add(core.digest((scn.name, x.outcome)))
        res.signatures.add(core.digest((scn.name, tuple(c[1] for c in x.choices if True))))
        if x.violations:
            # determinism: the same schedule must fail identically
            y = run_once(scn, x.choices, want_digests=False)
            if [v.sig for v in y.violations] != [v.sig for v in x.violations] or y.trace != x.trace:
                raise HarnessFault("non-deterministic replay of a violating schedule in %s: %r" % (scn.name, x.choices))
            for v in x.violations:
                v["case"] = core.jsonable({"scenario": scn.name, "params": scn.params, "choices": x.choices})
                v["scenario"] = scn.name
                v["trace"] = x.trace[-60:]
                res.violate(v)
        for i in range(len(pre), len(x.points)):
            base = _cost_before(x, i)
            for alt in range(1, len(x.points[i])):
                if base + x.points[i][alt][1] <= K:
                    stack.append(x.choices[:i] + [(alt, x.points[i][alt][0])])
    return


def explore_job(arg):
    scn, prefix, K, cap = arg
    res = Result()
    stats = {"execs": 0}
    _explore(scn, prefix, K, res, stats, cap)
    res.scenarios[scn.name] = {"executions": stats["execs"], "K": K}
    if stats.get("capped"):
        res.caps.append("%s: execution cap %d hit in a subtree (K=%d not completed)" % (scn.name, cap, K))
    return res


def explore_schedules(scenarios, K, jobs=None, cap=2_000_000):
    """Explore every scenario completely up to K deviations.  Work is split at the first deviation."""
    work = []
    total = Result()
    for scn in scenarios:
        x = run_once(scn, [])
        # determinism self-check of the default run
        y = run_once(scn, [])
        if x.trace != y.trace or x.choices != y.choices:
            raise HarnessFault("default run of %s is not deterministic" % scn.name)
        if len(total.samples) < 6:
            total.sample({"scenario": scn.name, "params": scn.params, "default_schedule": [c[1] for c in x.choices][:40]})
        work.append((scn, [], 0, cap))
        if K >= 1:
            for i in range(len(x.points)):
                for alt in range(1, len(x.points[i])):
                    if _cost_before(x, i) + x.points[i][alt][1] <= K:
                        work.append((scn, x.choices[:i] + [(alt, x.points[i][alt][0])], K, cap))
    # K=0 job explores only the default run (budget 0), the others their subtree
    res = core.prun(explore_job, work, jobs)
    total.merge(res)
    for scn in scenarios:
        if scn.name in total.scenarios:
            total.scenarios[scn.name]["K"] = K
            total.scenarios[scn.name]["params"] = core.jsonable(scn.params)
    return total


def replay_schedule(scn, choices):
    pre = [(int(i), lab) for i, lab in choices]
    x = run_once(scn, pre, want_digests=False)
    for line in x.trace:
        print("    ", line)
    return x.violations


# ------------------------------------------------------------------------------------------ E3

def bfs(initial_events, build, events_of, canon, check, depth, res, name="bfs", cap=3_000_000):
    """Explicit-state BFS.  A state is the event history reaching it.

    build(hist) -> state (fresh objects, history replayed);  events_of(state) -> iterable of events;
    canon(state) -> hashable;  check(hist, state) -> list of Violations for the last transition.
    """
    seen = set()
    frontier = collections.deque([()])
    st = build(())
    seen.add(canon(st))
    maxd = 0
    while frontier:
        hist = frontier.popleft()
        if len(hist) >= depth:
            continue
        st = build(hist)
        evs = list(events_of(st))
        for ev in evs:
            nh = hist + (ev,)
            ns = build(nh)
            res.transitions += 1
            res.evaluations += 1
            for v in check(nh, ns):
                res.violate(v)
            k = canon(ns)
            if k not in seen:
                seen.add(k)
                frontier.append(nh)
                maxd = max(maxd, len(nh))
            if len(seen) > cap:
                res.caps.append("%s: state cap %d" % (name, cap))
                frontier.clear()
                break
    for k in seen:
        res.states.add(core.digest(k))
    res.scenarios[name] = {"states": len(seen), "depth": depth, "max_depth_reached": maxd}
    return res
