"""The explorers.

E2  explore_schedules(): stateless, deviation-bounded exploration of a Scenario (iterative context bounding
    transplanted to an event loop: the "preemption" is a departure from the default environment answer).
E3  bfs(): explicit-state breadth-first search with deduplication on a canonical state; a state is the history
    that reaches it and is rebuilt from scratch on fresh objects.
"""

import collections
import gc
import os
import pickle
import struct
import subprocess
import sys

from . import core
from .core import Result, Violation
from .vloop import HarnessFault


class Divergence(HarnessFault):
    """A recorded prefix does not replay: at some step another set of events is on offer than when it was recorded."""


class NotIndependent(Exception):
    """Executions in this process influence each other (state of the library, or of the harness, outlives an execution)."""

    def __init__(self, why, choices=None):
        super().__init__(why)
        self.choices = choices


class Scenario:
    """A closed system.  Subclasses implement start/enabled/apply/finish.

    enabled(st) -> list of (label, cost); index 0 is the default continuation (cost 0); [] ends the run.
    apply(st, i) performs event i.  Violations are appended to st.violations (list of Violation).
    """
    name = "scenario"
    params = {}
    max_steps = 400

    def start(self):
        raise NotImplementedError

    def enabled(self, st):
        raise NotImplementedError

    def apply(self, st, i, label):
        raise NotImplementedError

    def finish(self, st):
        pass

    def dispose(self, st):
        w = getattr(st, "world", None)
        if w is not None:
            w.dispose()

    def outcome(self, st):
        return None

    def digest(self, st):
        return core.digest(st.world.digest_state())


class Execution:
    __slots__ = ("points", "choices", "violations", "trace", "outcome", "digests", "steps")


def run_once(scn, prefix, want_digests=True):
    """Replay prefix (list of (index, label)), then default choices to the end."""
    st = scn.start()
    x = Execution()
    x.points, x.choices, x.digests = [], [], []
    try:
        k = 0
        while True:
            en = scn.enabled(st)
            if not en or k >= scn.max_steps:
                if en:
                    st.horizon_hit = True
                break
            if k < len(prefix):
                i, lab = prefix[k]
                if i >= len(en) or en[i][0] != lab:
                    raise Divergence("replay divergence at step %d of %s: recorded %r, enabled %r" % (
                        k, scn.name, (i, lab), [e[0] for e in en]))
            else:
                i = 0
            x.points.append(en)
            x.choices.append((i, en[i][0]))
            if want_digests:
                x.digests.append(scn.digest(st))
            scn.apply(st, i, en[i][0])
            k += 1
        scn.finish(st)
        x.violations = list(st.violations)
        x.trace = list(st.world.trace) if hasattr(st, "world") else []
        x.outcome = scn.outcome(st)
        x.steps = k
    finally:
        scn.dispose(st)
    return x


def _cost_before(x, i):
    return sum(x.points[j][x.choices[j][0]][1] for j in range(i))


def _explore(scn, prefix, K, res, stats, cap, runner=None, confirm=None):
    """runner executes a schedule (default: in this process); confirm executes one in an interpreter that has executed nothing
    before (a fork of a pristine one), which is where every new kind of violation is re-executed before it is reported: the same
    schedule must fail identically there, which shows determinism and that nothing left behind by earlier executions of this
    process plays a part."""
    isolated = runner is not None
    runner = runner or run_once
    stack = [list(prefix)]
    while stack:
        pre = stack.pop()
        if stats["execs"] >= cap:
            stats["capped"] = True
            return
        try:
            x = runner(scn, pre)
        except Divergence as e:
            if isolated:
                raise
            raise NotIndependent(str(e))
        stats["execs"] += 1
        res.evaluations += 1
        res.traces += 1
        res.transitions += x.steps
        for d in x.digests:
            res.states.add(d)
        res.outcomes.add(core.digest((scn.name, x.outcome)))
        res.signatures.add(core.digest((scn.name, tuple(c[1] for c in x.choices if True))))
        if x.violations:
            if any(v.sig not in res.violations and v.sig not in _CONFIRMED for v in x.violations):
                try:
                    y = confirm(scn, x.choices, want_digests=False)
                except Divergence:
                    y = None      # not even the same events are on offer there
                if y is None or [v.sig for v in y.violations] != [v.sig for v in x.violations] or y.trace != x.trace:
                    if isolated:
                        raise HarnessFault("non-deterministic replay of a violating schedule in %s: %r" % (scn.name, x.choices))
                    raise NotIndependent("a violating schedule of %s runs differently in an interpreter that has executed nothing before" % scn.name,
                                         x.choices)
            _CONFIRMED.update(v.sig for v in x.violations)
            for v in x.violations:
                v["case"] = core.jsonable({"scenario": scn.name, "params": scn.params, "choices": x.choices})
                v["scenario"] = scn.name
                v["trace"] = x.trace[-60:]
                res.violate(v)
            if isolated:
                # forking for every execution is slow, and this subtree has shown what there is to show
                stats["stopped_at_first_violation"] = True
                return
        for i in range(len(pre), len(x.points)):
            base = _cost_before(x, i)
            for alt in range(1, len(x.points[i])):
                if base + x.points[i][alt][1] <= K:
                    stack.append(x.choices[:i] + [(alt, x.points[i][alt][0])])
    return


TWICE = (0, "@again-in-the-same-process")

_ZYGOTE = """
import os, pickle, struct, sys, traceback
from mcv import explore
import aiocoap
if os.path.abspath(aiocoap.__file__) != os.environ["MCV_EXPECT_AIOCOAP"]:
    sys.stderr.write("pristine interpreter imported aiocoap from %s\\n" % aiocoap.__file__)
    sys.exit(3)
import gc, importlib
known_modules = set(sys.modules)
gc.collect()
gc.freeze()      # the forks' collections leave what exists now alone (no copying of the whole heap in every child)
inp, out = sys.stdin.buffer, sys.stdout.buffer
def rd():
    hdr = inp.read(4)
    if len(hdr) < 4:
        return None
    return pickle.loads(inp.read(struct.unpack("!I", hdr)[0]))
while True:
    req = rd()
    if req is None:
        break
    scn = req[3]
    r, w = os.pipe()
    pid = os.fork()
    if pid == 0:
        os.close(r)
        o = []
        try:
            for i in range(req[2]):
                try:
                    x = explore.run_once(scn, req[0], want_digests=req[1])
                    o.append(("ok", x.points, x.choices, x.violations, x.trace, x.outcome, x.digests, x.steps))
                except explore.Divergence as e:
                    o.append(("diverged", str(e)))
        except BaseException:
            o = [("error", traceback.format_exc())]
        try:
            data = pickle.dumps(o)
        except BaseException:
            data = pickle.dumps([("error", "result of the execution cannot be pickled: " + traceback.format_exc())])
        mods = "\\n".join(m for m in list(sys.modules) if m not in known_modules).encode()
        with os.fdopen(w, "wb") as f:
            f.write(struct.pack("!I", len(mods)) + mods + data)
        os._exit(0)
    os.close(w)
    with os.fdopen(r, "rb") as f:
        data = f.read()
    os.waitpid(pid, 0)
    n = struct.unpack("!I", data[:4])[0]
    mods, data = data[4:4 + n].decode().split("\\n"), data[4 + n:]
    # what the execution had to import first is imported here as well (importing is not executing): later forks start with it
    for m in mods:
        if m and m not in sys.modules:
            try:
                importlib.import_module(m)
            except BaseException:
                pass
    known_modules = set(sys.modules)
    gc.freeze()
    try:
        out.write(struct.pack("!I", len(data)) + data)
        out.flush()
    except BrokenPipeError:
        os._exit(0)       # nobody is listening any more
"""


class Zygote:
    """An interpreter that has imported everything and executed nothing; every execution asked of it runs in a fork of it."""

    def __init__(self, scn=None):
        import aiocoap
        # the same module search path as this process (tree under test first, stand-ins where the check uses them)
        env = dict(os.environ, PYTHONPATH=os.pathsep.join(p for p in sys.path if p), MCV_EXPECT_AIOCOAP=os.path.abspath(aiocoap.__file__))
        self.p = subprocess.Popen([sys.executable, "-W", "ignore", "-c", _ZYGOTE], stdin=subprocess.PIPE, stdout=subprocess.PIPE, env=env)

    def _send(self, o):
        b = pickle.dumps(o)
        self.p.stdin.write(struct.pack("!I", len(b)) + b)
        self.p.stdin.flush()

    def run_n(self, scn, choices, want_digests, times):
        self.name = scn.name
        self._send(([(int(i), lab) for i, lab in choices], want_digests, times, scn))
        hdr = self.p.stdout.read(4)
        if len(hdr) < 4:
            raise HarnessFault("the pristine interpreter for %s died" % self.name)
        out = []
        for r in pickle.loads(self.p.stdout.read(struct.unpack("!I", hdr)[0])):
            if r[0] == "error":
                raise RuntimeError("execution of %s in a fork of a pristine interpreter failed:\n%s" % (self.name, r[1]))
            if r[0] == "diverged":
                out.append(Divergence(r[1]))
                continue
            x = Execution()
            x.points, x.choices, x.violations, x.trace, x.outcome, x.digests, x.steps = r[1:]
            out.append(x)
        return out

    def run(self, scn, choices, want_digests=True):
        x = self.run_n(scn, choices, want_digests, 1)[0]
        if isinstance(x, Divergence):
            raise x
        return x

    def close(self):
        try:
            self.p.stdin.close()
            self.p.wait(timeout=10)
        except Exception:
            self.p.kill()


def _across_contexts(z, scn, choices):
    """Nothing shows within any single execution of a fresh process, but executions of one process influence each other: the
    violating schedule is executed twice in a row in one (fresh) process, twice over.  A violation in the second execution is
    what a process shows whose earlier context went through the same schedule; it is reported with a marker in front of its
    choices, so that the replay runs the schedule twice as well."""
    a = z.run_n(scn, choices, False, 2)
    b = z.run_n(scn, choices, False, 2)

    def key(rs):
        return [("diverged",) if isinstance(r, Divergence) else ([v.sig for v in r.violations], r.trace) for r in rs]
    if key(a) != key(b):
        raise HarnessFault("non-deterministic replay of a violating schedule in %s (also in fresh processes): %r" % (scn.name, choices))
    second = a[1]
    if isinstance(second, Divergence) or not second.violations:
        raise HarnessFault("executions of %s influence each other within a process, but no violation can be reproduced in a fresh one "
                           "(not by the schedule alone, not by running it twice): %r" % (scn.name, choices))
    second.trace = list(second.trace) + ["note: second of two executions of this schedule in one process - state of the library outlives a context"]
    return second, [TWICE] + list(choices)


_CONFIRMED = set()        # violation signatures this worker process has already seen reproduced in a pristine interpreter
_WORKER_ZYGOTE = []       # one pristine interpreter per worker process, shared by its jobs (it never executes anything itself)


def explore_job(arg):
    scn, prefix, K, cap = arg
    res = Result()
    stats = {"execs": 0}
    z = _WORKER_ZYGOTE

    def confirm(scn, choices, want_digests=False):
        if not z:
            z.append(Zygote(scn))
        return z[0].run(scn, choices, want_digests)
    try:
        try:
            _explore(scn, prefix, K, res, stats, cap, None, confirm)
        except NotIndependent as e:
            # start over, with every execution in a fork of an interpreter that has executed nothing
            res = Result()
            stats = {"execs": 0, "isolated": str(e)}
            if not z:
                z.append(Zygote(scn))
            try:
                _explore(scn, prefix, K, res, stats, cap, z[0].run, z[0].run)
            except Divergence as d:
                if stats["execs"]:
                    raise
                # the prefix this job was given (recorded in a process that had executed other things before) does not exist in
                # a fresh process: nothing to explore below it
                stats["unreproduced"] = "the subtree's prefix was recorded under the influence of earlier executions: %s" % d
            if not res.violations and e.choices is not None:
                try:
                    x, choices = _across_contexts(z[0], scn, e.choices)
                except HarnessFault as hf:
                    # nothing to show from this subtree; whether that is a fault is decided over all subtrees (explore_schedules)
                    stats["unreproduced"] = str(hf)
                    x, choices = Execution(), []
                    x.violations = []
                for v in x.violations:
                    v["case"] = core.jsonable({"scenario": scn.name, "params": scn.params, "choices": choices})
                    v["scenario"] = scn.name
                    v["trace"] = x.trace[-60:]
                    res.violate(v)
    finally:
        pass        # (the pristine interpreter ends when this worker's end closes its input)
    res.scenarios[scn.name] = {"executions": stats["execs"], "K": K}
    if stats.get("isolated"):
        res.scenarios[scn.name]["isolated_executions"] = stats["isolated"]
    if stats.get("unreproduced"):
        res.scenarios[scn.name]["unreproduced"] = stats["unreproduced"]
    if stats.get("capped"):
        res.caps.append("%s: execution cap %d hit in a subtree (K=%d not completed)" % (scn.name, cap, K))
    return res


def explore_schedules(scenarios, K, jobs=None, cap=2_000_000):
    """Explore every scenario completely up to K deviations.  Work is split at the first deviation."""
    work = []
    total = Result()
    zy = []
    for scn in scenarios:
        x = run_once(scn, [])
        # determinism self-check of the default run
        y = run_once(scn, [])
        if x.trace != y.trace or x.choices != y.choices:
            # executions influence each other already here: take the default run from a process that has executed nothing (the
            # jobs find that out for themselves and isolate their executions)
            if not zy:
                zy.append(Zygote())
            x = zy[0].run(scn, [])
            y = zy[0].run(scn, [])
            if x.trace != y.trace or x.choices != y.choices:
                zy[0].close()
                raise HarnessFault("default run of %s is not deterministic" % scn.name)
        if len(total.samples) < 6:
            total.sample({"scenario": scn.name, "params": scn.params, "default_schedule": [c[1] for c in x.choices][:40]})
        work.append((scn, [], 0, cap))
        if K >= 1:
            for i in range(len(x.points)):
                for alt in range(1, len(x.points[i])):
                    if _cost_before(x, i) + x.points[i][alt][1] <= K:
                        work.append((scn, x.choices[:i] + [(alt, x.points[i][alt][0])], K, cap))
    for z in zy:
        z.close()
    # K=0 job explores only the default run (budget 0), the others their subtree
    res = core.prun(explore_job, work, jobs)
    total.merge(res)
    unrep = [v["unreproduced"] for v in res.scenarios.values() if isinstance(v, dict) and v.get("unreproduced")]
    total.unreproduced += unrep[:3]      # a fault of the whole check unless it shows violations elsewhere (mcv/cli.py)
    for scn in scenarios:
        if scn.name in total.scenarios:
            total.scenarios[scn.name]["K"] = K
            total.scenarios[scn.name]["params"] = core.jsonable(scn.params)
    return total


def replay_schedule(scn, choices):
    pre = [(int(i), lab) for i, lab in choices]
    try:
        if pre and tuple(pre[0]) == TWICE:
            # found as the second of two executions in one process (see _across_contexts)
            pre = pre[1:]
            run_once(scn, pre, want_digests=False)
        x = run_once(scn, pre, want_digests=False)
    except Divergence as e:
        # the tree at hand does not offer the recorded events (the schedule was recorded against a tree that behaves differently):
        # the recorded violation does not happen here
        print("     the recorded schedule cannot be followed on this tree:", e)
        return []
    for line in x.trace:
        print("    ", line)
    return x.violations


# ------------------------------------------------------------------------------------------ E3

def bfs(initial_events, build, events_of, canon, check, depth, res, name="bfs", cap=3_000_000):
    """Explicit-state BFS.  A state is the event history reaching it.

    build(hist) -> state (fresh objects, history replayed);  events_of(state) -> iterable of events;
    canon(state) -> hashable;  check(hist, state) -> list of Violations for the last transition.
    """
    seen = set()
    frontier = collections.deque([()])
    st = build(())
    seen.add(canon(st))
    maxd = 0
    while frontier:
        hist = frontier.popleft()
        if len(hist) >= depth:
            continue
        st = build(hist)
        evs = list(events_of(st))
        for ev in evs:
            nh = hist + (ev,)
            ns = build(nh)
            res.transitions += 1
            res.evaluations += 1
            for v in check(nh, ns):
                res.violate(v)
            k = canon(ns)
            if k not in seen:
                seen.add(k)
                frontier.append(nh)
                maxd = max(maxd, len(nh))
            if len(seen) > cap:
                res.caps.append("%s: state cap %d" % (name, cap))
                frontier.clear()
                break
    for k in seen:
        res.states.add(core.digest(k))
    res.scenarios[name] = {"states": len(seen), "depth": depth, "max_depth_reached": maxd}
    return res
