"""./check <ID> --tier quick|thorough [--replay FILE] [--jobs N]   |   ./check --selftest

exit 0: property held on everything explored (KNOWN-FINDING lines allowed)
exit 1: at least one `VIOLATION property=<id> replay=<path>` line
exit 2: fault of the machinery itself (import not from /repo, replay divergence, livelock, vacuity)
"""

import argparse
import gc
import importlib
import json
import os
import sys
import time
import traceback

from . import core

MODULES = {
    "C01": "c01_codec", "C02": "c02_matching", "C03": "c03_retransmit", "C04": "c04_dedup", "C05": "c05_bwclient",
    "C06": "c06_bwserver", "C07": "c07_obsclient", "C08": "c08_obsserver", "C09": "c09_responses",
    "C10": "c10_msglayer", "C11": "c11_oscore", "C12": "c12_replay", "C13": "c13_nonce", "C14": "c14_backlog",
    "C15": "c15_tcp", "C16": "c16_uri", "C17": "c17_site", "C18": "c18_shutdown", "C19": "c19_fileserver",
    "C20": "c20_rd",
}
SHIMMED = {"C11", "C12", "C13"}


def bind_repo(shims):
    if shims:
        sys.path.insert(1, os.path.join(core.VERIF, "shims"))
    repo = os.environ.get("VERIF_REPO", "/repo")
    if sys.path[0] != repo:
        sys.path.insert(0, repo)
    import aiocoap
    if not os.path.abspath(aiocoap.__file__).startswith(repo + "/"):
        print("FAULT: aiocoap imported from %s, not from %s" % (aiocoap.__file__, repo))
        sys.exit(2)


def selftest():
    from . import refcodec
    refcodec.selftest()
    bind_repo(False)
    from . import vloop
    import asyncio
    lp = vloop.VLoop()
    seen = []

    async def co():
        await asyncio.sleep(5)
        seen.append(lp.time())
        try:
            await asyncio.wait_for(asyncio.sleep(100), 3)
        except asyncio.TimeoutError:
            seen.append(lp.time())
    t = lp.run_coro(co())
    assert t.done() and seen == [5.0, 8.0], seen
    lp.dispose()
    # shims bound to published vectors
    sys.path.insert(1, os.path.join(core.VERIF, "shims"))
    try:
        from shimtest import run as shim_selftest
    except ImportError:
        shim_selftest = None
    if shim_selftest:
        shim_selftest()
        from shimtest import run_vectors
        bad = run_vectors()
        if bad:   # a property of the tree under test, not of the machinery: C11 reports it as a violation
            print("note: RFC 8613 appendix C vectors fail on this tree:", bad[:2])
    print("selftest ok")
    return 0


def main(argv=None):
    ap = argparse.ArgumentParser()
    ap.add_argument("prop", nargs="?")
    ap.add_argument("--tier", default=os.environ.get("VERIF_TIER", "quick"), choices=["quick", "thorough"])
    ap.add_argument("--replay")
    ap.add_argument("--jobs", type=int, default=0)
    ap.add_argument("--selftest", action="store_true")
    ap.add_argument("--no-evidence", action="store_true")
    a = ap.parse_args(argv)
    if a.selftest:
        return selftest()
    prop = a.prop
    if prop not in MODULES:
        print("unknown property", prop)
        return 2
    seed = int(os.environ.get("VERIF_SEED", "0") or 0)
    bind_repo(prop in SHIMMED)
    try:
        mod = importlib.import_module("mcv.props." + MODULES[prop])
    except Exception:
        traceback.print_exc()
        print("FAULT: cannot import the check for", prop)
        return 2

    if a.replay:
        rec = json.load(open(a.replay))
        if isinstance(rec.get("case"), dict) and "unreplayable" in rec["case"]:
            print("this violation was raised outside any oracle (%s); re-running the whole check instead" % rec["case"]["unreplayable"])
            res = mod.run("quick", seed, a.jobs or None)
            vs = [v for v, n in res.violations.values() if v["clause"] == rec.get("clause")]
        else:
            vs = mod.replay(core.unjson(rec["case"]), rec.get("scenario"), seed)
        for v in vs:
            print("  violated clause:", v["clause"], "| expected:", v["expected"], "| observed:", v["observed"], "| site:", v["site"])
            for line in v["trace"]:
                print("    ", line)
        print("replay: %d violation(s)" % len(vs))
        return 1 if vs else 0

    t0 = time.time()
    try:
        res = mod.run(a.tier, seed, a.jobs or None)
    except Exception as e:
        if core._raised_in_library(e):
            # raised by the tree under test outside any worker (see core._call): the library's behaviour, reported as a violation
            res = core.Result()
            res.evaluations = 1
            res.outcomes.update({"library-exception", "aborted"})
            res.violate(core.Violation("exception-escapes-library", "the call returns (or raises a documented library error)", core.exc_desc(e),
                                       core.site_of(e), {"unreplayable": "raised outside any oracle; re-run the check"},
                                       trace=traceback.format_exc().splitlines()[-12:], key="escape:%s@%s" % (type(e).__name__, core.site_of(e))))
        else:
            traceback.print_exc()
            print("FAULT: harness error in", prop)
            return 2
    wall = time.time() - t0
    known = core.load_known()
    new = 0
    idx = 0
    lines = []
    for sig, (v, n) in sorted(res.violations.items(), key=lambda kv: str(kv[0])):
        k = core.match_known(prop, v, known)
        if k is not None:
            lines.append("KNOWN-FINDING: property=%s %s [%s; %d case(s) this run]" % (prop, k["what"], k["id"], n))
            continue
        idx += 1
        new += 1
        p = core.write_replay(prop, v, idx)
        lines.append("VIOLATION property=%s replay=%s" % (prop, p))
        lines.append("  clause=%s site=%s cases=%d\n  expected=%s\n  observed=%s" % (
            v["clause"], v["site"], n, json.dumps(v["expected"])[:300], json.dumps(v["observed"])[:300]))
    # fold KNOWN-FINDING lines per finding id
    seen = set()
    for ln in lines:
        if ln.startswith("KNOWN-FINDING"):
            key = ln.split("[")[1].split(";")[0]
            if key in seen:
                continue
            seen.add(key)
        print(ln)
    vac = getattr(mod, "MIN_OUTCOMES", 2)
    if not a.no_evidence:
        core.write_evidence(prop, a.tier, seed, mod.LEVEL, res, wall, mod.ASSUMPTIONS, mod.RULE,
                            getattr(mod, "EXHAUSTIVE", True), getattr(mod, "extra_evidence", lambda r, t: None)(res, a.tier),
                            nviol=new)
    print("%s %s: evaluations=%d distinct=%d states=%d transitions=%d outcomes=%d violations=%d known=%d wall=%.1fs" % (
        prop, a.tier, res.evaluations, len(res.signatures), len(res.states), res.transitions, len(res.outcomes), new,
        len(seen), wall))
    if new:
        return 1
    if getattr(res, "unreproduced", None):
        print("FAULT:", res.unreproduced[0])
        return 2
    if len(res.outcomes) < vac or res.evaluations == 0:
        print("FAULT: vacuous exploration (%d distinct outcomes from %d evaluations)" % (len(res.outcomes), res.evaluations))
        return 2
    return 0


if __name__ == "__main__":
    sys.exit(main())
