#!/usr/bin/env python3
"""Regenerates /verif/MANIFEST.json from the table below (kept in one place so it is always valid)."""
import json
import os
import sys

HERE = os.path.dirname(os.path.dirname(os.path.abspath(__file__)))

# id -> (category, technique, level text, level note, design ref)
CHECKS = {
    "C01": ("exploration",
            "bounded-exhaustive input enumeration of the real codec against an independent RFC 7252 codec",
            "Every message of a closed product of alphabets (all types, codes, boundary MIDs, token lengths 0-8, option lists "
            "up to length 3-4 over an option alphabet that hits every format and every extended-field boundary, payloads) is "
            "encoded by aiocoap and compared byte-for-byte with an independent encoder, then decoded and compared field by "
            "field; every short byte string over a structural alphabet and every truncation/substitution/insertion/deletion "
            "of seed datagrams is decoded and classified against the independent decoder. Complete inside the alphabets; "
            "says nothing outside them.",
            "Trusted: mcv/refcodec.py (own reading of RFC 7252 s.3, self-tested), CPython. Alphabets, not full ranges.",
            "DESIGN.md 6/C01"),
    "C03": ("model_checking",
            "stateless deviation-bounded schedule exploration of the real message layer under a virtual clock, stepped against a reference model",
            "For each source of a CON message (client request, separate response, observe notification), each TransportTuning "
            "of a grid and each answer of the random seam, every run with <= K injected acknowledgements (matching ACK / RST / "
            "piggybacked response, wrong-mid and wrong-source ACKs) at every inter-timer position including both sides of a "
            "tie is executed on the real MessageManager/TokenManager/udp6 stack; copies, byte identity, the exact wire "
            "timeline, request outcome and left-over state are compared with an RFC 7252 s.4.2 model after every step.",
            "Trusted: virtual loop (real BaseEventLoop._run_once), fake socket, the small reference model. Bound K=1 quick, K=2 on the default tuning family thorough.",
            "DESIGN.md 6/C03"),
}


C18TXT = ("Ten busy scenarios (request awaiting ACK / separate response, block-wise up and down, observation on client and server, "
          "backlog of three, slow handler before the empty ACK, a token re-used while its first handler runs, live dedup entry), each next to a bystander context with its own in-flight "
          "request: Context.shutdown() is started after every step of the default run (and of every one-deviation run), plain and with the "
          "loop stalling 0.15 s / 3.5 s after the 1st..6th loop iteration of the shutdown (late timers); the loop is then drained over EXCHANGE_LIFETIME. Shutdown returns within 3 s; every pending future/observation (and requests re-issued from "
          "failure callbacks inside the shutdown window) ends with an aiocoap.error.Error; handlers see CancelledError; nothing is sent "
          "and nothing raises in the loop afterwards; a later request fails with LibraryShutdown; the bystander completes as usual.")
C20TXT = ("A real StandaloneResourceDirectory behind Context.render_to_pipe on the virtual loop: all sequences to depth 3-4 (quick) / 5 "
          "(thorough) over 25 operations (valid registrations over three keys, six invalid registrations of a possibly live key, POST/PUT "
          "updates valid and invalid, DELETE, unknown location, clock steps to 0.5 s before/after the earliest expiry), dedup on model + "
          "directory tables + timers. After every step endpoint lookup, resource lookup and three filtered lookups are compared with a "
          "model of live registrations; location stability/uniqueness and table agreement are checked; every request answered 4.xx must "
          "leave tables, parameters, links, lookups and the timer queue exactly as they were.")
E2 = "stateless deviation-bounded schedule exploration (all runs with <= K departures from the default environment answer) of the real stack under a virtual event loop, monitored against a reference model; every new kind of violation is re-executed in a fork of an interpreter that has executed nothing before it is reported"
E3 = "explicit-state breadth-first search over operation histories with state deduplication, every transition executed on the real code and compared with a reference model"
E1 = "bounded-exhaustive enumeration of a closed input space on the real code against an independent reference model"
TB = "Trusted: CPython asyncio BaseEventLoop._run_once, the virtual loop / fake socket harness, mcv/refcodec.py and the per-property reference model. "
CHECKS.update({
    "C02": ("model_checking", E2,
            "1-3 concurrent requests from a real client context to two scripted RFC 7252 servers; every datagram fate, server reply "
            "mode, forged response (guessed/sniffed token, wrong source, replay), RST, ICMP error, sendmsg error and shutdown is a "
            "choice point; after every step: only genuine matching responses are delivered to exactly their request, unmatched CON "
            "-> one RST, futures complete at most once with error.Error subclasses, each terminating event completes what it concerns.",
            TB + "K=1 everywhere + K=2 on two scenarios (quick); K=2 everywhere + K=3 on single-request scenarios (thorough).",
            "DESIGN.md 6/C02"),
    "C04": ("model_checking", E3,
            "Real server context (fast / slow / failing / No-Response-suppressed / slow-failing handlers, CON and NON) fed with copies of "
            "four request keys that share IPs and message IDs, timer firings, jumps to EXCHANGE_LIFETIME -/+ 1 ms and ACKs of the "
            "separate response, for three seeds of the server's own MID counter that force collisions with request MIDs; all event "
            "sequences to depth 3-4 (quick) / 5-6 (thorough: 6 away from the message-ID wrap - one job per first event, no visited set shared between them - 5 around it; 4-5 for non-confirmable requests) with dedup on dedup table + piggyback table + timers + counters + model. "
            "Per copy: handler executions, byte-identical repetition of the first ACK (or silence), independence of endpoints, re-processing after expiry.",
            TB + "EXCHANGE_LIFETIME (247 s) is computed from RFC defaults in the model, not read from the library.",
            "DESIGN.md 6/C04"),
    "C05": ("model_checking", E1 + "; " + E2,
            "The real BlockwiseRequest client runs every transfer of a grid (4 methods x boundary body lengths x server SZX 0-6 x client "
            "maximum SZX 0-6 x mid-transfer reductions) to completion against an independent strict RFC 7959 server that checks every "
            "wire rule and reassembles the body; both bodies must be byte-identical (position-coded contents). Nine server misbehaviours "
            "at every block position must end in an error (or an unsuccessful response), never in a different body. Short transfers are "
            "additionally explored under all <= K drops/duplications of individual datagrams (K=1 +K=2 quick; K=2 on six transfers +K=3 on two thorough).",
            TB + "mcv/refpeer.RefBlockServer is the RFC 7959 oracle. Bodies <= 4096 bytes.",
            "DESIGN.md 6/C05"),
    "C06": ("model_checking", E3,
            "Block requests are pushed through Context.render_to_pipe into a Site with recording resources: all sequences to depth 3 "
            "(quick) / 4-5 (thorough; renderings of 0 and 200 bytes to depth 3) over Block1 PUT/POST blocks (num 0-2, M, sizes 16/32, full/short/empty payload) from three "
            "endpoints (two sharing an IP) to /a, /b, /a?q=1, Block2 GETs (num 0-4, SZX 0-2, renderings of 0-200 bytes), plain requests "
            "and clock jumps around 93 s / 186 s, plus long transfers whose total duration exceeds the lifetime; dedup on spool, cache, "
            "recently-accessed sets, timers and model. Response code, echoed option, exact slice, more-flag, handler invocations and "
            "bodies are compared with a model of the statement at every step.",
            TB + "Lifetime bounds computed from RFC defaults.", "DESIGN.md 6/C06"),
    "C07": ("model_checking", E1 + " (RFC 7641 s.3.4 verbatim)",
            "A scripted notifier feeds the real client (plain Request path and default BlockwiseRequest path) every sequence up to length 3 "
            "(quick) / 4 (thorough) over 33 items (Observe deltas around 0, +-1, +-2, +-2^23; inter-arrival 0/128/128.1 s), all ordered pairs "
            "over the full 88-item alphabet incl. NON and 127.9 s, duplicates, and terminators (2.05 without Observe, 4.04, ICMP error, first "
            "response without Observe) at every position followed by later arrivals; E2 over notifications whose bodies are fetched block-wise "
            "(newer notification / final response arriving, dropped or duplicated mid-fetch) and two observations to one server under a transport error. Callback stream == model's accepted sequence; iterator "
            "stream a subsequence ending with the last; exactly one termination signal of the right kind; ACK while observing / RST after the end.",
            TB + "Clock seam shared by model and library.",
            "DESIGN.md 6/C07"),
    "C08": ("model_checking", E2,
            "A real server context with an ObservableResource (also one whose render yields) and one or two scripted observers (CON, NON, two "
            "tokens from one endpoint): state changes, the observer's reaction to each notification (ACK/RST/silence), drop, duplicate, "
            "re-registration, plain GET on the token, Observe 1, ICMP error, unsuccessful and last triggers and shutdown are choice points. "
            "Per registration the monitor checks on the wire: token, strictly increasing Observe over first transmissions, the latest state "
            "eventually sent, every listed end condition ending it, cancellation callback exactly once, nothing first-transmitted afterwards, "
            "observer count restored, nothing raised in the loop.",
            TB + "K=1 on five scenarios + K=2 on one (quick); K=2 + capped K=3 on four scenarios (thorough). Known finding C08-K1 (RST to a NON notification).",
            "DESIGN.md 6/C08"),
    "C09": ("model_checking", E1 + "; differential isolation runs",
            "On the real UDP server stack every handler outcome (returns with/without code and payload, every "
            "ConstructionRenderableError subclass with/without text, foreign exceptions incl. ones that merely quack like renderable "
            "errors, wrong return types, failing error renderers) x fast/slow x methods x CON/NON, and the three dispatch failures, is "
            "executed once; the final responses carrying the token are counted on the wire and compared with the expected code/payload; "
            "a secret marker must never appear on the wire. Failing requests placed before/during/after well-behaved neighbours (same "
            "or other peer) must leave the neighbours' responses identical to the run without them; a superseding request on a reused token is still answered; "
            "pairs of slow requests of one peer whose separate responses queue behind each other (all ordered outcome pairs x 5 ACK delays thorough) each get one final response.",
            TB + "Peer ACKs separate responses immediately.",
            "DESIGN.md 6/C09"),
    "C10": ("model_checking", E1 + " (the RFC 7252 s.4.2/4.3 + RFC 7967 reaction table), plus all ordered pairs of a sub-table",
            "A real context that is client (one pending, already ACKed request) and server (handlers of duration 0, EMPTY_ACK_DELAY-/+1ms, "
            "0.5 s) receives every cell of type x code class x token known/unknown x source x unicast/multicast local address x "
            "No-Response; the reply datagrams with their virtual send times are compared with the table cell by cell, all ordered "
            "pairs (and, thorough, all ordered triples) of a sub-table are compared as multisets with ACK-before-separate-response order, "
            "cells arriving behind an unacknowledged own CON and same-token supersessions are checked, and outgoing requests to "
            "multicast destinations are checked never to be CON.",
            TB + "Don't-care cells (CON with reserved/signalling code; CON requests received on multicast) are excluded from the table comparison but still checked for invariants.",
            "DESIGN.md 6/C10"),
    "C15": ("model_checking", E1 + " (frame sequences x chunkings) against the independent RFC 8323 framer; differential over chunkings",
            "A real TcpConnection (server role; client role with pending requests) on a real TCPServer/TCPClient pool, TokenManager and "
            "Context over a fake asyncio transport receives every sequence up to length 2-3 over a 30-frame alphabet (CSM variants, "
            "requests with length field 0/12/13/268/269, unknown-token response, Ping/Pong/Release/Abort, Empty, unknown signalling code, "
            "critical/elective options in Ping/Pong/Release/Abort, frames exactly at and one byte over the size limit, oversized frame, TKL 9, three unparsable-option shapes; plus every frame size limit-2..limit+15 x token length 0-8) under every chunking of a family (all compositions for short streams; "
            "whole, bytewise, fixed sizes, every single cut, strided cut pairs otherwise). Dispatch list, signalling writes (own CSM, "
            "Pong with the Ping's token, Abort), closed flag and reported errors must equal the reference processing and be identical for "
            "all chunkings; nothing may escape data_received; written bytes must re-frame exactly; serialisation is compared at the "
            "13/269/65805 boundaries.",
            TB + "Responses produced by handler tasks are compared as a subsequence (their timing relative to later frames is not framing).",
            "DESIGN.md 6/C15"),
    "C16": ("exploration", E1 + " (own reading of RFC 7252 s.6.4/6.5 with its own percent codec)",
            "Message.set_request_uri / get_request_uri / UndecidedRemote / hostportjoin / hostportsplit are run over closed products: "
            "9 schemes x 22 hosts (names, mixed case, percent-escapes, non-ASCII, IPv4 literals incl. 255/0 octets and look-alikes, IPv6 literals, zones, IPvFuture, "
            "broken brackets, empty) x 9 ports x userinfo/fragment toggles; path lists of length <= 3 (4 thorough) and query lists of length <= 2 over "
            "23 segments (every reserved character, empty, dots, control characters, non-ASCII up to astral planes, literal percent text) both as percent-encoded URI text and as "
            "raw options; verbatim bad escapes; every string of length <= 3 (5 thorough) over 13 structural characters behind nine prefixes. Decomposition "
            "must equal the model, recomposition must decompose to the same options and destination, options -> URI -> options must be the "
            "identity, and every rejection must be MalformedUrlError or IncompleteUrlError.",
            "Trusted: the model in mcv/props/c16_uri.py. Alphabets, not the full Unicode range.", "DESIGN.md 6/C16"),
    "C17": ("model_checking", E1 + "; " + E3,
            "Every configuration of a closed family (all sets of <= 3 (4 thorough) resources at paths of length <= 3 over {a,b,''}, 0-2 nested sites "
            "incl. a second level and prefix-overlapping pairs, path-capable leaves, resources with rt/if/ct attributes and a hidden one) "
            "is built as a real Site and receives all 121 request paths of length <= 4 through Context.render_to_pipe: the handler that ran, "
            "the stripped path it saw and the URI it reconstructs are compared with a longest-proper-prefix model; the parsed "
            "/.well-known/core listing and 16 single-criterion filters are compared with the model's subset; add/remove histories of "
            "length <= 3 (4 thorough) are followed by a full routing sweep after every step.",
            TB + "Quick explores a seed-rotated 1/7 of the 3-resource sets.", "DESIGN.md 6/C17"),
    "C19": ("exploration", E1 + ", with every file-system access observed (audit hook + os wrappers) and before/after snapshots",
            "A real FileServer on a scratch tree (root with files and a sub-directory, a sibling whose name has the root's name as prefix, a "
            "file next to the root) receives every Uri-Path list of length <= 2 over a 13-component alphabet with every method x write "
            "flag x conditional option x Observe, a third of the length-3 lists with GET/PUT/DELETE, and absolute-path lists built from the "
            "scratch directory's own location. Every path the request touches must resolve inside the root, nothing outside may change, "
            "nothing at all may change without write permission, and requests leading outside must be refused; files of nine boundary "
            "sizes are fetched block by block at SZX 0-6 in order and reversed and compared with their bytes.",
            "Trusted: CPython audit events for file-system access, the harness. Destructive operations outside the scratch directory are "
            "refused by a fuse in the harness (recorded as touches) so that a real escape cannot damage the machine.",
            "DESIGN.md 6/C19"),
    "C20": ("model_checking", E3, C20TXT, TB + "Grace period 15 s, default lifetime 90000 s from the documentation.", "DESIGN.md 6/C20"),
    "C18": ("model_checking", E2 + " (the deviation is shutdown at every step)", C18TXT,
            TB + "K=1 (quick, +K=2 on three scenarios), K=2 (thorough).", "DESIGN.md 6/C18"),
    "C11": ("exploration", E1 + " (stand-in crypto modules bound to published vectors)",
            "protect/unprotect on pairs of in-memory contexts, through the datagram codec: (a) 10 codes x option subsets of size <= 3 over "
            "23 items x 4 payloads round-trip to the original code, Class-E options and payload; (b) the outer datagram, parsed "
            "independently, shows only POST/FETCH/2.04/2.05 and OSCORE/Uri-Host/Uri-Port/Proxy-*/Observe and contains no inner marker; "
            "(c) all 9 pairings of 3 responses with 3 requests (with and without own partial IV) verify iff they belong together; (d) every "
            "single-bit flip and truncation of ciphertext and OSCORE option, value-changing edits of PIV/KID/ID context, and foreign keys "
            "fail with a protection error (never another exception, never a different message), for ID lengths 0-7 x ID contexts x "
            "sequence numbers up to 2^40-2 (x 5 algorithms thorough). RFC 8613 appendix C vectors are re-run on the tree.",
            "Trusted: /verif/shims (cbor2, cryptography over OpenSSL libcrypto via ctypes, filelock), validated against RFC 3610, NIST "
            "GCM, RFC 8439, RFC 5869, RFC 8949 vectors at start-up. Nothing is claimed about the real packages. Known finding C11-K1 (Proxy-Uri).",
            "DESIGN.md 6/C11"),
    "C12": ("model_checking", E3 + "; " + E1,
            "ReplayWindow: BFS with dedup over all is_valid/strike_out histories for sizes 1-4 (depth 6-8), 8 and 32 (depth 4-5) from empty, "
            "freshly-seen and persisted initialisations against a set-and-floor model, with a persist/reload probe in every state (and of the uninitialised window). "
            "unprotect(): every arrival sequence up to length 3-5 over genuine requests with numbers {0,1,2,w-1,w,w+1,3w}, replays, "
            "tag-flipped and foreign-key forgeries and Echo variants, for windows 2 and 32, initialised and uninitialised: accepted at most "
            "once, old numbers refused, fresh numbers accepted, forgeries never move the window, nothing accepted before the right Echo.",
            "Trusted: as C11.", "DESIGN.md 6/C12"),
    "C13": ("fault_enumeration", "crash-point enumeration: every history is re-run once per (file-system effect, crash mode) with the process dying there, then reloaded and continued",
            "A real FilesystemSecurityContext on a scratch directory, with aiocoap.oscore's os / tempfile / io replaced by recording proxies "
            "that number every effect (lock creation aside: mkstemp, write incl. a half-written variant, flush, fsync, close, replace, "
            "unlink): all histories up to length 2-3 (+4 fixed closing operations) over protect / accept n / accept with fresh Echo / "
            "respond twice / own request answered by the peer without or with its own Partial IV / clean stop+reload / stray temp file, for chunk sizes start {1,2,3,10} x limit {4,10000}, long runs across "
            "several chunk boundaries, two crashes per run on a fixed history, and exhaustion histories from 2^40-4..2^40-1. Across all lifetimes of a history: no (key, nonce) "
            "pair encrypts twice, sender numbers strictly increase and are never re-issued, none reaches 2^40-1, a request accepted in "
            "any lifetime is never accepted again, fresh requests are accepted after a clean stop and after a fresh Echo.",
            "Trusted: as C11 plus the process-death crash model (completed file operations persist; no power-loss semantics, no I/O errors).",
            "DESIGN.md 6/C13"),
    "C14": ("model_checking", E2,
            "Scripted submissions of CON/NON requests to two peers (plus the node's own separate CON response); server reply modes incl. the response overtaking the ACK, RST, ICMP error, sendmsg error and withdrawal of a held-back request are choice points; the monitor rebuilds open-exchange/backlog state per remote from the "
            "wire and the applied events: never two open CON exchanges per remote, FIFO release in the very step the exchange ahead ends, "
            "no delay for other remotes/NON, every held-back message transmitted or failed, _backlogs keys == remotes with an active exchange.",
            TB + "K=1 on four scenarios + K=2 on one (quick); K=2 + K=3 (thorough).",
            "DESIGN.md 6/C14"),
})

NOT_YET = {
}

# what later rounds added to each check (appended to the level text)
ADDED = {
    "C02": "Also: the application withdrawing a request (held back or in flight) as a fault - the others must not notice; a request submitted "
           "by another task while the shutdown is under way. A retry that re-sends the same Message object; answers name the request datagram they answer; errnos that Python maps to builtin exception classes. A confirmable forgery under message ID 0; a Reset for a finished request whose exchange is still open. The same Message object submitted again while its first request is outstanding. A request withdrawn in the loop pass in which a Reset or a transport error for it is read.",
    "C01": "Also: whole datagrams of 64..4096 bytes through the real recvmsg transport over a fake socket that cuts like the kernel. An ordinary datagram parsed again after 3000 datagrams with unregistered option numbers.",
    "C07": "Also: same-message-ID copies of notifications and of the terminating response after a pause; a late first response. Requests whose tuning is a class. A consumer busy in the loop body while notifications and the end arrive. A consumer whose wait timed out and who comes back to the iterator.",
    "C08": "Also: the notification that ends a registration is itself sent, also behind an unacknowledged one. An observer with two registrations that never acknowledges; a state change in the loop pass in which a Reset is read. Exactly one change while the previous re-rendering is under way. Confirmable and non-confirmable notifications in one registration; a registration only goes away for a reason that concerns its own endpoint.",
    "C14": "Also: withdrawal of the request whose exchange is open; colliding message IDs. Client requests behind the node's own separate response (acknowledged late or never); the second endpoint is another port of the same host. Held-back requests fail with the error class of what happened to the remote. Held-back messages across the wrap of the message-ID counter.",
    "C04": "Also: the same (endpoint, ID) under another token and towards a second server endpoint of the process; three long prefixes (duplicate inside the lifetime, re-use after the expiry, the instant old timers are due) behind which the search continues. Request message IDs 0/1/2 with the server's counter wrapping onto them; an acknowledged separate response whose own ID equals the request's; every ACK names a received request. The request and seven copies of it. A separate response sent non-confirmably under the request's message ID.",
    "C13": "Also: process death between two operations (a lifetime without any file-system effect) as an operation of the histories. Histories across the numbers where the Partial IV grows by a byte or ends in zero bytes. Operations run inside a running loop; executor jobs are deferred and die with the process. Responses at the end of the number space.",
    "C03": "Also: a library-generated Block2 follow-up as the CON under test, responses to an older request, the tuning handed over as a "
           "TransportTuning subclass, a CON that had to wait behind two requests answered in turn, and a follower held back behind it and withdrawn. A CON without a tuning of its own after another message's default tuning was edited. A CON created with the deprecated mtype keyword next to its tuning; a held-back CON that never gets onto the wire.",
    "C05": "Also: a conforming server that states its own larger SZX in its 2.31s; later blocks refused (4.08 / 5.03) or answered without Block2; "
           "requests carry Content-Format / Accept / query and Block2 follow-ups must be the same request; a stateless server (2.04, M=0 on every block); large responses to a client limited to smaller blocks. Managed requests that carry the application's own Block2 option. Transfers whose block numbers need the third option byte.",
    "C06": "Also: empty and double-size non-final continuations; transfers that differ only in Request-Tag or Accept; cache / spool running empty and being refilled. Combined Block1 + Block2 transfers. A representation that is sometimes empty; an entry replaced shortly before a sweep. Requests asking for the reserved size exponent 7.",
    "C09": "Also: observable resources (declined / accepted registration) x every outcome, No-Response x outcomes, and neighbours while the "
           "acknowledgement of a separate response is lost for good. Messages that pass for a response but cannot be serialised; the failing request's own final response among neighbours. Requests under message ID 0 (the acknowledgement names the request); sequences of requests at a context without a site. Non-ASCII diagnostics; a discovery filter that matches nothing. A transport error for one peer while another peer's requests are under way; resource classes derived from one another.",
    "C10": "Also: the transport tuning's reliability preference (class and instance) x multicast destinations; the peer's message carrying "
           "the node's own just-acknowledged message ID; a ping received on a multicast address gets its Reset; a second copy of a CON request around EMPTY_ACK_DELAY (acknowledged exactly once); a multicast request given up. Exchanges with the peer's other port while a CON to its first port is open; a transport error before a duplicate. The node's own request on the token of the peer's request still in its handler; the node as a forward proxy. A request whose answer cannot be serialised is still acknowledged exactly once.",
    "C11": "Also: every rejected forgery is followed by the genuine message on the same recipient; foreign contexts include absent vs empty ID "
           "context and another salt, for requests and responses; all 12 registered AEAD algorithms in both tiers; no nonce re-used by the Echo challenge "
           "after a loss of replay state; response binding across a process death; the outer code depends on Observe alone. The server-side choice of the context from a credentials map (four ID contexts in every order). The real client transport against the real site wrapper over the virtual network (Echo recovery, observation, swapped responses). Non-confirmable requests through the transports; contexts loaded from directories with every admissible ID length. No nonce is used twice through the transports; block-wise state of a protected exchange is not served outside the context.",
    "C12": "Also: state lost for real - a file-backed context accepts 1-3 requests, the process dies, after reload nothing is accepted before a fresh Echo exchange; "
           "responses of the peer with its own Partial IV never move an initialised window. The last sequence number 2^40-1; recorded requests under a rewritten outer code. Sequence files that say nothing usable about what was received. Plain responses (no Partial IV of their own) in both window states. One context directory opened again, waited for, and discarded while an instance holds it.",
    "C15": "Also: elective options in Ping / Release / Abort and a critical option behind an elective one; a displaced connection; CSMs without options. A peer CSM announcing a small Max-Message-Size. Empty messages carrying a token / option / payload. Frames of 65 kB - 1 MB cut inside their header; a peer that sends Release / Abort and stops reading. Empty messages with a broken option area; 0xFF inside an option value of a large frame.",
    "C16": "Also: the destination (scheme, host, port) of every accepted authority; sub-delims, ':' and '@' standing unescaped in segments; composition with Uri-Host / Uri-Port options. The options of a CoAP URI do not depend on what the message carried before (set again, copy(uri=)). The same URI under another scheme as predecessor. Hosts with every upper-case letter behind a percent-escape.",
    "C17": "Also: every Uri-Path-Abbrev value routed like the spelled-out path over six .well-known trees (nested sites included); bodies arriving in Block1 blocks below nested sites. Resource objects that are false in a boolean context. One Site object mounted under several prefixes; listings for unicast requesters are not marked for suppression.",
    "C18": "Also: an observation whose first notification is block-wise, and consumers that subscribe only after the shutdown (errback and async iteration), a cancelled consumer task, "
           "CON notifications acknowledged late, a bystander server context, a bystander that is a client of the victim, requests submitted while the shutdown is under way, the application cancelling and shutting down in one step. A datagram of the peer becoming readable while the shutdown is under way. A request submitted in the very step that starts the shutdown; a handler whose clean-up outlasts the time-out. A datagram (request, response or acknowledgement) read in the very pass in which the shutdown begins.",
    "C19": "Also: a request answered with an error leaves the served tree unchanged (no left-over spool files); If-None-Match combined with If-Match. Every spelling of the root after the tree has been emptied through the server; a replacement through the server between two fetches. Compatibility forms of dots and slashes in path components. The root given as '.' with the home directory elsewhere. Block requests handed to the server in the same loop pass (handlers that use the loop's executor interleave there).",
    "C20": "Also: values that need quoting in lookup results (double quote, trailing backslash), an update that sets an explicit base, conjunctive lookup filters, "
           "a valid lt next to an invalid parameter in one update, re-registration without parameters. Simple registration with every outcome of the link fetch; updates with several parameters. Endpoint names that spell like name.sector of another registration; updates of a moved endpoint. Empty parameter and attribute values; an update that spells out the implicit base. A link with a repeated attribute.",
}


def main():
    props = [json.loads(l) for l in open(os.path.join(HERE, "properties.jsonl"))]
    ids = [p["id"] for p in props]
    checks = []
    sys.path.insert(0, HERE)
    from mcv.cli import MODULES
    built = {pid for pid in CHECKS if os.path.exists(os.path.join(HERE, "mcv", "props", MODULES[pid] + ".py"))}
    for pid in ids:
        if pid not in built:
            continue
        cat, tech, text, note, ref = CHECKS[pid]
        if pid in ADDED:
            text = text + " " + ADDED[pid]
        checks.append({
            "property_id": pid,
            "quick_cmd": "./check %s --tier quick" % pid,
            "thorough_cmd": "./check %s --tier thorough" % pid,
            "evidence_file": "/verif/evidence/%s.json" % pid,
            "replay_cmd_template": "./check %s --replay {path}" % pid,
            "engine": "mcv",
            "level_claimed": {"category": cat, "text": text, "design_ref": ref},
            "level_note": note,
            "technique": tech,
        })
    na = [{"property_id": pid, "reason": NOT_YET.get(pid, "check not built yet in this session (technique applies; see DESIGN.md section 6)")}
          for pid in ids if pid not in built]
    man = {
        "version": 1,
        "setup_cmd": "./check --selftest",
        "hooks": {
            "guard": "AIOCOAP_VERIF",
            "enable": "no source hooks exist: every seam is reached by replacing module attributes from the harness or by "
                      "building real classes over fake sockets/transports; ./check exports AIOCOAP_VERIF=1 for uniformity",
            "baseline_off_cmd": "/verif/tools/baseline.sh /repo",
            "source_commits": [],
            "add_only": True,
        },
        "engines": [{
            "name": "mcv", "path": "/verif/mcv",
            "serves_properties": [c["property_id"] for c in checks],
            "kind_free_text": "hand-written explicit-state / stateless model checker for asyncio code: virtual event loop driven "
                              "by the real BaseEventLoop._run_once, fake socket under the real transport, three explorers "
                              "(E1 bounded-exhaustive inputs, E2 deviation-bounded schedules, E3 BFS with state dedup), "
                              "reference models compared on every transition",
        }],
        "checks": checks,
        "not_applicable": na,
        "notes": "Model checking directly on the implementation; see DESIGN.md. Known findings: known_findings.json.",
    }
    with open(os.path.join(HERE, "MANIFEST.json"), "w") as f:
        json.dump(man, f, indent=1)
        f.write("\n")
    try:
        import jsonschema
        jsonschema.validate(man, json.load(open("/root/.vp/MANIFEST.schema.json")))
        print("MANIFEST.json valid;", len(checks), "checks,", len(na), "not_applicable")
    except ImportError:
        print("MANIFEST.json written (jsonschema not importable here)")


if __name__ == "__main__":
    main()
