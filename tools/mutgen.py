#!/usr/bin/env python3
"""Mutant generator for the mutation sweep (tools/mutsweep.py).  Pure text edits located with the AST, so that a mutant
differs from the original in one small span.  mutants(source, ranges) yields (line, kind, start, end, replacement) with start/end
absolute offsets into the source; apply() builds the mutated text.  ranges: list of (first, last) line numbers or None."""
import ast
import sys

CMP = {ast.Lt: ("<", ["<="]), ast.LtE: ("<=", ["<"]), ast.Gt: (">", [">="]), ast.GtE: (">=", [">"]),
       ast.Eq: ("==", ["!="]), ast.NotEq: ("!=", ["=="]), ast.Is: ("is", ["is not"]), ast.IsNot: ("is not", ["is"]),
       ast.In: ("in", ["not in"]), ast.NotIn: ("not in", ["in"])}
BIN = {ast.Add: ("+", ["-"]), ast.Sub: ("-", ["+"]), ast.Mult: ("*", ["+"]), ast.FloorDiv: ("//", ["*"]),
       ast.LShift: ("<<", [">>"]), ast.RShift: (">>", ["<<"]), ast.BitAnd: ("&", ["|"]), ast.BitOr: ("|", ["&"]),
       ast.Mod: ("%", ["//"])}


def _offsets(src):
    offs, o = [0], 0
    for line in src.splitlines(True):
        o += len(line.encode())
        offs.append(o)
    return offs


def mutants(src, ranges=None):
    tree = ast.parse(src)
    bsrc = src.encode()
    offs = _offsets(src)

    def pos(line, col):
        return offs[line - 1] + col

    def span(n):
        return pos(n.lineno, n.col_offset), pos(n.end_lineno, n.end_col_offset)

    def inrange(n):
        if ranges is None:
            return True
        return any(a <= n.lineno <= b for a, b in ranges)

    def find_op(a, b, text):
        """offset of operator text between byte offsets a and b"""
        seg = bsrc[a:b]
        i = seg.find(text.encode())
        return None if i < 0 else a + i

    out = []
    doc_exprs = set()
    for n in ast.walk(tree):
        if isinstance(n, (ast.FunctionDef, ast.AsyncFunctionDef, ast.ClassDef, ast.Module)) and n.body:
            f = n.body[0]
            if isinstance(f, ast.Expr) and isinstance(f.value, ast.Constant) and isinstance(f.value.value, str):
                doc_exprs.add(id(f))
    for n in ast.walk(tree):
        if not hasattr(n, "lineno") or not inrange(n):
            continue
        if isinstance(n, ast.Compare):
            left = n.left
            for op, right in zip(n.ops, n.comparators):
                if type(op) in CMP:
                    text, alts = CMP[type(op)]
                    a = span(left)[1]
                    b = span(right)[0]
                    o = find_op(a, b, text)
                    if o is not None:
                        for alt in alts:
                            out.append((n.lineno, "cmp %s->%s" % (text, alt), o, o + len(text), alt))
                left = right
        elif isinstance(n, ast.BoolOp):
            text = "and" if isinstance(n.op, ast.And) else "or"
            alt = "or" if text == "and" else "and"
            for l, r in zip(n.values, n.values[1:]):
                o = find_op(span(l)[1], span(r)[0], text)
                if o is not None:
                    out.append((n.lineno, "bool %s->%s" % (text, alt), o, o + len(text), alt))
        elif isinstance(n, ast.UnaryOp) and isinstance(n.op, ast.Not):
            a, b = span(n)
            oa = span(n.operand)[0]
            out.append((n.lineno, "drop not", a, oa, ""))
        elif isinstance(n, ast.BinOp) and type(n.op) in BIN:
            if isinstance(n.op, ast.Mod) and isinstance(n.left, ast.Constant) and isinstance(n.left.value, str):
                continue  # string formatting
            if isinstance(n.op, ast.Add) and any(isinstance(x, ast.Constant) and isinstance(x.value, str) for x in (n.left, n.right)):
                continue
            text, alts = BIN[type(n.op)]
            o = find_op(span(n.left)[1], span(n.right)[0], text)
            if o is not None:
                for alt in alts:
                    out.append((n.lineno, "bin %s->%s" % (text, alt), o, o + len(text), alt))
        elif isinstance(n, ast.AugAssign) and type(n.op) in BIN:
            text, alts = BIN[type(n.op)]
            o = find_op(span(n.target)[1], span(n.value)[0], text + "=")
            if o is not None:
                out.append((n.lineno, "aug %s=->%s=" % (text, alts[0]), o, o + len(text), alts[0]))
        elif isinstance(n, ast.Constant) and not isinstance(n.value, bool) and isinstance(n.value, int):
            a, b = span(n)
            if 0 <= n.value <= 2 ** 40:
                out.append((n.lineno, "const %d->%d" % (n.value, n.value + 1), a, b, str(n.value + 1)))
                if n.value > 0:
                    out.append((n.lineno, "const %d->%d" % (n.value, n.value - 1), a, b, str(n.value - 1)))
        elif isinstance(n, ast.Constant) and isinstance(n.value, bool):
            a, b = span(n)
            out.append((n.lineno, "const %s->%s" % (n.value, not n.value), a, b, str(not n.value)))
        elif isinstance(n, ast.If) or isinstance(n, ast.While):
            a, b = span(n.test)
            if not isinstance(n.test, ast.Constant):
                out.append((n.lineno, "cond->False", a, b, "False"))
                if isinstance(n, ast.If):
                    out.append((n.lineno, "cond->True", a, b, "True"))
        elif isinstance(n, ast.Expr) and id(n) not in doc_exprs and isinstance(n.value, (ast.Call, ast.Await)):
            # statement deletion for calls that are not logging
            seg = bsrc[span(n)[0]:span(n)[1]].decode()
            if ".log." in seg or seg.startswith(("log.", "self.log.", "warnings.", "logging.")) or ".debug(" in seg or ".info(" in seg or ".warning(" in seg:
                continue
            a, b = span(n)
            out.append((n.lineno, "del call", a, b, "pass"))
        elif isinstance(n, (ast.Assign, ast.AugAssign, ast.Delete)):
            a, b = span(n)
            if n.lineno == n.end_lineno or True:
                out.append((n.lineno, "del stmt", a, b, "pass"))
        elif isinstance(n, ast.Return) and n.value is not None and not (isinstance(n.value, ast.Constant) and n.value.value is None):
            a, b = span(n)
            out.append((n.lineno, "return None", a, b, "return None"))
        elif isinstance(n, ast.Raise):
            a, b = span(n)
            out.append((n.lineno, "del raise", a, b, "pass"))
        elif isinstance(n, ast.Continue):
            a, b = span(n)
            out.append((n.lineno, "continue->break", a, b, "break"))
        elif isinstance(n, ast.Break):
            a, b = span(n)
            out.append((n.lineno, "break->continue", a, b, "continue"))
    out.sort(key=lambda m: (m[0], m[2], m[1]))
    # dedupe
    seen, res = set(), []
    for m in out:
        k = (m[2], m[3], m[4])
        if k not in seen:
            seen.add(k)
            res.append(m)
    return res


def apply(src, m):
    b = src.encode()
    return (b[:m[2]] + m[4].encode() + b[m[3]:]).decode()


if __name__ == "__main__":
    src = open(sys.argv[1]).read()
    ms = mutants(src)
    print(len(ms))
    for m in ms[:40]:
        print(m[0], m[1], repr(src.encode()[m[2]:m[3]].decode()), "->", repr(m[4]))
