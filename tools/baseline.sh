#!/bin/bash
# Runs the repository's pinned test suite (guard off) in a given tree (default /repo) and compares the result with
# the 154 stable tests of /root/.vp/BASELINE.json.  exit 0 iff every stable test passed.
TREE="${1:-/repo}"
OUT="$(mktemp /tmp/baseline.XXXXXX.xml)"
unset AIOCOAP_VERIF
# a private network namespace keeps concurrent suite runs from talking to each other on port 5683
if unshare -n true 2>/dev/null; then NS="unshare -n sh -c"; else NS="sh -c"; fi
cd "$TREE" && $NS "ip link set lo up 2>/dev/null; /venv/bin/python -m pytest -ra -q -p no:cacheprovider --timeout=900 --continue-on-collection-errors --junitxml=$OUT" > "$OUT.log" 2>&1
/venv/bin/python - "$OUT" <<'PY'
import json, sys, xml.etree.ElementTree as ET
base = json.load(open('/root/.vp/BASELINE.json'))
stable = set(base['stable_pass'])
passed = set()
for tc in ET.parse(sys.argv[1]).getroot().iter('testcase'):
    name = tc.get('classname') + '::' + tc.get('name')
    if not any(c.tag in ('failure', 'error', 'skipped') for c in tc):
        passed.add(name)
missing = sorted(stable - passed)
print('stable tests passing: %d/%d' % (len(stable & passed), len(stable)))
for m in missing: print('  NOT PASSING:', m)
sys.exit(1 if missing else 0)
PY
rc=$?
rm -f "$OUT" "$OUT.log"
exit $rc
