#!/bin/bash
# every thorough check, sequentially, without touching the committed evidence (quick evidence stays)
cd "$(dirname "${BASH_SOURCE[0]}")/.." || exit 2
for id in "${@:-C01 C02 C03 C04 C05 C06 C07 C08 C09 C10 C11 C12 C13 C14 C15 C16 C17 C18 C19 C20}"; do
  for i in $id; do
    s=$(date +%s); out=$(timeout 3600 ./check $i --tier thorough --no-evidence 2>&1); rc=$?; e=$(date +%s)
    echo "$i exit=$rc $((e-s))s $(echo "$out" | tail -1 | cut -c1-170)"
    [ $rc != 0 ] && echo "$out" | grep -E "VIOLATION|FAULT|clause|Error" | head -8
  done
done
