#!/usr/bin/env python3
"""tools/replay_health.py [seed-name-prefix ...]: for every seeded change, apply it to a scratch worktree, run the quick check of
its property (which writes replay files), then run `./check <ID> --replay <file>` for each replay file twice: against the
changed tree (must report >= 1 violation, exit 1) and against /repo's HEAD (must report none, exit 0, unless the file belongs to a
known finding).  Prints one line per replay file that misbehaves and a summary.  A development aid; decides nothing."""
import json
import os
import shutil
import subprocess
import sys

VERIF = os.path.dirname(os.path.dirname(os.path.abspath(__file__)))
only = sys.argv[1:]
bad = 0
total = 0
for d in sorted(os.listdir(os.path.join(VERIF, "seeded"))):
    sd = os.path.join(VERIF, "seeded", d)
    if not os.path.isdir(sd) or (only and not any(d.startswith(o) for o in only)):
        continue
    meta = json.load(open(os.path.join(sd, "meta.json")))
    if meta.get("retired"):
        continue
    pid = meta["property"]
    wt = "/tmp/wt/rh-%d" % os.getpid()
    os.makedirs("/tmp/wt", exist_ok=True)
    subprocess.run(["git", "-C", "/repo", "worktree", "add", "-q", "--detach", wt, "HEAD"], check=True)
    rdir = os.path.join(VERIF, "replays")
    try:
        if subprocess.run(["git", "-C", wt, "apply", os.path.join(sd, "patch.diff")]).returncode != 0:
            print(d, "PATCH DOES NOT APPLY")
            bad += 1
            continue
        shutil.rmtree(rdir, ignore_errors=True)
        c = subprocess.run([os.path.join(VERIF, "check"), pid, "--tier", "quick", "--no-evidence"], capture_output=True, text=True,
                           env=dict(os.environ, VERIF_REPO=wt))
        files = [l.split("replay=")[1].strip() for l in c.stdout.splitlines() if l.startswith("VIOLATION")]
        if c.returncode != 1 or not files:
            print(d, "NOT REPORTED (exit %s)" % c.returncode)
            bad += 1
            continue
        for f in files[:6]:
            total += 1
            a = subprocess.run([os.path.join(VERIF, "check"), pid, "--replay", f], capture_output=True, text=True, env=dict(os.environ, VERIF_REPO=wt))
            b = subprocess.run([os.path.join(VERIF, "check"), pid, "--replay", f], capture_output=True, text=True)
            clause = json.load(open(f)).get("clause")
            if a.returncode != 1:
                print(d, clause, "replay on the changed tree: exit", a.returncode, (a.stdout + a.stderr)[-300:].replace("\n", " | "))
                bad += 1
            if b.returncode != 0:
                print(d, clause, "replay on the unchanged tree: exit", b.returncode, (b.stdout + b.stderr)[-300:].replace("\n", " | "))
                bad += 1
    finally:
        subprocess.run(["git", "-C", "/repo", "worktree", "remove", "--force", wt])
    print("ok", d, len(files) if 'files' in dir() else 0, flush=True)
print("replay files exercised: %d, problems: %d" % (total, bad))
