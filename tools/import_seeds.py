#!/usr/bin/env python3
"""Copies confirmed seeded changes from /tmp/seeded/<ID>/<name>/ to /verif/seeded/<ID>-<name>/ and (re)builds the detection
matrix: for every seeded change, apply it to /repo, run the quick check of its property (and related ones), undo it."""
import json, os, shutil, subprocess, sys

SRC = "/tmp/seeded"
DST = "/verif/seeded"
RELATED = {"C02": ["C14"], "C03": ["C02", "C14"], "C14": ["C02"], "C10": ["C09"], "C18": [], "C08": []}
STRENGTHENED = {
    "C03-dedup-swallows-ack": "missed at first; C03 gained forced message-ID collisions (stray ACK/RST and a peer request on the ID the CON is going to use)",
    "C03-timeout-fails-wrong-request": "missed by C03 at first (caught by C02 and C14); C03 gained a bystander request registered later",
    "C08-lost-trigger-during-render": "missed at first; C08 gained the scenario with a render that yields (S-OBS-slowrender)",
    "C08-error-ends-only-first-registration": "missed at first; C08 gained the scenario with two registrations from one endpoint (S-OBS-twotokens)",
    "C09-ducktyped-renderable": "missed at first; the outcome alphabet gained exceptions that merely have a to_message method",
    "C09-token-reuse-shadowed-pipe": "missed at first; C09 gained the token-reuse cells (second request on the token while the first is in its handler)",
    "C05-block1-late-szx": "caught as built",
    "C18-shutdown-window-late-request": "missed at first; C18 gained requests re-issued from failure callbacks inside the shutdown window",
    "C19-write-check-skipped-on-observe": "missed at first (Observe was only combined with GET); now combined with every method",
    "C19-percent-decode-after-check": "missed at first; the component alphabet gained percent-escaped forms",
    "C06-timeoutdict-read-no-refresh": "missed at first (needs depth 5); C06 gained long-transfer prefixes",
}


def main():
    confirmed = {}
    log = os.path.join(SRC, "confirm.log")
    if os.path.exists(log):
        for line in open(log):
            if "=>" in line:
                path = line.split(":")[0]
                confirmed[path] = line.strip().split("=> ")[1]
    os.makedirs(DST, exist_ok=True)
    if os.path.isdir(SRC):
        for pid in sorted(os.listdir(SRC)):
            d = os.path.join(SRC, pid)
            if not (os.path.isdir(d) and pid.startswith("C") and len(pid) == 3):
                continue
            for name in sorted(os.listdir(d)):
                sd = os.path.join(d, name)
                if not os.path.exists(os.path.join(sd, "patch.diff")) or not os.path.exists(os.path.join(sd, "demo.py")):
                    continue
                if confirmed.get(sd) != "CONFIRMED":
                    print("skip (not confirmed):", sd)
                    continue
                out = os.path.join(DST, "%s-%s" % (pid, name))
                os.makedirs(out, exist_ok=True)
                shutil.copy(os.path.join(sd, "patch.diff"), os.path.join(out, "patch.diff"))
                shutil.copy(os.path.join(sd, "demo.py"), os.path.join(out, "demo.py"))
                for extra in os.listdir(sd):
                    if extra.startswith("patch.orig"):
                        shutil.copy(os.path.join(sd, extra), os.path.join(out, "patch.as-delivered.diff"))
                meta = {}
                try:
                    meta = json.load(open(os.path.join(sd, "meta.json")))
                except Exception:
                    pass
                old = {}
                if os.path.exists(os.path.join(out, "meta.json")):
                    old = json.load(open(os.path.join(out, "meta.json")))
                m = {"property": pid, "name": name, "author": "independent sub-agent given only the property text",
                     "what_it_breaks": meta.get("what_it_breaks"), "needs_to_manifest": meta.get("needs_to_manifest"),
                     "files": meta.get("files"),
                     "confirmation": {"by": "tools/confirm_seed.sh in a scratch worktree", "demo_passes_without_change": True,
                                      "demo_fails_with_change": True, "stable_suite_passes_with_change": True},
                     "rebased": os.path.exists(os.path.join(out, "patch.as-delivered.diff")),
                     "history": STRENGTHENED.get("%s-%s" % (pid, name), "caught as built"),
                     "detection": old.get("detection", {})}
                json.dump(m, open(os.path.join(out, "meta.json"), "w"), indent=1)
    if "--matrix" in sys.argv:
        matrix()


def matrix():
    rows = []
    head = subprocess.run(["git", "-C", "/repo", "rev-parse", "--short", "HEAD"], capture_output=True, text=True).stdout.strip()
    for d in sorted(os.listdir(DST)):
        sd = os.path.join(DST, d)
        if not os.path.isdir(sd):
            continue
        meta = json.load(open(os.path.join(sd, "meta.json")))
        pid = meta["property"]
        r = subprocess.run(["git", "-C", "/repo", "apply", os.path.join(sd, "patch.diff")], capture_output=True, text=True)
        det = {"repo_head": head}
        if r.returncode != 0:
            det["error"] = "patch does not apply: " + r.stderr.strip()[:200]
        else:
            try:
                for cid in [pid] + RELATED.get(pid, []):
                    c = subprocess.run(["/verif/check", cid, "--tier", "quick", "--no-evidence"], capture_output=True, text=True)
                    clauses = sorted({l.split("clause=")[1].split(" ")[0] for l in c.stdout.splitlines() if "clause=" in l})
                    det[cid] = {"exit": c.returncode, "clauses": clauses[:6]}
            finally:
                subprocess.run(["git", "-C", "/repo", "checkout", "--", "."])
        meta["detection"] = det
        json.dump(meta, open(os.path.join(sd, "meta.json"), "w"), indent=1)
        own = det.get(pid, {})
        rows.append((d, own.get("exit"), ", ".join(own.get("clauses", [])) or det.get("error", ""),
                     ", ".join("%s=%s" % (k, v["exit"]) for k, v in det.items() if isinstance(v, dict) and k != pid)))
        print(rows[-1])
    with open(os.path.join(DST, "MATRIX.md"), "w") as f:
        f.write("# Seeded changes vs. checks (quick tier, /repo at %s)\n\n" % head)
        f.write("exit 1 = the property's own check reports a violation with the change applied.\n\n")
        f.write("| seeded change | own check exit | violated clauses | related checks |\n|---|---|---|---|\n")
        for r in rows:
            f.write("| %s | %s | %s | %s |\n" % r)


if __name__ == "__main__":
    main()
