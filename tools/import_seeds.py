#!/usr/bin/env python3
"""Copies confirmed seeded changes from /tmp/seeded (round 1) and /tmp/seeded2 (round 2) <ID>/<name>/ to /verif/seeded/<ID>-<name>/
and (re)builds the detection matrix: for every seeded change, apply it to a scratch worktree of /repo's HEAD, run the quick check of
its property (and related ones) against that worktree through VERIF_REPO, remove the worktree.  /repo itself is never touched."""
import json, os, shutil, subprocess, sys

SRCS = [("/tmp/seeded", 1), ("/tmp/seeded2", 2), ("/tmp/seeded3", 3), ("/tmp/seeded4", 4), ("/tmp/seeded5", 5), ("/tmp/seeded6", 6), ("/tmp/seeded7", 7), ("/tmp/seeded8", 8), ("/tmp/seeded9", 9), ("/tmp/seeded10", 10), ("/tmp/seeded11", 11)]
VERIF = os.path.dirname(os.path.dirname(os.path.abspath(__file__)))
DST = os.path.join(VERIF, "seeded")
RELATED = {"C02": ["C14"], "C03": ["C02", "C14"], "C14": ["C02"], "C10": ["C09", "C04", "C14"], "C18": ["C08"], "C08": [], "C07": ["C08", "C02"], "C09": ["C14", "C04", "C17"], "C11": ["C12"], "C12": ["C13"], "C13": ["C12"]}
STRENGTHENED = {
    "C03-dedup-swallows-ack": "missed at first; C03 gained forced message-ID collisions (stray ACK/RST and a peer request on the ID the CON is going to use)",
    "C03-timeout-fails-wrong-request": "missed by C03 at first (caught by C02 and C14); C03 gained a bystander request registered later",
    "C08-lost-trigger-during-render": "missed at first; C08 gained the scenario with a render that yields (S-OBS-slowrender)",
    "C08-error-ends-only-first-registration": "missed at first; C08 gained the scenario with two registrations from one endpoint (S-OBS-twotokens)",
    "C09-ducktyped-renderable": "missed at first; the outcome alphabet gained exceptions that merely have a to_message method",
    "C09-token-reuse-shadowed-pipe": "missed at first; C09 gained the token-reuse cells (second request on the token while the first is in its handler)",
    "C05-block1-late-szx": "caught as built",
    "C18-shutdown-window-late-request": "missed at first; C18 gained requests re-issued from failure callbacks inside the shutdown window",
    "C19-write-check-skipped-on-observe": "missed at first (Observe was only combined with GET); now combined with every method",
    "C19-percent-decode-after-check": "missed at first; the component alphabet gained percent-escaped forms",
    "C06-timeoutdict-read-no-refresh": "missed at first (needs depth 5); C06 gained long-transfer prefixes",
    # round 2
    "C01-nfc-string-encode": "missed at first; the string option alphabet gained non-NFC text",
    "C02-token-strip-collision": "missed at first; C02 gained S-REQ-tokenwrap (tokens that differ only in leading zero bytes / wrap of the counter)",
    "C03-unmatched-piggyback-keeps-retransmitting": "one of the two C03 round-2 changes was missed at first; C03 gained the piggy-backed response with a foreign token (ackresp-badtoken)",
    "C04-error-forgets-recent": "one of the two C04 round-2 changes was missed at first; C04 gained the ICMP-error and mid-lifetime clock-jump events",
    "C04-non-lifetime": "one of the two C04 round-2 changes was missed at first; C04 gained the ICMP-error and mid-lifetime clock-jump events",
    "C05-block1-final-ack-more": "missed at first; the server misbehaviour grid (b1-more-on-final, b1-continue-on-final) moved into the quick tier for 2, 4 and 5 blocks",
    "C05-block2-etag-vanishes": "missed at first; gained the b2-etag-dropped misbehaviour",
    "C07-error-fanout-last-only": "C07 gained a dedicated family: two observations to one server under a transport error",
    "C07-serial-half-boundary": "caught once the Block2 notification family and the 2^23 boundary numbers were in the alphabet",
    "C08-last-flag-lost-on-coalesced-trigger": "missed at first; the model's 'last' became sticky across coalesced triggers",
    "C08-rst-releases-backlogged-notification": "missed at first; registration end is now indexed before the event that causes it",
    "C09-site-root-lookup": "missed at first; C09 gained unknown-path variants (root, deep, trailing slash)",
    "C09-finished-exchange-drops-backlog": "missed at first; C09 gained pairs of slow requests from one peer",
    "C10-backlog-holds-piggyback": "missed at first; C10 gained the family of requests arriving while an own CON is unacknowledged",
    "C10-superseded-request-mid": "missed at first; C10 gained the same-token supersession family",
    "C12-persist-uninit": "missed by C12 at first (caught by C13's crash enumeration); C12 gained the persist/reload probe of an uninitialised window",
    "C13-response-init-own-piv": "missed at first; C13 gained the client-role operations Q / QP (own request answered by the peer)",
    "C14-cancel-unlocks-peer": "missed at first; C14 gained the withdrawal of a held-back request as a fault",
    "C15-maxsize-body-only": "missed at first; C15 gained the sweep over every frame size around the limit for every token length",
    "C16-ipv4-octet-255-uri-host": "missed at first; the host alphabet gained IPv4 literals with 255 and 0 octets",
    "C16-quote-hex-unpadded": "missed at first; the segment alphabet gained control characters below U+0010 followed by a hex digit, DEL and astral-plane text",
    "C18-superseded-handler-untracked": "missed at first; C18 gained the scenario slow-twice (token re-used while the first handler runs) and counts running handlers",
    "C18-empty-ack-timer-outlives-transport": "missed at first; the shutdown fault gained loop stalls after the 1st..6th iteration of the shutdown (late timers)",
    "C15-pong-skips-critical-check": "missed at first; the alphabet gained critical/elective options in Pong, Release and Abort",
    # round 6 (as-built run with the checks of commit 6f... before any extension: see DESIGN 12.5)
    "C03-response-mid-coincidence": "missed at first; C03 gained the older request's response carrying the message ID of the CON under test",
    "C04-stale-reply-after-mid-reuse": "harness fault at first (the state digest assumed a dict); the digest is now robust and the check reports the stale reply",
    "C05-block1-stateless-ack-stops": "missed at first; the strict server can now acknowledge non-final blocks with the final code and M=0 (ok-stateless)",
    "C06-timeoutdict-idle-never-rearms": "missed at first; C06 gained prefixes in which the state drains once and a new transfer is left alone for twice the lifetime",
    "C08-empty-reply-deduplicated": "missed at first; C08 gained S-OBS-midcollide (the server's first own message ID equals the ID of the registration request)",
    "C08-observer-table-keyed-by-token": "harness fault at first (the harness replaced the observer set); now only a plain set is replaced, and S-OBS-sametoken (two endpoints, identical token bytes) reports it",
    "C09-giveup-keeps-backlog-key": "missed at first; C09 gained giveup_then_later (separate responses never acknowledged, a request long after)",
    "C10-early-ack-on-duplicate": "missed at first; C10 gained the second copy of a CON request inside / outside the EMPTY_ACK_DELAY window",
    "C10-mcast-request-stale-token": "missed at first; C10 gained the multicast request that is given up and a late response on its token",
    "C11-piv-length-overannounced": "missed at first: accepted as 'representation only' because the result equalled the original; that tolerance is now limited to the k flag and the ID context spelling",
    "C11-seqno-handed-out-before-persisted": "missed by C11 at first (C13 caught it); C11 gained response binding across a process death of a file-backed client",
    "C12-send-first-stale-window": "missed at first; the lost-state family gained an own message protected before the first request",
    "C15-encode-2byte-threshold": "harness fault at first (OverflowError out of _serialize); serialisation errors are now violations",
    "C16-empty-userinfo-accepted": "missed at first; the authority family gained user info that is present but empty",
    "C17-wkc-ct-zero": "missed at first; the attribute alphabet gained the integer content format 0",
    "C17-wkc-stale-description": "missed at first; C17 gained a resource written against the bare interface (no get_link_description)",
    "C18-dispatch-error-stale-timer": "missed by C18 at first (C02 and C14 caught it); C18 gained the bystander that is also a client of the context that goes away",
    "C20-anchor-resolved-against-target": "missed at first; C20 gained links with relative anchors",
    "C20-zero-lt-treated-as-absent": "missed at first; C20 gained lifetime 0 in registrations and updates",
    # round 5 (several checks were extended from the authors' reports before the matrix was run; "missed at first" is what the
    # checks of commit 7582383 did, see DESIGN 12.5)
    "C01-recv-buffer": "missed at first; the fake socket now cuts a datagram that does not fit the buffer it is handed (as the kernel does) and C01 sends whole datagrams of up to 4096 bytes through the real recvmsg transport",
    "C02-ended-pipe-skips-interest-end": "missed at first; C02 gained S-REQ-earlywithdraw (request withdrawn in the step it was issued, remote resolution taking a turn of the loop)",
    "C04-recent-table-shared": "missed at first; C04 gained a second server endpoint of the same process",
    "C05-block2-client-max-cap-no-rescale": "missed at first; C05 gained large responses to a client limited to smaller blocks than the server's first Block2 response",
    "C05-block2-empty-nonfinal-block": "missed at first; C05 gained the b2-empty misbehaviour (more-flag set, no payload)",
    "C06-cachekey-repeated-option-collapse": "missed at first; C06 gained two operations that differ in a non-last value of a repeated option (Uri-Query)",
    "C08-final-notification-withdrawn": "missed at first; C08 gained the clause that the notification ending a registration is itself sent",
    "C09-eager-exception-repr": "missed at first; the outcome alphabet gained exceptions that cannot be printed",
    "C10-end-stop-drops-backlogged": "missed at first; C10 gained run_behind_release (a second slow request behind the node's own unacknowledged separate response)",
    "C11-fetch-outer-code-leak": "missed at first; C11 gained the rule that the outer code depends on Observe alone",
    "C11-echo-retry-stale-request-id": "out of reach at first (the change is in transports/oscore.py, which C11 did not drive); reported since C11 runs the real client transport against the real site wrapper over the virtual network (observation after an Echo recovery)",
    "C12-group-peers-share-window": "not reported: group OSCORE is outside C12's scope (the stand-in crypto has no signature / key-agreement primitives)",
    "C13-echo-token-per-process": "missed at first; C13 gained fixed histories with two process deaths around an Echo exchange",
    "C14-unmatched-piggyback-keeps-exchange": "missed at first; C14 gained the withdrawal of the request whose exchange is open",
    "C16-remote-netloc-lowercased-zone": "missed at first; the zone alphabet gained a zone with upper-case letters",
    "C17-wkc-filter-last-equals": "missed at first; filter values and paths containing '=' joined the alphabets",
    "C19-localpath-cache-shared-across-servers": "missed at first; C19 gained two file servers with roots of their own in one process",
    # round 4
    "C02-shutdown-window-accepts-requests": "missed at first; C02 and C18 gained a request submitted by another task after the 1st..4th loop iteration of the shutdown",
    "C03-cancelled-backlog-giveup-hangs": "missed at first; C03 gained pre=follower-withdrawn (a second request held back behind the CON under test and withdrawn)",
    "C04-dup-rearms-expiry": "missed at first (needs depth 7); C04 gained three long prefixes behind which the BFS continues",
    "C05-block2-followup-content-format": "missed at first; requests now carry Content-Format / Accept / a query and the strict server insists that Block2 follow-ups are the same request",
    "C06-timeoutdict-delete-leaves-stale-timer": "missed at first; C06 gained the refill prefixes (cache / spool runs empty, refilled after 0.7 lifetimes, used 0.6 lifetimes later)",
    "C10-dedup-covers-empty": "missed at first; C10 gained the message-ID crossing family (the peer's message carries the node's own just-acknowledged ID)",
    "C10-rst-helper-multicast-ping": "missed at first: a CON ping received on a multicast address had been a don't-care; the statement makes no exception, the Reset is now expected",
    "C11-chacha-tag-error-untranslated": "missed by the quick tier at first (ChaCha20 only in the thorough tier); every registered AEAD algorithm now gets two tampering configurations in both tiers",
    "C11-echo-challenge-reuses-nonce": "missed at first; C11 gained the Echo-challenge family (no nonce re-used across a loss of replay state)",
    "C12-response-rewinds-window": "missed at first; the arrival alphabet gained responses of the peer carrying its own Partial IV (the context in both roles)",
    "C15-empty-csm-falsy-gate": "missed at first; the alphabet gained a CSM without options and one with only an unknown elective option",
    "C16-host-regname-quote-ipliteral": "missed at first; C16 gained composition with Uri-Host / Uri-Port options over literal, zoned and named destinations",
    "C17-block1-loses-original-path": "missed at first; C17 gained request bodies arriving in Block1 blocks below nested sites",
    "C18-backlog-canceller-stale-entry": "missed at first; C18 gained obs-server-lateack (CON notifications acknowledged late)",
    "C18-incoming-table-shared-across-contexts": "missed at first; C18 gained a second bystander that is a server with a running handler and an observer",
    "C19-inm-placeholder-survives-failed-if-match": "missed at first; the conditions gained If-None-Match combined with If-Match",
    "C20-lt-applied-before-base-check": "missed at first; C20 gained an update with a valid lt next to a repeated base",
    "C20-reregister-refresh-shortcut": "missed at first; C20 gained the re-registration that carries no parameter at all",
    "C13-first-after-load": "written against the crash enumeration (a lifetime without any file-system effect); C13 gained process death between two operations as an operation (K) before this seed was run, so it was caught",
    # round 3
    "C02-cancel-queued-drops-backlog-key": "missed by C02 at first (caught by C14); C02 gained the withdrawal of a request (held back or in flight) as a fault",
    "C03-cancel-by-remote": "missed at first (caught by C14); C03 gained the CON that had to wait behind two answered requests to the same endpoint ('queued')",
    "C03-giveup-log-class-tuning": "missed at first; C03 gained the tuning handed over as a TransportTuning subclass instead of an instance ('class')",
    "C05-block1-szx-grows": "missed at first; the strict server may now state its own larger SZX in its 2.31s (ok-own-szx, from block k on)",
    "C05-block2-midway-nonblock": "missed at first; C05 gained later blocks refused with 4.08 / 5.03 or answered without Block2",
    "C06-block1-multiple-of-size-accepted": "missed at first; the Block1 alphabet gained empty and double-size non-final continuations and the final block behind them",
    "C06-blockkey-ignores-request-tag": "missed at first; transfers that differ only in Request-Tag / Accept joined the alphabet",
    "C09-nstart-holds-acks": "missed by C09 at first (caught by C14); C09 gained the isolation runs in which the acknowledgement of X's separate response is lost for good",
    "C10-reliable-tuning-multicast": "missed at first; the outgoing multicast cells gained the transport-tuning reliability preference (class and instance)",
    "C11-empty-idctx-kdf-nil": "missed at first; foreign contexts now include the near misses absent vs empty ID context and another salt, for requests and responses",
    "C11-window-struck-before-verify": "missed by C11 at first (caught by C12); every rejected forgery is now followed by the genuine message on the same recipient",
    "C12-crash-keeps-stale-window": "missed by C12 at first (caught by C13); C12 gained the family 'state lost for real' on a file-backed context",
    "C15-elective-option-swallows-signal": "missed at first; the alphabet gained elective options in Ping / Release / Abort and a critical option behind an elective one",
    "C16-ipv6-default-port-strip": "missed at first; the destination (scheme, host, port) of every accepted authority is now compared with the URI",
    "C16-uses-params-last-segment": "missed at first; C16 gained sub-delims, ':' and '@' standing unescaped in path segments and query items",
    "C17-upa-nested-site": "missed at first; C17 gained the Uri-Path-Abbrev family (every abbreviation against the spelled-out path over six .well-known trees)",
    "C18-blockwise-obs-double-cancel": "missed at first; C18 gained the scenario with a block-wise first notification (obs-client-bw)",
    "C18-late-subscriber-loses-shutdown-error": "missed at first; C18 gained consumers that subscribe only after the shutdown (errback and async iteration)",
    "C19-spool-leak-on-valueerror": "missed at first; C19 gained the clause 'a request answered with an error leaves the served tree unchanged'",
    "C20-based-links-cache-stale-base": "missed at first; C20 gained the update that sets an explicit base (every lookup follows each step anyway)",
    "C20-linkformat-escape-order": "missed at first; C20 gained values that need quoting (double quote, trailing backslash) - which found C20-F4 on the unchanged tree; the seed was rebased onto the fix",
    # round 7
    "C02-preset-token-kept": "missed at first; C02 gained the application-level retry that re-sends the same Message object, and answers that name the message ID of the request datagram they answer",
    "C02-timeout-escapes-wrapping": "missed at first; the ICMP / sendmsg error faults come with a second errno (ETIMEDOUT) that Python maps to a builtin exception class",
    "C04-own-exchange-forgets-peer-mid": "missed in the quick tier (needs 5 events); C04 gained the prefix 'separate response sent and acknowledged' with the server's counter on the request's ID",
    "C04-piggyback-mid-zero": "missed at first; C04 gained request message IDs 0/1/2 and the rule that every ACK names a request received from that endpoint",
    "C05-block2-nonzero-first-block": "missed at first; C05 gained managed requests that carry the application's own Block2 option (NUM 0..n)",
    "C07-reset-time-property-class-tuning": "missed at first; C07 gained observing requests whose tuning is handed over as a class",
    "C09-last-event-ends-pipe-first": "missed at first; the outcome table gained messages that cannot be serialised - which showed defect C09-F2 on the unchanged tree (fixed by 5209cbb)",
    "C10-endpoint-eq-drops-port": "missed at first; C10 gained exchanges with the peer's other port while a CON to its first port is open, C14's second endpoint became another port of the same host",
    "C10-error-forgets-duplicates": "missed by C10 at first (caught by C04); the duplicate-in-window runs gained a transport error before the duplicate",
    "C11-kid-context-lookup-default": "missed at first; C11 gained the server-side choice of the context from a credentials map (4 ID contexts in all orders)",
    "C12-last-seqno-refused": "missed at first; the arrival alphabet gained the number 2^40-1",
    "C12-odd-outer-code-inits-window": "missed at first; the arrival alphabet gained recorded requests whose outer code was rewritten (0.00, 7.01, 2.04)",
    "C13-piv-strip-trailing-zero": "missed at first; C13 gained histories across the numbers where the Partial IV grows by a byte or ends in zero bytes",
    "C14-response-timeout-forgets-backlog": "missed at first; C14 gained the server-role scenarios with the separate response on the wire first, one of them with a peer that never acknowledges it",
    "C14-shared-backlog-list": "harness fault at first (state shared between contexts made executions of one process influence each other); the explorer now re-executes violations in a fork of a pristine interpreter and isolates executions when they disagree; C14 gained S-BL-cross",
    "C15-csm-maxsize-lowers-own-limit": "missed at first; the frame alphabet gained a peer CSM with a small Max-Message-Size",
    "C16-query-not-cleared-on-reparse": "missed at first; C16 gained the history-independence oracle (set again, copy(uri=)) - which showed defect C16-F4 on the unchanged tree (fixed by 06427ac)",
    "C18-udp6-close-after-yield": "missed at first; C18 gained a datagram of the peer becoming readable during the shutdown",
    "C19-delete-root-by-empty-segment": "missed at first; C19 gained every spelling of the root after a history that emptied the tree",
    "C19-open-file-survives-replace": "missed at first; C19 gained a replacement through the server between a partial and a second fetch",
    "C20-simple-reg-commit-before-fetch": "missed at first; C20 gained simple registration with every outcome of the link fetch",
    "C20-param-merge-stops-at-unchanged": "missed at first; C20 gained updates with several parameters, one of them unchanged",
    # round 8
    "C02-empty-reply-mid-zero": "missed at first; the forgery menu gained a confirmable response under message ID 0",
    "C02-ended-pipe-exception-falls-through": "missed at first; C02 gained the Reset for a finished request whose exchange is still open",
    "C03-giveup-resets-held-back": "missed by C03 (the held-back message is C14's subject); C14 gained the rule that held-back requests fail with the error class of what happened to the remote",
    "C03-shared-default-tuning": "missed at first; C03 gained a CON without a tuning of its own after another message's default tuning was edited in place",
    "C04-reply-repetition-budget": "missed at first (needs 5 copies); C04 gained the prefix with the request and seven copies of it",
    "C06-block1-final-block2-size-ignored": "missed at first; C06 gained combined Block1 + Block2 transfers",
    "C07-error-overtakes-pending": "missed at first; C07 gained a consumer that is busy in the loop body while notifications and the end arrive",
    "C08-cancelled-trigger-aborts-fanout": "missed at first; C08 gained a state change in the loop pass in which a Reset is read (world: same-pass callbacks)",
    "C08-notification-timeout-strands-held-back": "missed at first; C08 gained an observer with two registrations that never acknowledges",
    "C09-piggyback-mid-zero": "missed by C09 at first (C04 caught it); C09 gained requests under message ID 0 and the rule that the acknowledgement names the request",
    "C10-proxy-copy-keeps-mtype": "missed at first (the change is in aiocoap/proxy/server.py); C10 gained the node as a forward proxy",
    "C10-request-rides-piggyback": "missed at first; C10 gained the node's own request going out on the token of the peer's request that is still with its handler",
    "C11-max-length-id-refused": "missed at first; C11 gained contexts loaded from directories with every admissible ID length per algorithm",
    "C11-nonconfirmable-echo-challenge-dropped": "missed at first (aiocoap/oscore_sitewrapper.py); C11's transport family gained non-confirmable requests",
    "C12-provisioned-seqfile-empty-window": "missed at first; C12 gained sequence files that say nothing usable about what was received",
    "C13-store-off-loop": "missed at first; C13 runs every operation inside a running loop, executor jobs are deferred and die with the process",
    "C15-empty-with-content-rejected": "missed at first; the frame alphabet gained Empty messages with a token / an option / a payload",
    "C16-remote-reuse-ignores-scheme": "missed at first; the history oracle gained the same URI under another scheme as predecessor",
    "C17-falsy-resource-exact-match": "missed at first; C17 gained resource objects that are false in a boolean context",
    "C18-outbound-task-cancelled-silently": "missed at first; C18 gained a request submitted in the very step that starts the shutdown",
    "C18-shutdown-waits-for-handlers": "missed at first; C18 gained a handler whose clean-up after the cancellation outlasts the shutdown time-out",
    "C19-nfkc-fallback-lookup": "missed at first; the component alphabet gained compatibility forms of dots and slashes and the names next to the root",
    "C19-prune-empty-dirs-overshoots-root": "harness fault at first (the emptied-tree history assumed its directories); the history with the deepest file deleted last was added",
    "C20-empty-update-fastpath-stale-base": "missed at first; C20 gained updates of an endpoint that has moved to another address",
    # round 9
    "C01-enum-cache-evict": "missed at first; C01 gained an ordinary datagram parsed again after 3000 datagrams with unregistered option numbers",
    "C02-retire-recomputes-key": "missed at first; C02 gained the same Message object submitted again while its first request is outstanding",
    "C02-abandoned-timeout-drops-backlog": "missed by C02 (needs every copy lost); C14 reports it (withdrawn head of the queue given up)",
    "C03-initial-timeout-additive-spread": "reported, but the as-built run took more than half an hour (a pristine interpreter per job); the explorer now keeps one per worker and remembers confirmed signatures",
    "C05-block-option-three-bytes": "missed by C05 at first (C01 caught it); C05 gained two transfers of 65700 bytes in 16-byte blocks",
    "C06-block2-empty-rendering-keeps-stale-cache": "missed at first; C06 gained a representation that is sometimes empty",
    "C06-timeoutdict-overwrite-no-refresh": "missed at first; C06 gained the prefixes in which an entry that survived a sweep is replaced shortly before the next one",
    "C07-cancelled-wait-drops-notifications": "missed at first; C07 gained the consumer whose wait timed out and who comes back to the iterator - which showed defect C07-F3 on the unchanged tree (fixed by 7b8f423)",
    "C07-token-trailing-zero-collision": "not reported by C07 (it needs thousands of other requests); C02's forced token-counter scenario reports it",
    "C08-observe-number-counts-triggers": "missed at first; C08 gained S-OBS-slowrender-two (exactly one change while the previous re-rendering is under way)",
    "C09-diag-payload-ascii-only": "missed at first; the outcome table gained a non-ASCII diagnostic text",
    "C09-wkc-nomatch-unicast-suppressed": "missed at first; C09 gained a discovery request whose filter matches nothing, C17 the rule that listings for unicast requesters are not marked for suppression",
    "C10-broken-error-ignores-no-response": "not reported by C10 (the change is in pipe.py); C09's No-Response x failing-renderer cells report it",
    "C10-non-stored-as-reply": "missed at first; C04 gained the handler kind whose separate response is sent non-confirmably",
    "C11-blockwise-key-drops-context": "missed at first; C11's transport family gained the guarded block-wise resource and requests outside the security context for its later blocks",
    "C12-plain-response-inits-window": "missed at first; the arrival alphabet gained plain responses (no Partial IV of their own) in both window states",
    "C13-exhausted-response-fallback": "missed at first; C13 gained responses at the end of the number space",
    "C14-released-mid-zero-not-counted": "missed at first; C14 gained S-BL-wrap (the message-ID counter wraps while messages are held back)",
    "C14-failed-release-strands-backlog": "not reported: it needs a transport whose send() raises for a message released from the backlog (udp6 reports send errors through its error path instead) or an application that spoils a message after submitting it; on the unchanged tree such a raise escapes into the event loop as well",
    "C15-partial-extlen-early-reject": "missed at first; C15 gained frames of 65 kB - 1 MB cut inside their header (1 MiB local maximum)",
    "C15-release-error-deferred-to-close": "missed at first; the client-role runs gained a peer that stops reading (connection_lost never comes)",
    "C16-host-lowercase-table-misses-z": "missed at first; the host alphabet gained every upper-case letter behind a percent-escape",
    "C17-wkc-shared-site-visited": "missed at first; C17 gained one Site object mounted under several prefixes",
    "C03-mtype-kwarg-replaces-tuning": "missed at first; C03 gained the CON created with the deprecated mtype keyword next to its tuning",
    "C03-promoted-held-back-drops-rest": "harness fault at first (the set-up of the queued scenario insisted on the CON being sent; C14 reported the change); C03 now reports a held-back CON that never gets onto the wire",
    "C09-error-stopper-late-binding": "missed at first; C09 gained a transport error for one peer while the other peer's slow requests are under way (every order of two and three requests)",
    "C09-inherited-handler-table": "missed at first; C09 gained resource classes derived from one another, requested in every order of two (and some of three) requests",
    "C12-failed-open-unlocks": "missed at first; C12 gained histories over one context directory (open, waiting open, request, replay, clean stop, garbage collection); the filelock stand-in now locks files (inodes), not names",
    "C12-load-before-lock": "missed at first; same family: an open that waits for the holder, who meanwhile accepts a request and stops cleanly",
    "C15-empty-skips-option-parse": "missed at first; the frame alphabet gained Empty messages with a broken option area",
    "C15-large-frame-payload-marker-presplit": "missed at first; the big frames (and a 5000-byte one) carry an option value with a 0xFF byte",
    "C19-shared-block-buffer-across-executor-reads": "harness fault at first (a handler that uses the loop's executor never finished on the virtual loop); executor jobs are now callbacks under the scheduler's control, and C19 gained block requests handed to the server in the same pass",
    "C02-cancelled-request-error-aborts-fanout": "missed at first; C02 gained a request withdrawn in the loop pass in which a Reset or a transport error for it is read",
    "C06-block2-szx7-cap-breaks-slicing": "missed at first; C06 gained requests that ask for the (reserved) size exponent 7",
    "C08-direct-send-forgets-held-back": "missed at first; C08 gained registrations whose notifications are partly confirmable and partly non-confirmable",
    "C10-fallback-ack-narrow-except": "missed by C10 at first (C09's unserialisable-response outcomes reported it); C10 gained handlers whose answer cannot be serialised (seven kinds x four delays x CON/NON) and the count of acknowledgements per request",
    "C20-linkformat-parse-repeated-attr-collapsed": "missed at first; C20's link alphabet gained a link with a repeated attribute",
    "C18-backlog-continuation-deferred": "missed at first; C18 gained datagrams (among them an acknowledgement) read in the pass in which the shutdown begins, before its first step",
    "C18-peer-shutdown-stops-all-handlers": "not reported by C18 (nothing in it is about the context's own shutdown); C08's rule that a registration only goes away for a reason concerning its own endpoint reports it",
    "C19-expanduser-after-join": "missed at first; C19 gained the server whose root is '.' with the home directory elsewhere",
    "C20-linkformat-empty-value-dropped": "missed at first; C20 gained empty parameter and attribute values and compares link attributes in resource lookups",
}


def main():
    for SRC, rnd in SRCS:
        import_from(SRC, rnd)
    if "--matrix" in sys.argv:
        matrix()


def import_from(SRC, rnd):
    confirmed = {}
    log = os.path.join(SRC, "confirm.log")
    if os.path.exists(log):
        for line in open(log):
            if "=>" in line:
                path = line.split(":")[0]
                confirmed[path] = line.strip().split("=> ")[1]
    os.makedirs(DST, exist_ok=True)
    if os.path.isdir(SRC):
        for pid in sorted(os.listdir(SRC)):
            d = os.path.join(SRC, pid)
            if not (os.path.isdir(d) and pid.startswith("C") and len(pid) == 3):
                continue
            for name in sorted(os.listdir(d)):
                sd = os.path.join(d, name)
                if not os.path.exists(os.path.join(sd, "patch.diff")) or not os.path.exists(os.path.join(sd, "demo.py")):
                    continue
                if confirmed.get(sd) != "CONFIRMED":
                    print("skip (not confirmed):", sd)
                    continue
                out = os.path.join(DST, "%s-%s" % (pid, name))
                os.makedirs(out, exist_ok=True)
                if not os.path.exists(os.path.join(out, "patch.as-delivered.diff")):      # (rebased in place after a later fix: keep)
                    shutil.copy(os.path.join(sd, "patch.diff"), os.path.join(out, "patch.diff"))
                shutil.copy(os.path.join(sd, "demo.py"), os.path.join(out, "demo.py"))
                for extra in os.listdir(sd):
                    if extra.startswith("patch.orig"):
                        shutil.copy(os.path.join(sd, extra), os.path.join(out, "patch.as-delivered.diff"))
                meta = {}
                try:
                    meta = json.load(open(os.path.join(sd, "meta.json")))
                except Exception:
                    pass
                old = {}
                if os.path.exists(os.path.join(out, "meta.json")):
                    old = json.load(open(os.path.join(out, "meta.json")))
                m = {"property": pid, "name": name, "round": old.get("round", rnd), "author": "independent sub-agent given only the property text",
                     "what_it_breaks": meta.get("what_it_breaks"), "needs_to_manifest": meta.get("needs_to_manifest"),
                     "files": meta.get("files"),
                     "confirmation": {"by": "tools/confirm_seed.sh in a scratch worktree", "demo_passes_without_change": True,
                                      "demo_fails_with_change": True, "stable_suite_passes_with_change": True},
                     "rebased": os.path.exists(os.path.join(out, "patch.as-delivered.diff")),
                     "history": STRENGTHENED.get("%s-%s" % (pid, name), old.get("history") or "caught as built"),
                     "detection": old.get("detection", {})}
                if old.get("retired"):
                    m["retired"] = old["retired"]
                json.dump(m, open(os.path.join(out, "meta.json"), "w"), indent=1)


def matrix():
    rows = []
    head = subprocess.run(["git", "-C", "/repo", "rev-parse", "--short", "HEAD"], capture_output=True, text=True).stdout.strip()
    for d in sorted(os.listdir(DST)):
        sd = os.path.join(DST, d)
        if not os.path.isdir(sd):
            continue
        meta = json.load(open(os.path.join(sd, "meta.json")))
        pid = meta["property"]
        if meta.get("retired"):
            rows.append((d, meta.get("round", 1), "retired", "made behaviour-preserving by a later fix: see meta.json", ""))
            continue
        only = [a for a in sys.argv[1:] if not a.startswith("--")]
        if only and not any(d.startswith(o) for o in only):
            det = meta.get("detection", {})
            own = det.get(pid, {})
            rows.append((d, meta.get("round", 1), own.get("exit"), ", ".join(own.get("clauses", [])) or det.get("error", ""),
                         ", ".join("%s=%s" % (k, v["exit"]) for k, v in det.items() if isinstance(v, dict) and k != pid)))
            continue
        wt = "/tmp/wt/matrix-%d" % os.getpid()
        os.makedirs("/tmp/wt", exist_ok=True)
        subprocess.run(["git", "-C", "/repo", "worktree", "add", "-q", "--detach", wt, "HEAD"], check=True)
        det = {"repo_head": head}
        try:
            r = subprocess.run(["git", "-C", wt, "apply", os.path.join(sd, "patch.diff")], capture_output=True, text=True)
            if r.returncode != 0:
                det["error"] = "patch does not apply: " + r.stderr.strip()[:200]
            else:
                for cid in [pid] + RELATED.get(pid, []):
                    c = subprocess.run([os.path.join(VERIF, "check"), cid, "--tier", "quick", "--no-evidence"], capture_output=True, text=True,
                                       env=dict(os.environ, VERIF_REPO=wt))
                    clauses = sorted({l.split("clause=")[1].split(" ")[0] for l in c.stdout.splitlines() if "clause=" in l})
                    det[cid] = {"exit": c.returncode, "clauses": clauses[:6]}
        finally:
            subprocess.run(["git", "-C", "/repo", "worktree", "remove", "--force", wt])
        meta["detection"] = det
        json.dump(meta, open(os.path.join(sd, "meta.json"), "w"), indent=1)
        own = det.get(pid, {})
        rows.append((d, meta.get("round", 1), own.get("exit"), ", ".join(own.get("clauses", [])) or det.get("error", ""),
                     ", ".join("%s=%s" % (k, v["exit"]) for k, v in det.items() if isinstance(v, dict) and k != pid)))
        print(rows[-1], flush=True)
    with open(os.path.join(DST, "MATRIX.md"), "w") as f:
        f.write("# Seeded changes vs. checks (quick tier, /repo at %s)\n\n" % head)
        f.write("exit 1 = the property's own check reports a violation with the change applied.\n\n")
        f.write("| seeded change | round | own check exit | violated clauses | related checks |\n|---|---|---|---|---|\n")
        for r in rows:
            f.write("| %s | %s | %s | %s | %s |\n" % r)


if __name__ == "__main__":
    main()
