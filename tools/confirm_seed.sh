#!/bin/bash
# tools/confirm_seed.sh <seed dir with patch.diff+demo.py> : independent confirmation in a scratch worktree:
#   demo passes without the change, fails with it, and the repository's stable tests still pass with it.
D="$1"; WT=/tmp/wt/confirm-$$
git -C /repo worktree add -q --detach "$WT" HEAD || exit 3
cd "$WT"
timeout 300 /venv/bin/python "$D/demo.py" > "$D/confirm_demo_clean.log" 2>&1; c=$?
git apply "$D/patch.diff" || { echo "$D: PATCH DOES NOT APPLY"; git -C /repo worktree remove --force "$WT"; exit 3; }
timeout 300 /venv/bin/python "$D/demo.py" > "$D/confirm_demo_changed.log" 2>&1; m=$?
/verif/tools/baseline.sh "$WT" > "$D/confirm_suite.log" 2>&1; s=$?
cd /; git -C /repo worktree remove --force "$WT"
echo "$D: demo_clean_exit=$c demo_changed_exit=$m suite_exit=$s  => $([ $c = 0 ] && [ $m != 0 ] && [ $s = 0 ] && echo CONFIRMED || echo NOT-CONFIRMED)"
