#!/usr/bin/env python3
"""Ad-hoc mutation run: tools/mut.py <repo-relative file> <old> <new> <ID> [<ID>...]
Applies one textual replacement in a scratch worktree of /repo's HEAD, runs the quick checks against it (VERIF_REPO)."""
import os, subprocess, sys
f, old, new, ids = sys.argv[1], sys.argv[2], sys.argv[3], sys.argv[4:]
wt = '/tmp/wt/mut-%d' % os.getpid()
os.makedirs('/tmp/wt', exist_ok=True)
subprocess.run(['git', '-C', '/repo', 'worktree', 'add', '-q', '--detach', wt, 'HEAD'], check=True)
try:
    p = wt + '/' + f
    s = open(p).read()
    if s.count(old) != 1:
        print('pattern occurs %d times' % s.count(old)); sys.exit(3)
    open(p, 'w').write(s.replace(old, new))
    for i in ids:
        r = subprocess.run(['/verif/check', i, '--tier', 'quick', '--no-evidence'], capture_output=True, text=True, env=dict(os.environ, VERIF_REPO=wt))
        lines = [l for l in r.stdout.splitlines() if l.startswith(('VIOLATION', 'KNOWN', 'FAULT', i)) or 'clause=' in l]
        print('%s exit=%d' % (i, r.returncode)); print('\n'.join('   ' + l for l in lines[:12]))
        if r.returncode == 2: print(r.stdout[-1500:], r.stderr[-1500:])
finally:
    subprocess.run(['git', '-C', '/repo', 'worktree', 'remove', '--force', wt])
