#!/bin/bash
# tools/all_quick.sh [seed ...]: every quick check from a fresh process for each VERIF_SEED; prints non-zero exits.
cd "$(dirname "${BASH_SOURCE[0]}")/.." || exit 2
for seed in "${@:-0}"; do
  for id in C01 C02 C03 C04 C05 C06 C07 C08 C09 C10 C11 C12 C13 C14 C15 C16 C17 C18 C19 C20; do
    s=$(date +%s); out=$(VERIF_SEED=$seed ./check $id --tier quick --no-evidence 2>&1); rc=$?; e=$(date +%s)
    echo "seed=$seed $id exit=$rc $((e-s))s $(echo "$out" | tail -1 | cut -c1-150)"
    [ $rc != 0 ] && echo "$out" | grep -E "VIOLATION|FAULT|clause" | head -5
  done
done
