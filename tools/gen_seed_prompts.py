#!/usr/bin/env python3
"""tools/gen_seed_prompts.py <out dir> <worktree base> : writes <out>/<ID>/prompt.txt for a fresh round of independently written
property-breaking changes.  A prompt contains the property text, the scratch worktree the author may use, the one-line titles of
the changes earlier rounds produced for that property (so that the new ones differ), and the protocol (suite in `unshare -n`,
demo both ways, deliverables).  Nothing about /verif is mentioned: the authors must not know the checks."""
import json, os, sys

OUT, WT = sys.argv[1], sys.argv[2]
props = [json.loads(l) for l in open("/verif/properties.jsonl")]
earlier = {}
for d in sorted(os.listdir("/verif/seeded")):
    mp = os.path.join("/verif/seeded", d, "meta.json")
    if os.path.exists(mp):
        m = json.load(open(mp))
        earlier.setdefault(m["property"], []).append((m["name"], ", ".join(m.get("files") or []), (m.get("what_it_breaks") or "")[:200]))

SHIMNOTE = """NOTE for this property: the Python packages cbor2, cryptography and filelock are NOT installed in this sandbox, so `import aiocoap.oscore` fails and the suite's OSCORE tests are skipped. Minimal stand-in modules for exactly the API surface aiocoap.oscore uses are provided in /tmp/seeded/shims — put that directory on sys.path in your demo (`sys.path.insert(1, "/tmp/seeded/shims")` after inserting the worktree at position 0), and import `aiocoap.oscore` only after that. With them, tests/test_oscore.py's RFC 8613 vector tests can be run: `cd {wt} && PYTHONPATH=/tmp/seeded/shims /venv/bin/python -c "import aiocoap.defaults, pytest, sys; sys.exit(pytest.main(['-q','tests/test_oscore.py','-p','no:cacheprovider']))"` (3 of them fail already on the unchanged tree for lack of primitives in the stand-ins; the other 18 must keep passing with your change).

"""
FSNOTE = """
SAFETY NOTE (important): this property is about a file server that can write and delete files. Your demo and your experiments must serve ONLY a fresh temporary directory (tempfile.mkdtemp) and must never issue PUT/DELETE requests whose path could resolve outside that directory on the real file system (demonstrate escapes with a harmless sentinel file that you created yourself in a second temporary directory).
"""

T = """You are helping to test a verification harness by producing REALISTIC BUGS ("seeded changes") in the Python library chrysn/aiocoap (a pure-Python asyncio CoAP implementation). You work ONLY in your own scratch git worktree of the repository at {wt} (never touch /repo, never read or touch /verif — it must stay unknown to you). No network is available.

The semantic property you must break:

{id} — {title}

Statement: {statement}

Quantified over ({over}): {qtext}

Anchored in: {files}

{shim}IMPORTANT: {n} changes for this property were already produced by others; yours must use DIFFERENT mechanisms / code sites / triggering conditions than these:
{earlier}
Produce TWO NEW ones (different from all of the above and from each other). Prefer the least obvious corners of the property statement: clauses, quantifier ranges, anchored files and interactions with neighbouring layers that none of the changes above touches. A change that needs three cooperating conditions is better than one that needs one.

Your task: produce TWO different, independent source changes to aiocoap (each a small patch to files under {wt}/aiocoap/) such that for each change:
 1. the library still imports and the EXISTING test suite still passes exactly as before. Run it from the worktree directory so the worktree's aiocoap is imported:
      cd {wt} && unshare -n sh -c 'ip link set lo up; /venv/bin/python -m pytest -q -p no:cacheprovider --timeout=900 --continue-on-collection-errors --deselect tests/test_reverseproxy.py --deselect tests/test_tls.py'
    (run it inside `unshare -n` exactly like that: other people run the same suite concurrently on this machine and the tests would otherwise talk to each other on UDP port 5683. Expect exactly these failures even without any change: the two tests named `test_uri_parser` (NOT `test_uri_parser2`) in tests/test_client.py.)
    (those deselected tests fail already without any change; tests.test_server.TestServer::test_big_resource is flaky; everything else listed under "stable_pass" in /root/.vp/BASELINE.json must still pass. The full suite takes 1-2 minutes. First verify with `cd {wt} && /venv/bin/python -c "import aiocoap; print(aiocoap.__file__)"` that the worktree copy is what gets imported.)
 2. the change BREAKS the property above — but only under something specific: a particular interleaving / timing, a fault at a particular point, a multi-step sequence of operations, an unusual input, a boundary value, or two cooperating code sites that each look fine alone. NOT something that ordinary use or the existing tests would expose at once. Think of realistic slips: off-by-one at a boundary, a key of a shared table missing one component, check-then-act in the wrong order, a forgotten clean-up on one path, a wrong comparison operator, state updated before validation, etc. The two changes should be in different mechanisms/places.
 3. you provide a demonstration: a small standalone Python program (or pytest file) `demo.py` that FAILS (non-zero exit / assertion) with the change applied and PASSES on the unchanged worktree. It should exercise the real library code (e.g. via asyncio with real loopback sockets, or by calling the internal classes directly with fakes). Run it like: cd {wt} && /venv/bin/python {out}/{id}/<name>/demo.py   (make it insert the current directory at sys.path[0] so the worktree's aiocoap is used). Keep each demo fast (< 60 s); if real time-outs are needed prefer shrinking them through the library's TransportTuning or by patching timing constants inside the demo.

Deliver, for each of the two changes, a directory {out}/{id}/<short-name>/ containing:
  - patch.diff  (output of `git -C {wt} diff` for ONLY that change; must apply with `git apply` to a clean checkout of the same commit)
  - demo.py     (the demonstration)
  - meta.json   {{"property": "{id}", "title": "...", "files": [...], "what_it_breaks": "...", "needs_to_manifest": "...(the specific input/schedule/fault/sequence)...", "verified": {{"suite_passes_with_change": true/false, "demo_fails_with_change": true/false, "demo_passes_without_change": true/false}}, "commands_run": [...]}}
After saving each patch.diff, restore the worktree to clean (`git -C {wt} checkout -- .`) before starting the next change, and leave the worktree clean at the end. Do not commit anything and do not use `git stash` (the stash is shared between all worktrees of this repository; use `git diff > file; git checkout -- .; git apply file` instead). Actually run the suite and the demo both ways and report truthfully; if you could not make one of the two work, say so plainly rather than delivering an unverified one.
{fsnote}
Your final reply should be a short report: for each change, the name, one paragraph on what it does and what it needs to manifest, and the verification results.
"""

for p in props:
    pid = p["id"]
    wt = os.path.join(WT, pid)
    e = earlier.get(pid, [])
    txt = T.format(wt=wt, id=pid, title=p["title"], statement=p["statement"], over=", ".join(p["quantifier"]["over"]),
                   qtext=p["quantifier"]["text"], files=", ".join(p["anchors"]["files"]),
                   shim=SHIMNOTE.format(wt=wt) if pid in ("C11", "C12", "C13") else "", n=len(e),
                   earlier="\n".join(" - %s (%s): %s" % x for x in e) + "\n", out=OUT, fsnote=FSNOTE if pid == "C19" else "")
    os.makedirs(os.path.join(OUT, pid), exist_ok=True)
    open(os.path.join(OUT, pid, "prompt.txt"), "w").write(txt)
print("wrote", len(props), "prompts to", OUT)
