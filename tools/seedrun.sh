#!/bin/bash
# tools/seedrun.sh <patch.diff> <ID> [<ID>...]: apply a seeded change to a scratch worktree of /repo's HEAD (never to /repo
# itself, so other runs are not disturbed), run the quick checks against it through VERIF_REPO, remove the worktree.
P="$1"; shift
WT=/tmp/wt/seedrun-$$
mkdir -p /tmp/wt
git -C /repo worktree add -q --detach "$WT" HEAD || exit 3
trap 'git -C /repo worktree remove --force "$WT" 2>/dev/null' EXIT
git -C "$WT" apply "$P" || { echo "patch does not apply"; exit 3; }
for id in "$@"; do
  out=$(VERIF_REPO="$WT" "${VERIF_DIR:-/verif}"/check $id --tier quick --no-evidence 2>&1); rc=$?
  echo "$id exit=$rc"; echo "$out" | grep -E "^(VIOLATION|KNOWN|FAULT)|clause=" | head -8 | sed 's/^/   /'
  [ $rc = 2 ] && echo "$out" | tail -15
done
