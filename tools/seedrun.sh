#!/bin/bash
# tools/seedrun.sh <patch.diff> <ID> [<ID>...]: apply a seeded change to /repo, run the quick checks, undo it.
P="$1"; shift
git -C /repo apply "$P" || { echo "patch does not apply"; exit 3; }
for id in "$@"; do
  out=$(/verif/check $id --tier quick --no-evidence 2>&1); rc=$?
  echo "$id exit=$rc"; echo "$out" | grep -E "^(VIOLATION|KNOWN|FAULT)|clause=" | head -8 | sed 's/^/   /'
  [ $rc = 2 ] && echo "$out" | tail -15
done
git -C /repo checkout -- . ; git -C /repo status --short | head -3
