#!/usr/bin/env python3
"""Mutation sweep: how many small, syntactically valid edits of the anchored code does each quick check report?

  tools/mutsweep.py run  <out dir> [file ...]     phase 1: every mutant of the configured regions x the mapped quick checks
  tools/mutsweep.py suite <out dir> [file ...]    phase 2: the repository's own test suite on every mutant no check reported
  tools/mutsweep.py report <out dir>              table per file / property

Mutants are applied to scratch worktrees of /repo's HEAD (never to /repo) and the checks reach them through VERIF_REPO.
A mutant counts as reported only when a check exits 1 with a VIOLATION line; exit 2 (harness fault) and time-outs are listed
separately.  This is a measurement of the checks, not part of any check: nothing here decides a property."""
import json
import multiprocessing as mp
import os
import subprocess
import sys
import time

HERE = os.path.dirname(os.path.abspath(__file__))
VERIF = os.path.dirname(HERE)
sys.path.insert(0, HERE)
import mutgen  # noqa: E402

OSCORE_NAMES = ["RequestIdentifiers", "ReplayErrorWithEcho", "AeadAlgorithm", "AES_CCM", "AES_GCM", "ChaCha20Poly1305",
                "BaseSecurityContext", "CanProtect", "CanUnprotect", "SecurityContextUtils", "ReplayWindow",
                "FilesystemSecurityContext", "verify_start", "_xor_bytes", "_flip_first_bit"]
CONFIG = {
    "aiocoap/options.py": (None, ["C01", "C15", "C16"]),
    "aiocoap/optiontypes.py": (None, ["C01", "C05", "C06"]),
    "aiocoap/message.py": (None, ["C01", "C16", "C17", "C05", "C06", "C11"]),
    "aiocoap/numbers/optionnumbers.py": (None, ["C01", "C11"]),
    "aiocoap/tokenmanager.py": (None, ["C09", "C10", "C02", "C08", "C18", "C07"]),
    "aiocoap/messagemanager.py": (None, ["C03", "C10", "C14", "C02", "C04", "C08", "C18"]),
    "aiocoap/protocol.py": (None, ["C09", "C18", "C02", "C05", "C08", "C07"]),
    "aiocoap/pipe.py": (None, ["C09", "C08", "C02", "C18"]),
    "aiocoap/blockwise.py": (None, ["C06"]),
    "aiocoap/util/asyncio/timeoutdict.py": (None, ["C06"]),
    "aiocoap/interfaces.py": (None, ["C09", "C08", "C06", "C05"]),
    "aiocoap/resource.py": (None, ["C09", "C17", "C08", "C10"]),
    "aiocoap/error.py": (None, ["C09", "C03", "C16"]),
    "aiocoap/oscore.py": (OSCORE_NAMES, ["C11", "C12", "C13"]),
    "aiocoap/transports/tcp.py": (None, ["C15"]),
    "aiocoap/transports/rfc8323common.py": (None, ["C15"]),
    "aiocoap/util/__init__.py": (["hostportjoin", "hostportsplit", "quote_nonascii"], ["C16"]),
    "aiocoap/util/uri.py": (None, ["C16"]),
    "aiocoap/cli/fileserver.py": (["FileServer", "InvalidPathError", "TrailingSlashMissingError", "AbundantTrailingSlashError",
                                   "NoSuchFile", "hash_stat"], ["C19"]),
    "aiocoap/cli/rd.py": (None, ["C20"]),
    "aiocoap/util/linkformat.py": (None, ["C20", "C17"]),
    "aiocoap/transports/udp6.py": (["UDP6EndpointAddress", "MessageInterfaceUDP6.send", "MessageInterfaceUDP6.datagram_msg_received",
                                    "MessageInterfaceUDP6.datagram_errqueue_received", "MessageInterfaceUDP6.recognize_remote",
                                    "MessageInterfaceUDP6.shutdown", "MessageInterfaceUDP6.error_received",
                                    "MessageInterfaceUDP6.connection_lost", "InterfaceOnlyPktinfo"],
                                   ["C10", "C02", "C01", "C06", "C18", "C04"]),
    "aiocoap/transports/generic_udp.py": (None, ["C01"]),
    "aiocoap/numbers/constants.py": (None, ["C03", "C04", "C07", "C06", "C18"]),
    "aiocoap/numbers/codes.py": (None, ["C09", "C10", "C01"]),
}
PAR = int(os.environ.get("MUT_PAR", "4"))
JOBS = int(os.environ.get("MUT_JOBS", "4"))
TIMEOUT = int(os.environ.get("MUT_TIMEOUT", "400"))


def name_ranges(src, names):
    import ast
    if names is None:
        return None
    tree = ast.parse(src)
    out = []

    def walk(node, prefix):
        for n in getattr(node, "body", []):
            if isinstance(n, (ast.FunctionDef, ast.AsyncFunctionDef, ast.ClassDef)):
                q = prefix + n.name
                if q in names or n.name in names and not prefix:
                    out.append((n.lineno, n.end_lineno))
                elif isinstance(n, ast.ClassDef):
                    walk(n, q + ".")
    walk(tree, "")
    return out


def repo_head():
    return subprocess.run(["git", "-C", "/repo", "rev-parse", "--short", "HEAD"], capture_output=True, text=True).stdout.strip()


_slot = None


def _init(counter):
    global _slot
    with counter.get_lock():
        _slot = counter.value
        counter.value += 1
    wt = "/tmp/wt/ms-%d-%d" % (os.getppid(), _slot)
    os.makedirs("/tmp/wt", exist_ok=True)
    subprocess.run(["git", "-C", "/repo", "worktree", "remove", "--force", wt], capture_output=True)
    subprocess.run(["git", "-C", "/repo", "worktree", "add", "-q", "--detach", wt, "HEAD"], check=True)


def _wt():
    return "/tmp/wt/ms-%d-%d" % (os.getppid(), _slot)


def run_mutant(arg):
    path, m, checks = arg
    wt = _wt()
    p = os.path.join(wt, path)
    orig = open(os.path.join("/repo", path)).read()
    mutated = mutgen.apply(orig, m)
    rec = {"file": path, "line": m[0], "kind": m[1], "old": orig.encode()[m[2]:m[3]].decode(), "new": m[4],
           "span": [m[2], m[3]], "checks": {}, "killed_by": None}
    try:
        compile(mutated, p, "exec")
    except SyntaxError:
        rec["status"] = "syntax"
        return rec
    open(p, "w").write(mutated)
    try:
        for c in checks:
            t0 = time.time()
            pr = subprocess.Popen([os.path.join(VERIF, "check"), c, "--tier", "quick", "--no-evidence", "--jobs", str(JOBS)],
                                  stdout=subprocess.PIPE, stderr=subprocess.PIPE, text=True, start_new_session=True,
                                  env=dict(os.environ, VERIF_REPO=wt, VERIF_JOBS=str(JOBS)))
            try:
                so, se = pr.communicate(timeout=TIMEOUT)
                rc = pr.returncode
                clauses = sorted({l.split("clause=")[1].split(" ")[0] for l in so.splitlines() if "clause=" in l})[:5]
                tail = "" if rc in (0, 1) else (so[-600:] + se[-600:])
            except subprocess.TimeoutExpired:
                rc, clauses, tail = "timeout", [], ""
                try:
                    os.killpg(pr.pid, 9)
                except OSError:
                    pass
                pr.communicate()
            rec["checks"][c] = {"exit": rc, "clauses": clauses, "s": round(time.time() - t0, 1)}
            if tail:
                rec["checks"][c]["tail"] = tail
            if rc == 1:
                rec["killed_by"] = c
                break
        rec["status"] = "killed" if rec["killed_by"] else "survived"
    finally:
        open(p, "w").write(orig)
    return rec


def cmd_run(out, files):
    os.makedirs(out, exist_ok=True)
    head = repo_head()
    for path in files or CONFIG:
        names, checks = CONFIG[path]
        src = open(os.path.join("/repo", path)).read()
        ms = mutgen.mutants(src, name_ranges(src, names))
        outp = os.path.join(out, path.replace("/", "_") + ".jsonl")
        done = set()
        if os.path.exists(outp):
            for l in open(outp):
                r = json.loads(l)
                if r.get("head") == head:
                    done.add((r["span"][0], r["span"][1], r["new"]))
        todo = [(path, m, checks) for m in ms if (m[2], m[3], m[4]) not in done]
        print("%s: %d mutants, %d to do" % (path, len(ms), len(todo)), flush=True)
        if not todo:
            continue
        counter = mp.Value("i", 0)
        with mp.get_context("fork").Pool(PAR, initializer=_init, initargs=(counter,)) as pool, open(outp, "a") as f:
            n = 0
            for rec in pool.imap_unordered(run_mutant, todo):
                rec["head"] = head
                f.write(json.dumps(rec) + "\n")
                f.flush()
                n += 1
                if n % 20 == 0:
                    print("  %s %d/%d" % (path, n, len(todo)), flush=True)
        for i in range(PAR):
            subprocess.run(["git", "-C", "/repo", "worktree", "remove", "--force", "/tmp/wt/ms-%d-%d" % (os.getpid(), i)], capture_output=True)


def run_suite(arg):
    path, rec = arg
    wt = _wt()
    p = os.path.join(wt, path)
    orig = open(os.path.join("/repo", path)).read()
    b = orig.encode()
    mutated = (b[:rec["span"][0]] + rec["new"].encode() + b[rec["span"][1]:]).decode()
    open(p, "w").write(mutated)
    try:
        r = subprocess.run([os.path.join(HERE, "baseline.sh"), wt], capture_output=True, text=True, timeout=1500)
        rec["suite"] = {"exit": r.returncode, "out": r.stdout[-300:]}
    except subprocess.TimeoutExpired:
        rec["suite"] = {"exit": "timeout"}
    finally:
        open(p, "w").write(orig)
    return rec


def cmd_suite(out, files):
    head = repo_head()
    for path in files or CONFIG:
        outp = os.path.join(out, path.replace("/", "_") + ".jsonl")
        if not os.path.exists(outp):
            continue
        recs = [json.loads(l) for l in open(outp)]
        recs = [r for r in recs if r.get("head") == head]
        todo = [(path, r) for r in recs if r.get("status") == "survived" and "suite" not in r]
        print("%s: %d survivors without a suite verdict" % (path, len(todo)), flush=True)
        if not todo:
            continue
        counter = mp.Value("i", 0)
        res = {}
        with mp.get_context("fork").Pool(int(os.environ.get("MUT_SUITE_PAR", "8")), initializer=_init, initargs=(counter,)) as pool:
            for rec in pool.imap_unordered(run_suite, todo):
                res[(rec["span"][0], rec["span"][1], rec["new"])] = rec
                print("  ", rec["file"], rec["line"], rec["kind"], rec["suite"]["exit"], flush=True)
        with open(outp + ".tmp", "w") as f:
            for r in recs:
                r = res.get((r["span"][0], r["span"][1], r["new"]), r)
                f.write(json.dumps(r) + "\n")
        os.replace(outp + ".tmp", outp)
        for i in range(16):
            subprocess.run(["git", "-C", "/repo", "worktree", "remove", "--force", "/tmp/wt/ms-%d-%d" % (os.getpid(), i)], capture_output=True)


def cmd_report(out):
    tot = {}
    for fn in sorted(os.listdir(out)):
        if not fn.endswith(".jsonl"):
            continue
        recs = [json.loads(l) for l in open(os.path.join(out, fn))]
        k = sum(r["status"] == "killed" for r in recs)
        s = [r for r in recs if r["status"] == "survived"]
        sp = [r for r in s if r.get("suite", {}).get("exit") == 0]
        sf = [r for r in s if r.get("suite", {}).get("exit") not in (0, None)]
        faults = sum(any(c["exit"] not in (0, 1) for c in r["checks"].values()) for r in recs)
        print("%-45s mutants=%4d reported=%4d survived=%4d (suite passes: %d, suite fails: %d, no verdict: %d) faults/timeouts=%d" % (
            fn[:-6], len(recs), k, len(s), len(sp), len(sf), len(s) - len(sp) - len(sf), faults))
        for r in recs:
            if r["killed_by"]:
                tot[r["killed_by"]] = tot.get(r["killed_by"], 0) + 1
    print("first reporter:", dict(sorted(tot.items())))


if __name__ == "__main__":
    cmd, out, files = sys.argv[1], sys.argv[2], sys.argv[3:]
    if cmd == "run":
        cmd_run(out, files)
    elif cmd == "suite":
        cmd_suite(out, files)
    else:
        cmd_report(out)
