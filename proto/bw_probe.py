import sys, logging, asyncio, struct
sys.path.insert(0,'/repo'); sys.path.insert(0,'/tmp/proto2')
from v2 import VLoop, events
from aiocoap import Message, GET, PUT, POST, FETCH, Context
from aiocoap.tokenmanager import TokenManager
from aiocoap.messagemanager import MessageManager
from aiocoap.transports.udp6 import MessageInterfaceUDP6, UDP6EndpointAddress
import aiocoap.messagemanager as mm, aiocoap.tokenmanager as tm
class Rnd:
    def randint(self,a,b): return 100
    def uniform(self,a,b): return a
mm.random = Rnd(); tm.random = Rnd()
class Sock:
    def getsockname(self): return ('::', 40000, 0, 0)
class FT:
    def __init__(self, loop): self.out=[]; self.loop=loop
    def sendmsg(self, data, anc, flags, addr): self.out.append(data)
    def get_extra_info(self, k): return Sock() if k=='socket' else None
    def close(self): pass

def dec(d):
    t=(d[0]>>4)&3; tkl=d[0]&15; code=d[1]; mid=(d[2]<<8)|d[3]; tok=d[4:4+tkl]; p=4+tkl; num=0; opts=[]
    while p<len(d) and d[p]!=0xff:
        dl=d[p]>>4; ln=d[p]&15; p+=1
        if dl==13: dl=d[p]+13; p+=1
        elif dl==14: dl=(d[p]<<8|d[p+1])+269; p+=2
        if ln==13: ln=d[p]+13; p+=1
        elif ln==14: ln=(d[p]<<8|d[p+1])+269; p+=2
        num+=dl; opts.append((num,d[p:p+ln])); p+=ln
    pl = d[p+1:] if p<len(d) else b''
    return t,code,mid,tok,opts,pl
def enc(t,code,mid,tok,opts,pl):
    out=bytes([0x40|(t<<4)|len(tok),code,mid>>8,mid&255])+tok; last=0
    for n,v in sorted(opts, key=lambda x:x[0]):
        d=n-last; last=n
        def ext(x): return (x,b'') if x<13 else ((13,bytes([x-13])) if x<269 else (14,struct.pack('!H',x-269)))
        dn,de=ext(d); ln,le=ext(len(v)); out+=bytes([dn<<4|ln])+de+le+v
    if pl: out+=b'\xff'+pl
    return out
def blk(v): 
    i=int.from_bytes(v,'big'); return (i>>4, (i>>3)&1, i&7)
def mkblk(num,m,szx):
    i=(num<<4)|(m<<3)|szx; return i.to_bytes((i.bit_length()+7)//8,'big')

def run(method, body, srv_szx, resp_len, cli_exp=6):
    loop = VLoop(); events._set_running_loop(loop)
    ctx = Context(loop=loop)
    tman = TokenManager(ctx); mman = MessageManager(tman)
    mint = MessageInterfaceUDP6(('::',0), ctx.log, loop); tr = FT(loop); mint.connection_made(tr); mint._ctx=mman
    mman.message_interface=mint; tman.token_interface=mman; ctx.request_interfaces.append(tman)
    srv = UDP6EndpointAddress(('2001:db8::1', 5683, 0, 0), mint); srv.maximum_block_size_exp = cli_exp
    m = Message(code=method, payload=body, uri_path=['x']); m.remote = srv
    r = ctx.request(m)
    rep = bytes(range(256))*20; rep = rep[:resp_len]
    asm = b''; trace=[]
    loop.settle()
    for _ in range(300):
        if not tr.out: break
        d = tr.out.pop(0); t,code,mid,tok,opts,pl = dec(d)
        o = dict(opts)  # (ok for non-repeated)
        b1 = blk(o[27]) if 27 in o else None; b2 = blk(o[23]) if 23 in o else None
        trace.append((code, 'b1',b1,'b2',b2,'len',len(pl), 'size1', o.get(60)))
        ropts=[]; rcode=0x44; rpl=b''
        if b1:
            asm = (asm if b1[0] else b'') + pl
            szx=min(b1[2], srv_szx)
            if b1[1]:
                rcode=0x5f; ropts.append((27, mkblk(b1[0],1,szx)))
            else:
                ropts.append((27, mkblk(b1[0],0,szx)))
        if not (b1 and b1[1]):
            # final: deliver representation, blockwise
            szx = min(b2[2] if b2 else 6, srv_szx); size=2**(szx+4); num = b2[0] if b2 else 0
            if len(rep) > size or b2:
                chunk = rep[num*size:(num+1)*size]; more = (num+1)*size < len(rep)
                ropts.append((23, mkblk(num,int(more),szx))); ropts.append((4,b'E1')); rpl=chunk
            else: rpl=rep
            if method==GET or not b1: rcode=0x45
        resp = enc(2, rcode, mid, tok, ropts, rpl)
        mint.datagram_msg_received(resp, [], 0, ('2001:db8::1', 5683, 0, 0)); loop.settle()
    for t in trace: print('   ', t)
    ok = r.response.done() and not r.response.exception()
    print('  result', (r.response.result().code, len(r.response.result().payload), r.response.result().payload==rep) if ok else r.response.exception() if r.response.done() else 'PENDING', 'server assembled ok:', asm==body, loop.exc)
print('PUT 40B srv szx0 resp 40B'); run(PUT, bytes(range(40)), 0, 40)
print('PUT 1200B srv szx 4 resp 10'); run(PUT, bytes(range(200))*6, 4, 10)
print('GET resp 100 srv szx 1, client exp 3'); run(GET, b'', 1, 100, cli_exp=3)
print('FETCH 10B resp 50 szx0'); run(FETCH, b'0123456789', 0, 50)
