import sys, asyncio, logging
sys.path.insert(0,'/repo'); sys.path.insert(0,'/root/proto-keep')
from miniworld import VLoop, events
from aiocoap import Message, GET, PUT, POST, DELETE, Context
from aiocoap.message import Direction
from aiocoap.pipe import Pipe
from aiocoap.cli.rd import StandaloneResourceDirectory
from aiocoap.transports.udp6 import UDP6EndpointAddress
logging.disable(logging.CRITICAL)
class Iface:
    def _local_port(self): return 5683
IF=Iface()
def addr(i): return UDP6EndpointAddress(('2001:db8::%d'%i, 5683, 0, 0), IF, pktinfo=b'\x20\x01\x0d\xb8'+b'\0'*11+b'\x02'+b'\0\0\0\0')
def world():
    loop=VLoop(); events._set_running_loop(loop); ctx=Context(loop=loop); rd=StandaloneResourceDirectory(context=ctx); ctx.serversite=rd
    def do(code, path, query=(), payload=b'', cf=None, ep=1):
        m=Message(code=code, uri_path=path, uri_query=query, payload=payload)
        if cf is not None: m.opt.content_format=cf
        m.direction=Direction.INCOMING; m.remote=addr(ep)
        evs=[]; p=Pipe(m, ctx.log); p.on_event(lambda ev:(evs.append(ev),True)[1]); ctx.render_to_pipe(p); loop.settle()
        r=evs[0].message; return r.code.dotted, '/'.join(r.opt.location_path), r.payload.decode()
    def adv(dt):
        target=loop.time()+dt
        while loop.has_timer() and min(h._when for h in loop._scheduled if not h._cancelled) <= target: loop.fire()
        loop._vtime=target
    return loop, do, adv, rd
RDP=['resourcedirectory','']; EPL=['endpoint-lookup','']; RSL=['resource-lookup','']
loop, do, adv, rd = world()
print(do(POST, RDP, ['ep=e1','lt=60'], b'</a>;rt="x"', 40))
adv(74.9); print('t=74.9', do(GET, EPL)[2])
adv(0.2); print('t=75.1', do(GET, EPL)[2], loop.exc)
loop, do, adv, rd = world()
print(do(POST, RDP, ['ep=e1','lt=60'], b'</a>;rt="x"', 40))
adv(10); print('failed update', do(POST, ['reg','1',''], ['lt=500'], b'junk'))
adv(100); print('t=110 (model: expired at 75):', do(GET, EPL)[2])
loop, do, adv, rd = world()
print(do(POST, RDP, ['ep=e1','lt=60'], b'</a>;rt="x"', 40), do(POST, RDP, ['ep=e2','d=d1'], b'</b>', 40))
print('rereg e1', do(POST, RDP, ['ep=e1','lt=60'], b'</c>', 40))
print(do(GET, RSL)[2]); print(do(GET, EPL, ['d=d1'])[2]); print(do(GET, RSL, ['rt=x'])[2])
print('delete', do(DELETE, ['reg','1','']), do(GET, EPL)[2])
print('new e3 gets', do(POST, RDP, ['ep=e3'], b'', 40))
print('by_key', list(rd.common_rd._by_key), 'by_path', list(rd.common_rd._by_path))
print('no ep', do(POST, RDP, ['lt=60'], b'', 40), 'bad body', do(POST, RDP, ['ep=e9'], b'<<<', 40), 'no cf', do(POST, RDP, ['ep=e9'], b'</a>'))
print('exc', loop.exc)
