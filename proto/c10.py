import sys, itertools, asyncio, logging, socket, collections
sys.path.insert(0,'/repo'); sys.path.insert(0,'/root/proto-keep')
from miniworld import *
from aiocoap.transports.udp6 import _in6_pktinfo
logging.disable(logging.CRITICAL)
class Fast(resource.Resource):
    async def render_get(s, req): return Message(payload=b'f')
class Slow(resource.Resource):
    async def render_get(s, req):
        await asyncio.sleep(0.5); return Message(payload=b's')
def pk(local): return (socket.IPPROTO_IPV6, socket.IPV6_PKTINFO, _in6_pktinfo.pack(socket.inet_pton(socket.AF_INET6, local), 0))
PEER=('2001:db8::9',5683,0,0)
def cell(mtype, code, tok_known, local, path=b'fast', nr=None):
    site=resource.Site(); site.add_resource(['fast'],Fast()); site.add_resource(['slow'],Slow())
    loop, ctx, mint, sock, wire, mman, tman = make(site, mid0=0x7000)
    A=UDP6EndpointAddress(PEER, mint)
    m=Message(code=GET, uri_path=['x']); m.remote=A; r=ctx.request(m, handle_blockwise=False); loop.settle()
    req_bytes=wire.pop(0)[0]; tok=req_bytes[4:4+(req_bytes[0]&15)]; reqmid=req_bytes[2:4]
    token = tok if tok_known else b'\xee'
    mid = b'\x12\x34'
    if mtype in (2,3) and tok_known and code>=64: mid=reqmid   # piggybacked form
    opts=b''
    if 1<=code<32: opts=bytes([0xb0|len(path)])+path
    if nr is not None and 1<=code<32: 
        # no-response option 258: delta from 11 = 247 -> 13 ext (247-13=234)
        v = bytes([nr]) if nr else b''
        opts += bytes([0xd0|len(v), 234]) + v
    d=bytes([0x40|(mtype<<4)|len(token), code])+mid+token+opts+(b'\xffpp' if code>=64 else b'')
    sock.rx.append((d,[pk(local)],0,PEER)); cb,a=loop.readers[sock.fd]
    try: cb(*a); 
    except Exception as e: return ('EXC '+type(e).__name__,)
    loop.settle()
    t_end=1.0
    while loop.has_timer() and min(h._when for h in loop._scheduled if not h._cancelled) <= t_end: loop.fire()
    outs=[]
    for b,dst in wire:
        if b==req_bytes: continue  # retransmission of own request
        t=(b[0]>>4)&3; tkl=b[0]&15
        outs.append(('CON','NON','ACK','RST')[t]+':%d.%02d'%(b[1]>>5,b[1]&31)+(':mid=req' if b[2:4]==mid else '')+(':tok' if tkl and b[4:4+tkl]==token else ''))
    delivered = r.response.done() and not r.response.exception() 
    failed = r.response.done() and r.response.exception() is not None
    return tuple(outs)+(('DELIVERED',) if delivered else ())+(('REQFAILED',) if failed else ())+(('LOOPEXC',) if loop.exc else ())
T=['CON','NON','ACK','RST']
print('=== unicast, unknown/known token')
for code in (0,1,31,69,132,160,32,192,225):
    for known in (False, True):
        row=[cell(t, code, known, '2001:db8::2') for t in range(4)]
        print('%d.%02d'%(code>>5,code&31), 'known' if known else 'unkn ', ' | '.join('%s %s'%(T[i], ','.join(row[i]) or '-') for i in range(4)))
print('=== multicast local address')
for local in ('ff02::fd','::ffff:224.0.1.187'):
    for code in (0,1,69):
        row=[cell(t, code, False, local) for t in range(4)]
        print(local, '%d.%02d'%(code>>5,code&31), ' | '.join('%s %s'%(T[i], ','.join(row[i]) or '-') for i in range(4)))
print('=== slow handler / no-response')
for path in (b'fast', b'slow'):
    for nr in (None, 0, 2, 8, 16, 26):
        print(path, nr, 'CON', cell(0,1,False,'2001:db8::2',path,nr), 'NON', cell(1,1,False,'2001:db8::2',path,nr))
