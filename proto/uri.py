import sys, itertools
sys.path.insert(0,'/repo')
from aiocoap import Message, GET
from aiocoap.message import UndecidedRemote
from aiocoap.util import hostportjoin, hostportsplit
segs = ["a", "", ".", "..", "a/b", "a?b", "a&b", "a=b", "a%b", "a#b", "a b", "ö", "%41", ":@", "+", "a;b", "[", "\x7f", "€"]
bad=[]; n=0
for host in ("example.com", "[2001:db8::1]", "127.0.0.1"):
  for plen in range(0,3):
    for path in itertools.product(segs, repeat=plen):
      for qlen in range(0,2):
        for query in itertools.product(segs, repeat=qlen):
            if path == ("",) or query == ("",): continue   # degenerate
            m = Message(code=GET, uri_path=path, uri_query=query)
            m.remote = UndecidedRemote("coap", host)
            try:
                u = m.get_request_uri()
                m2 = Message(code=GET, uri=u)
            except Exception as e:
                bad.append((host, path, query, repr(e))); continue
            n+=1
            if m2.opt.uri_path != tuple(path) or m2.opt.uri_query != tuple(query):
                bad.append((host, path, query, u, m2.opt.uri_path, m2.opt.uri_query))
print(n, 'ok;', len(bad), 'bad'); 
for b in bad[:12]: print('  ', b)
for h,p in [("example.com",None),("example.com",5683),("127.0.0.1",1),("::1",None),("::1",5),("fe80::1%eth0",5683),("[::1]",7)]:
    j = hostportjoin(h,p); print(h,p,'->',j,'->',hostportsplit(j))
