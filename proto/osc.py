import sys, os, json, tempfile, time, shutil, io
sys.path.insert(0,'/repo'); sys.path.insert(0,'/root/proto-keep/shims')
import aiocoap, aiocoap.oscore as o, filelock
from aiocoap import Message, GET, POST, CONTENT
from aiocoap.message import Direction

class Ctx(o.CanProtect, o.CanUnprotect, o.SecurityContextUtils):
    echo_recovery = None
    def post_seqnoincrease(self): pass
def pair(sid=b'', rid=b'\x01', idc=None, window=32):
    out=[]
    for s,r in ((sid,rid),(rid,sid)):
        c=Ctx(); c.alg_aead=o.algorithms['AES-CCM-16-64-128']; c.hashfun=o.hashfunctions['sha256']
        c.sender_id=s; c.recipient_id=r; c.id_context=idc; c.derive_keys(b'\x9e|\xa9"#xc@', bytes(range(1,17)))
        c.sender_sequence_number=0; c.recipient_replay_window=o.ReplayWindow(window, lambda: None); c.recipient_replay_window.initialize_empty()
        out.append(c)
    return out
cl, sv = pair()
def wire(m):
    m.mtype=0; m.mid=1; m.token=b'\x42'
    d = Message.decode(m.encode()); return d
req = Message(code=GET, uri_path=['secretpath'], uri_host='example.com', payload=b'')
outer, rid = cl.protect(req)
print('outer:', outer.code, [ (int(opt.number), opt.value) for opt in outer.opt.option_list()], outer.payload.hex())
inner, srid = sv.unprotect(wire(outer))
print('inner:', inner.code, inner.opt.uri_path)
# flip H bit in oscore option
outer2, _ = cl.protect(Message(code=GET, uri_path=['x']))
w = wire(outer2); optv = w.opt.oscore; print('oscore option', optv.hex())
for bit in range(8):
    w = wire(outer2); w.opt.oscore = bytes([optv[0]^(1<<bit)]) + optv[1:]
    try:
        sv.unprotect(w); print(' bit',bit,'ACCEPTED')
    except Exception as e: print(' bit', bit, type(e).__name__, isinstance(e, o.ProtectionInvalid))
t=time.time()
for i in range(2000):
    ou,_=cl.protect(Message(code=GET, uri_path=['x'])); 
print('protect ms', (time.time()-t)/2000*1000)

# Filesystem context lifecycle
d = tempfile.mkdtemp()
json.dump({'sender-id_hex':'01','recipient-id_hex':'','secret_hex':'0102030405060708090a0b0c0d0e0f10'}, open(d+'/settings.json','w'))
fs = o.FilesystemSecurityContext(d)
seen=[]
for i in range(12):
    ou,_=fs.protect(Message(code=GET, uri_path=['x'])); seen.append(int.from_bytes(ou.opt.oscore[1:1+(ou.opt.oscore[0]&7)],'big'))
print('pivs', seen, 'on disk', open(d+'/sequence.json').read())
# simulate process death
fs.lockfile=None; filelock._process_died(); del fs
fs2 = o.FilesystemSecurityContext(d)
ou,_=fs2.protect(Message(code=GET, uri_path=['x'])); print('after crash next piv', ou.opt.oscore.hex(), 'window initialized', fs2.recipient_replay_window.is_initialized())
fs2._destroy(); print('clean:', open(d+'/sequence.json').read(), os.listdir(d))
# crash injection inside _store via os.replace
class Crash(BaseException): pass
fs3 = o.FilesystemSecurityContext(d)
class OsProxy:
    def __getattr__(self, n): return getattr(os, n)
    def replace(self, a, b): raise Crash()
o.os = OsProxy()
try:
    for i in range(3): fs3.protect(Message(code=GET, uri_path=['x']))
except Crash: print('crashed; dir', sorted(os.listdir(d)), 'ssn in memory', fs3.sender_sequence_number)
o.os = os
fs3.lockfile=None; filelock._process_died()
shutil.rmtree(d)
