import sys, itertools, asyncio, logging
sys.path.insert(0,'/repo')
from aiocoap import Message, GET, resource, error
from aiocoap.message import Direction
alpha = ["a","b",""]
def paths(maxlen): 
    for L in range(0,maxlen+1):
        yield from itertools.product(alpha, repeat=L)
class R(resource.Resource):
    def __init__(s, name): super().__init__(); s.name=name
def model(res, subs, path):
    path=tuple(path)
    if path in res: return (res[path], ())
    # longest proper non-empty prefix among subsites
    for cut in range(len(path)-1, 0, -1):
        pre, rem = path[:cut], path[cut:]
        if pre in subs:
            if rem == ("",): rem = ()
            inner = subs[pre]
            r = model(inner[0], inner[1], rem)
            return r
    return None
respaths = [p for p in paths(2)]
subpaths = [p for p in paths(2) if p and p[-1] != ""]
inner_cfgs = [ {(): 'i0'}, {("a",): 'i1'}, {(): 'i0', ("a","b"): 'i2'} ]
n=0; bad=[]
for rs in itertools.chain.from_iterable(itertools.combinations(respaths, k) for k in range(0,3)):
  for sp in itertools.chain.from_iterable(itertools.combinations(subpaths, k) for k in range(0,3)):
    for icfg in inner_cfgs:
        site = resource.Site(); res={}; subs={}
        for p in rs:
            name='r'+'/'.join(p); site.add_resource(p, R(name)); res[tuple(p)]=name
        for p in sp:
            inner = resource.Site(); ires={}
            for ip,nm in icfg.items():
                nm2 = nm+'@'+'/'.join(p); inner.add_resource(ip, R(nm2)); ires[ip]=nm2
            site.add_resource(p, inner); subs[tuple(p)]=(ires,{})
        for q in paths(4):
            n+=1
            m = Message(code=GET, uri_path=q); m.direction=Direction.INCOMING
            exp = model(res, subs, q)
            try:
                child, sub = site._find_child_and_pathstripped_message(m)
                while isinstance(child, resource.Site):
                    child, sub = child._find_child_and_pathstripped_message(sub)
                got = (child.name, sub.opt.uri_path, sub._original_request_path)
            except KeyError:
                got = None
            e2 = None if exp is None else (exp[0], exp[1], tuple(q))
            if got != e2: bad.append((rs, sp, icfg, q, e2, got))
print(n, 'requests', len(bad), 'disagreements')
for b in bad[:8]: print('  ', b)
