import sys, itertools, time
sys.path.insert(0,'/repo'); sys.path.insert(0,'/root/proto-keep/shims')
from aiocoap.oscore import ReplayWindow
def run(size, ops, init):
    w = ReplayWindow(size, lambda: None)
    if init[0]=='empty': w.initialize_empty(); floor=0; S=set()
    else: w.initialize_from_freshlyseen(init[1]); floor=init[1]; S={init[1]}
    for n in ops:
        exp = n >= floor and n not in S
        got = w.is_valid(n)
        if exp != got: return ('is_valid', n, exp, got)
        if got:
            w.strike_out(n); S.add(n); floor = max(floor, max(S)-size+1)
        else:
            try: w.strike_out(n); return ('strike accepted invalid', n)
            except ValueError: pass
    return None
t=time.time(); cnt=0; bad=[]
for size in (1,2,3,4):
    nums = list(range(0, 2*size+3)) + [10*size]
    for init in (('empty',), ('fresh', 2)):
        for L in range(1,6):
            for ops in itertools.product(nums, repeat=L):
                cnt+=1; r = run(size, ops, init)
                if r: bad.append((size, init, ops, r))
print(cnt, 'sequences', len(bad), 'disagreements', bad[:3], round(time.time()-t,1),'s')
