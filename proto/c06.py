import sys, itertools, asyncio, logging, collections
sys.path.insert(0,'/repo'); sys.path.insert(0,'/root/proto-keep')
from miniworld import VLoop, events
from aiocoap import Message, GET, PUT, POST, Context, resource
from aiocoap.message import Direction
from aiocoap.pipe import Pipe
from aiocoap.transports.udp6 import UDP6EndpointAddress
logging.disable(logging.CRITICAL)   # probe only
class Iface:
    def _local_port(self): return 5683
IF = Iface()
def addr(i): return UDP6EndpointAddress(('2001:db8::%d'%i, 5000, 0, 0), IF, pktinfo=b'\x20\x01\x0d\xb8'+b'\0'*11+b'\x02'+b'\0\0\0\0')
class A(resource.Resource):
    def __init__(s, rlen): super().__init__(); s.bodies=[]; s.renders=0; s.rlen=rlen
    async def render_put(s, req): s.bodies.append(bytes(req.payload)); return Message(payload=b'ok')
    async def render_get(s, req):
        s.renders+=1; return Message(payload=bytes([s.renders])*s.rlen)
def run(ops, rlen=40):
    loop=VLoop(); events._set_running_loop(loop)
    site=resource.Site(); a=A(rlen); site.add_resource(['a'], a); ctx=Context(loop=loop, serversite=site)
    out=[]
    for op in ops:
        if op[0]=='t': 
            target=loop.time()+op[1]
            while loop.has_timer() and min(h._when for h in loop._scheduled if not h._cancelled) <= target: loop.fire()
            loop._vtime=target; out.append(None); continue
        kind, ep, num, m, szx, plen = op
        if kind=='b1':
            msg=Message(code=PUT, uri_path=['a'], payload=bytes([num+1])*plen); msg.opt.block1=(num,m,szx)
        else:
            msg=Message(code=GET, uri_path=['a']); 
            if num is not None: msg.opt.block2=(num,0,szx)
        msg.direction=Direction.INCOMING; msg.remote=addr(ep)
        evs=[]; p=Pipe(msg, ctx.log); p.on_event(lambda ev: (evs.append(ev), True)[1]); ctx.render_to_pipe(p); loop.settle()
        r=evs[0].message
        out.append((r.code.dotted, r.opt.block1, r.opt.block2, bytes(r.payload)))
    return out, a
def model(ops, rlen=40):
    asm={}; rend={}; renders=0; bodies=[]; out=[]
    for op in ops:
        kind, ep, num, m, szx, plen = op
        size=2**(szx+4) if szx is not None else None
        if kind=='b1':
            key=ep; payload=bytes([num+1])*plen
            if num==0:
                asm[key]=payload; ok=True
            else:
                if key not in asm: out.append(('4.08',)); continue
                if m and plen!=size: out.append(('4.00',)); continue
                if num*size != len(asm[key]): out.append(('4.08',)); continue
                asm[key]+=payload
            if m: out.append(('2.31',(num,1,szx)))
            else: bodies.append(asm[key]); out.append(('2.04',(num,0,szx)))
        else:
            key=ep
            if num is None or num==0:
                renders+=1; body=bytes([renders])*rlen
                sz = size if num is not None else 1024
                if len(body)>sz or (num is not None and len(body)>sz):
                    rend[key]=body; out.append(('2.05', (0, len(body)>sz, szx if num is not None else 6), body[:sz]))
                else: out.append(('2.05', None, body))
            else:
                if key not in rend: out.append(('4.08',)); continue
                body=rend[key]
                if num*size>=len(body): out.append(('4.00',)); continue
                out.append(('2.05',(num, (num+1)*size<len(body), szx), body[num*size:(num+1)*size]))
    return out, bodies
b1=[('b1',ep,num,m,szx,plen) for ep in (1,2) for num in (0,1,2) for m in (0,1) for szx in (0,) for plen in (16,15) if not (num==0 and m==1 and plen!=16)]
b2=[('b2',ep,num,None,szx,None) for ep in (1,) for num in (None,0,1,2,3) for szx in (0,1)]
cls=collections.Counter(); ex={}
n=0
for ops in itertools.product(b1, repeat=3):
    n+=1; got,a=run(ops); exp,bodies=model(ops)
    for i,(g,e) in enumerate(zip(got,exp)):
        gg=(g[0], tuple(g[1]) if g[1] else None)
        ee=(e[0], (e[1][0],e[1][1],e[1][2]) if len(e)>1 and e[1] else None)
        if gg[0]!=ee[0] or (ee[0] in('2.31','2.04') and (gg[1][0],bool(gg[1][1]),gg[1][2])!=(ee[1][0],bool(ee[1][1]),ee[1][2])):
            k=(ee[0],gg[0]); cls[k]+=1; ex.setdefault(k,(ops[:i+1],g)); break
    else:
        if a.bodies!=bodies: cls[('bodies',)]+=1; ex.setdefault(('bodies',),(ops,a.bodies,bodies))
print('block1:', n,'sequences; disagreement classes (expected, got):', dict(cls))
for k,v in ex.items(): print('  ',k,v)
cls=collections.Counter(); ex={}; n=0
for rlen in (0,16,17,40):
  for ops in itertools.product(b2, repeat=3):
    n+=1; got,a=run(ops,rlen); exp,_=model(ops,rlen)
    for i,(g,e) in enumerate(zip(got,exp)):
        gb2 = (g[2][0],bool(g[2][1]),g[2][2]) if g[2] else None
        ee = (e[0],) if len(e)==1 else (e[0], (e[1][0],bool(e[1][1]),e[1][2]) if e[1] else None, e[2])
        gg = (g[0],) if len(e)==1 else (g[0], gb2, g[3])
        if gg!=ee: k=(ee[0],gg[0]); cls[k]+=1; ex.setdefault(k,(rlen,ops[:i+1],ee,gg)); break
print('block2:', n,'sequences; classes:', dict(cls))
for k,v in ex.items(): print('  ',k,v)
# lifetime
for dt in (92.9, 93.1, 185.9, 186.1):
    got,_=run([('b1',1,0,1,0,16),('t',dt),('b1',1,1,0,0,3)]); print('idle',dt,'->',got[-1][0])
for dt1,dt2 in ((50,92.9),(50,136.1),(92.9,92.9),(92.9,93.2)):
    got,_=run([('b1',1,0,1,0,16),('t',dt1),('b1',1,1,1,0,16),('t',dt2),('b1',1,2,0,0,3)]); print('idle',dt1,dt2,'->',[g and g[0] for g in got])
