import sys, socket, logging, asyncio, gc
sys.path.insert(0,'/repo')
from asyncio import events, base_events
from aiocoap import Message, GET, Context, resource
from aiocoap.tokenmanager import TokenManager
from aiocoap.messagemanager import MessageManager
from aiocoap.transports.udp6 import MessageInterfaceUDP6, UDP6EndpointAddress, _in6_pktinfo
from aiocoap.util.asyncio.recvmsg import RecvmsgSelectorDatagramTransport
from aiocoap.util import socknumbers
import aiocoap.messagemanager as mm, aiocoap.tokenmanager as tm

class VSelector:
    def __init__(self, loop): self.loop = loop
    def select(self, timeout):
        if timeout is None: raise RuntimeError("idle")
        if timeout > 0:
            self.loop._vtime = max(self.loop._vtime, min(h._when for h in self.loop._scheduled if not h._cancelled))
        return []
    def close(self): pass
class VLoop(base_events.BaseEventLoop):
    def __init__(self):
        super().__init__(); self._vtime=0.0; self._selector=VSelector(self); self.readers={}; self.exc=[]
        self.set_exception_handler(lambda loop, ctx: self.exc.append(ctx))
    def time(self): return self._vtime
    def _process_events(self, evs): pass
    def _write_to_self(self): pass
    def add_reader(self, fd, cb, *a): self.readers[fd]=(cb,a)
    def remove_reader(self, fd): self.readers.pop(fd, None)
    def settle(self):
        while self._ready: self._run_once()
    def has_timer(self): return any(not h._cancelled for h in self._scheduled)
    def fire(self):
        if not self.has_timer(): return False
        self._run_once(); self.settle(); return True
class FakeSocket:
    n=1000
    def __init__(self, wire): FakeSocket.n+=1; self.fd=FakeSocket.n; self.wire=wire; self.rx=[]; self.errq=[]; self.closed=False; self.fail=None
    def fileno(self): return self.fd
    def setblocking(self,b): pass
    def getsockname(self): return ('::',5683,0,0)
    def bind(self,a): pass
    def recvmsg(self, n, a=0, flags=0):
        if self.closed: raise OSError(9,'EBADF')
        q = self.errq if flags & socknumbers.MSG_ERRQUEUE else self.rx
        if not q: raise BlockingIOError()
        return q.pop(0)
    def sendmsg(self, bufs, anc, flags, addr):
        if self.closed: raise OSError(9,'EBADF')
        if self.fail and self.fail(): raise OSError(101,'Network is unreachable')
        self.wire.append((b''.join(bufs), addr))
    def close(self): self.closed=True
class Rnd:
    def __init__(s, v=100): s.v=v
    def randint(s,a,b): return s.v
    def uniform(s,a,b): return a
PK = (socket.IPPROTO_IPV6, socket.IPV6_PKTINFO, _in6_pktinfo.pack(socket.inet_pton(socket.AF_INET6,'2001:db8::2'), 0))
def make(site=None, mid0=100):
    loop=VLoop(); events._set_running_loop(loop); mm.random=Rnd(mid0); tm.random=Rnd(mid0)
    wire=[]; ctx=Context(loop=loop, serversite=site); tman=TokenManager(ctx); mman=MessageManager(tman)
    sock=FakeSocket(wire); mint=MessageInterfaceUDP6(('::',5683,0,0), ctx.log, loop)
    tr=RecvmsgSelectorDatagramTransport(loop, sock, mint, loop.create_future()); loop.settle()
    mint._ctx=mman; mman.message_interface=mint; tman.token_interface=mman; ctx.request_interfaces.append(tman)
    return loop, ctx, mint, sock, wire, mman, tman
def deliver(loop, sock, data, src=('2001:db8::9',5683,0,0)):
    sock.rx.append((data,[PK],0,src)); cb,a=loop.readers[sock.fd]; cb(*a); loop.settle()
