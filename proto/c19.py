import sys, os, asyncio, logging, tempfile, shutil, mimetypes
sys.path.insert(0,'/repo'); sys.path.insert(0,'/root/proto-keep')
from pathlib import Path
from miniworld import VLoop, events
from aiocoap import Message, GET, PUT, DELETE, Context
from aiocoap.message import Direction
from aiocoap.pipe import Pipe
from aiocoap.transports.udp6 import UDP6EndpointAddress
from aiocoap.cli.fileserver import FileServer
logging.disable(logging.CRITICAL)
touched=[]; active=[False]
def hook(ev, args):
    if not active[0]: return
    if ev in ('open','os.listdir','os.scandir','os.rename','os.remove','os.mkdir','os.rmdir','os.chmod','os.truncate','tempfile.mkstemp','os.link','os.symlink','shutil.rmtree'):
        touched.append((ev,)+tuple(a for a in args if isinstance(a,(str,bytes,os.PathLike))))
sys.addaudithook(hook)
_stat=os.stat; _lstat=os.lstat
def stat(p,*a,**k):
    if active[0] and not isinstance(p,int): touched.append(('os.stat',p))
    return _stat(p,*a,**k)
os.stat=stat
mimetypes.init()
class Iface:
    def _local_port(self): return 5683
A=UDP6EndpointAddress(('2001:db8::1',5683,0,0), Iface(), pktinfo=b'\x20\x01\x0d\xb8'+b'\0'*11+b'\x02'+b'\0\0\0\0')
d=tempfile.mkdtemp(); root=Path(d)/'root'; root.mkdir(); (root/'f.txt').write_text('hello'); (root/'sub').mkdir(); (Path(d)/'outside.txt').write_text('S')
loop=VLoop(); events._set_running_loop(loop); fs=FileServer(root, logging.getLogger('fs'), write=True); ctx=Context(loop=loop, serversite=fs)
def do(code, path, payload=b''):
    m=Message(code=code, uri_path=path, payload=payload); m.direction=Direction.INCOMING; m.remote=A
    evs=[]; p=Pipe(m, ctx.log); p.on_event(lambda ev:(evs.append(ev),True)[1])
    touched.clear(); active[0]=True
    ctx.render_to_pipe(p); loop.settle(); active[0]=False
    return evs[0].message.code.dotted, [(t[0], [str(x).replace(d,'<SB>') for x in t[1:]]) for t in touched]
for code,path,pl in [(GET,['f.txt'],b''),(GET,[''],b''),(PUT,['new.txt'],b'x'),(DELETE,['new.txt'],b''),(GET,['']+str(Path(d)/'outside.txt').split('/')[1:],b''),(GET,['sub',''],b'')]:
    print(code, path[:2], do(code,path,pl))
os.stat=_stat; shutil.rmtree(d)
